"""E4 -- abstract interpretation of the dump_* functions on the domain "regular template".

Every string-valued expression is mapped to a regular language (Rx) built from the literals in
the source, library lexical forms (spec/lexforms.json), payload domains of valid values
(spec/domains.json), escape pipelines (E5) and nonterminal symbols for nested values/grids.
Nothing is executed; unknown constructs raise Unsupported (-> ANALYSIS-ERROR)."""
from __future__ import annotations

import ast
import re

from . import lang as L
from . import spec as S
from . import transducer as T
from .lang import Unsupported
from .model import AnalysisError, Opaque, body_wo_doc, norm

FMT_RE = re.compile(r'%(?P<flags>[-#0 +]*)(?P<width>\d+)?(?:\.(?P<prec>\d+))?(?P<conv>[sdfgerxX%])')

KINDS = ['None', 'NA', 'MARKER', 'REMOVE', 'bool', 'int', 'float', 'str', 'Uri', 'Bin', 'XStr', 'Ref', 'Ref+dis',
         'Coordinate', 'Quantity', 'Quantity-nounit', 'date', 'time', 'datetime', 'list', 'dict', 'Grid']
V3_ONLY = {'NA', 'list', 'dict', 'Grid', 'XStr'}
NF_ALL = frozenset({'inf', '-inf', 'nan'})


class DataAsFormat(Unsupported):
    """`<text that contains a value's own characters> % args`: the value is interpreted as a printf template"""

    def __init__(self, expr, fields, lineno):
        Unsupported.__init__(self, 'value text used as a format template: %s' % expr)
        self.expr, self.fields, self.lineno = expr, fields, lineno


def report_data_as_format(ctx, rule, e, file, construct):
    ctx.violation(rule, construct, e.expr,
                  "a value whose text contains a percent sign (display name 'Valve position %%', '100%% outside air', "
                  "'load %%s of %%d'): the text of %s is part of the string that is then used as a %%-format template -- "
                  "'%%%%' collapses to '%%', '%%s' consumes an argument, a lone '%%' raises ValueError/TypeError out of dump()"
                  % ', '.join(e.fields),
                  'data (%s) is concatenated into the format string before `%%` is applied' % ', '.join(e.fields),
                  file=file, line=e.lineno, engine='E5')

# python class facts for isinstance ladders (kind -> classes it is an instance of)
ISA = {
    'None': set(), 'NA': {'NAType', 'Singleton'}, 'MARKER': {'MarkerType', 'Singleton'},
    'REMOVE': {'RemoveType', 'Singleton'},
    'bool': {'bool', 'int', 'numbers.Number', 'six.integer_types'}, 'int': {'int', 'numbers.Number', 'six.integer_types', 'long'},
    'float': {'float', 'numbers.Number'},
    'str': {'str', 'six.string_types', 'six.text_type'}, 'Uri': {'Uri', 'str', 'six.string_types', 'six.text_type'},
    'Bin': {'Bin', 'str', 'six.string_types', 'six.text_type'}, 'XStr': {'XStr'}, 'Ref': {'Ref'}, 'Ref+dis': {'Ref'},
    'Coordinate': {'Coordinate'}, 'Quantity': {'Quantity', 'BasicQuantity', 'Qty'},
    'Quantity-nounit': {'Quantity', 'BasicQuantity', 'Qty'},
    'date': {'datetime.date'}, 'time': {'datetime.time'}, 'datetime': {'datetime.datetime', 'datetime.date'},
    'list': {'list'}, 'dict': {'dict'}, 'Grid': {'Grid'},
}
IS_NAME = {'None': 'None', 'NA': 'NA', 'MARKER': 'MARKER', 'REMOVE': 'REMOVE'}


class Tmpl(object):
    """A string-valued abstract value."""
    __slots__ = ('rx', 'raw', 'lossy', 'notes')

    def __init__(self, rx, raw=(), lossy=(), notes=()):
        self.rx = rx
        self.raw = tuple(raw)        # any-text payloads formatted without an escape pipeline
        self.lossy = tuple(lossy)    # lossy conversions used
        self.notes = tuple(notes)

    def cat(self, other):
        return Tmpl(L.rcat(self.rx, other.rx), self.raw + other.raw, self.lossy + other.lossy, self.notes + other.notes)

    @staticmethod
    def union(items):
        items = list(items)
        raw, lossy, notes = (), (), ()
        for t in items:
            raw += tuple(x for x in t.raw if x not in raw)
            lossy += tuple(x for x in t.lossy if x not in lossy)
            notes += tuple(x for x in t.notes if x not in notes)
        return Tmpl(L.ralt(*[t.rx for t in items]), raw, lossy, notes)


def p_open(i):
    return L.SYM_BASE + 0x800 + 2 * i


def p_close(i):
    return L.SYM_BASE + 0x800 + 2 * i + 1


def lit(s):
    return ('str', Tmpl(L.rlit(s)))


class Interp(object):
    def __init__(self, model, modname, mode):
        self.model = model
        self.modname = modname
        self.mode = mode            # 'zinc' | 'json'
        self.assume = {}
        self.pipelines = {}
        self.calls = []             # call graph edges seen (caller, callee)
        self.depth = 0
        self.version = None
        self.grid_as_nt = False
        self.mark = False           # wrap the payload of each top-level conversion in marker symbols
        self.n_marks = 0

    # ------------------------------------------------------------- helpers
    def pipeline(self, fname):
        if fname not in self.pipelines:
            try:
                p = T.extract_pipeline(self.model, self.modname, fname)
                if not p.phases:
                    raise Unsupported('not an escape pipeline')
                classes, notes = T.compose(p)
                self.pipelines[fname] = (p, classes, notes)
            except (Unsupported, AnalysisError):
                self.pipelines[fname] = None
        return self.pipelines[fname]

    def field(self, kind, name, node):
        if kind in ('Ref', 'Ref+dis'):
            if name == 'name':
                return ('str', Tmpl(S.domain('ref_name')))
            if name == 'value':
                return ('str', Tmpl(S.domain('any_text'), raw=('Ref.value',)))
            if name == 'has_value':
                return ('const', kind == 'Ref+dis')
        if kind in ('Quantity', 'Quantity-nounit'):
            if name == 'value':
                # a unit-less quantity is a plain number for the formats, the non-finite ones included; INF/NaN with a
                # unit has no spelling in either format and is outside the properties' domain
                return ('num', 'number', NF_ALL if kind == 'Quantity-nounit' else frozenset())
            if name == 'unit':
                if kind == 'Quantity-nounit':
                    return ('const', None)
                return ('str', Tmpl(S.domain('unit')))
        if kind == 'Coordinate' and name in ('latitude', 'longitude'):
            return ('num', 'float', frozenset())
        if kind == 'XStr':
            if name == 'encoding':
                return ('str', Tmpl(S.domain('xstr_type')))
            if name == 'data':
                return ('str', Tmpl(S.domain('any_text'), raw=('XStr.data',)))
        if kind == 'Grid':
            if name in ('_version', 'version'):
                return ('ver',)
            if name == 'metadata':
                return ('meta',)
            if name == 'column':
                return ('cols',)
        raise Unsupported('attribute .%s of a %s value (line %s)' % (name, kind, getattr(node, 'lineno', '?')))

    def lex_number(self, av, how):
        """text of a number under str()/%s/%f/%d"""
        _, nk, nf = av
        if nf is True:
            nf = frozenset()
        elif nf is False:
            nf = NF_ALL
        extra = [Tmpl(L.rlit(x)) for x in sorted(nf)] if nk != 'int' else []
        if how in ('str', 'repr', 's', 'r'):
            parts = list(extra)
            if nk in ('int', 'number'):
                parts.append(Tmpl(S.lexform('str_int')))
            if nk in ('float', 'number'):
                parts.append(Tmpl(S.lexform('str_float_finite')))
            return Tmpl.union(parts)
        if how == 'f':
            return Tmpl.union([Tmpl(S.lexform('pct_f_finite'), lossy=('%f',))] + extra)
        if how == 'd':
            return Tmpl(S.lexform('pct_d'), lossy=('%d',) if nk != 'int' else ())
        raise Unsupported('number formatted with %%%s' % how)

    def to_str(self, av, how, node):
        k = av[0]
        if k == 'str':
            if how in ('s', 'str'):
                return av[1]
            raise Unsupported('string formatted with %%%s' % how)
        if k == 'const':
            v = av[1]
            if isinstance(v, str) and how in ('s', 'str'):
                return Tmpl(L.rlit(v))
            if isinstance(v, bool):
                return Tmpl(L.rlit(str(v)))
            if isinstance(v, int) and how in ('s', 'str', 'd'):
                return Tmpl(L.rlit(str(v)))
            raise Unsupported('constant %r formatted with %%%s' % (v, how))
        if k == 'num':
            return self.lex_number(av, how)
        if k == 'ver':
            return Tmpl(S.lexform('version'))
        if k == 'obj':
            kind = av[1]
            if kind in ('str', 'Uri'):
                return Tmpl(S.domain('any_text'), raw=('%s text' % kind,))
            if kind == 'Bin':
                return Tmpl(S.domain('mime'))
            if kind in ('int', 'float'):
                return self.lex_number(('num', kind, NF_ALL if kind == 'float' else frozenset()), how)
            if kind in ('XStr', 'Ref', 'Ref+dis', 'Coordinate', 'Quantity') and how in ('s', 'str'):
                # str(obj): __str__ or __repr__ of the package class
                return self.method_str(kind, node)
            if kind == 'any':
                raise Unsupported('an arbitrary scalar formatted with %%%s' % how)
        raise Unsupported('value %r formatted with %%%s' % (av, how))

    def method_str(self, kind, node):
        cls = {'Ref+dis': 'Ref', 'Quantity': 'Qty'}.get(kind, kind)
        meths = self.model.methods('datatypes', cls)
        fn = meths.get('__str__') or meths.get('__repr__')
        if fn is None:
            raise Unsupported('str() of %s: no __str__/__repr__' % kind)
        sub = Interp(self.model, 'datatypes', self.mode)
        sub.version = self.version
        res = sub.run_function(fn, [('obj', kind)], {})
        return Tmpl.union([self.to_str(r, 's', node) for r in res])

    # ------------------------------------------------------------- expressions
    def expr(self, e, env):
        if isinstance(e, ast.Constant):
            if isinstance(e.value, str):
                return lit(e.value)
            return ('const', e.value)
        if isinstance(e, ast.Name):
            if e.id in env:
                return env[e.id]
            if e.id in ('True', 'False', 'None'):
                return ('const', {'True': True, 'False': False, 'None': None}[e.id])
            r = self.model.resolve_name(self.modname, e.id)
            if r and r[0] != '<ext>' and r[1] is not None:
                try:
                    node = self.model.func(r[0], r[1])
                    if isinstance(node, ast.FunctionDef):
                        return ('func', r[0], r[1], {})
                except AnalysisError:
                    pass
                c = self.model.const(self.modname, e.id)
                if isinstance(c, str):
                    return lit(c)
                if not isinstance(c, Opaque):
                    return ('const', c)
            if e.id in ('MARKER', 'NA', 'REMOVE'):
                return ('obj', e.id)
            raise Unsupported('name %s' % e.id)
        if isinstance(e, ast.Attribute):
            base = self.expr(e.value, env)
            if base[0] == 'obj':
                return self.field(base[1], e.attr, e)
            if base[0] == 'grid':
                return self.field('Grid', e.attr, e)
            raise Unsupported('attribute %s of %r' % (e.attr, base[0]))
        if isinstance(e, ast.BinOp):
            if isinstance(e.op, ast.Mod):
                fmt = self.expr(e.left, env)
                if fmt[0] != 'str':
                    raise Unsupported('format %s' % norm(e.left))
                fs = self.model.fold(self.modname, e.left)
                if not isinstance(fs, str):
                    if getattr(fmt[1], 'raw', None):
                        raise DataAsFormat(norm(e), sorted(fmt[1].raw), getattr(e, 'lineno', None))
                    raise Unsupported('non-constant format %s' % norm(e.left))
                args = e.right.elts if isinstance(e.right, ast.Tuple) else [e.right]
                return ('str', self.format(fs, [self.expr(a, env) for a in args], e))
            if isinstance(e.op, ast.Add):
                a, b = self.expr(e.left, env), self.expr(e.right, env)
                if a[0] in ('seq', 'tuple', 'seqcat') and b[0] in ('seq', 'tuple', 'seqcat'):
                    pa = a[1] if a[0] == 'seqcat' else [a]
                    pb = b[1] if b[0] == 'seqcat' else [b]
                    return ('seqcat', pa + pb)
                return ('str', self.to_str(a, 's', e).cat(self.to_str(b, 's', e)))
        if isinstance(e, ast.IfExp):
            t = self.truth(e.test, env)
            if t is True:
                return self.expr(e.body, env)
            if t is False:
                return self.expr(e.orelse, env)
            a, b = self.expr(e.body, env), self.expr(e.orelse, env)
            if a[0] == 'str' and b[0] == 'str':
                return ('str', Tmpl.union([a[1], b[1]]))
            if a == b:
                return a
            return ('either', a, b)
        if isinstance(e, ast.Call):
            return self.call(e, env)
        if isinstance(e, (ast.List, ast.Tuple)):
            items = [self.expr(x, env) for x in e.elts]
            return ('tuple', items)
        if isinstance(e, ast.ListComp) and len(e.generators) == 1 and not e.generators[0].ifs:
            g = e.generators[0]
            it = self.expr(g.iter, env)
            env2 = dict(env)
            nonempty = self.bind_iter(g.target, it, env2)
            return ('seq', self.expr(e.elt, env2), nonempty)
        if isinstance(e, ast.Subscript):
            # TABLE[x]: x a number variable narrowed to non-finite values, TABLE a module-level dict keyed by them
            tab = self.nonfinite_table(e.value) if isinstance(e.value, ast.Name) else None
            if tab is not None and isinstance(e.slice, ast.Name) and e.slice.id in env and env[e.slice.id][0] == 'num':
                cur = env[e.slice.id][2]
                if cur and cur <= set(tab) - {'nan'} and all(isinstance(tab[k], str) for k in cur):
                    return ('str', Tmpl.union([Tmpl(L.rlit(tab[k])) for k in sorted(cur)]))
            raise Unsupported('subscript %s' % norm(e))
        if isinstance(e, ast.Dict):
            return ('pydict', [(self.expr(k, env), self.expr(v, env)) for k, v in zip(e.keys, e.values)])
        if isinstance(e, ast.DictComp) and len(e.generators) == 1:
            g = e.generators[0]
            it = self.expr(g.iter, env)
            env2 = dict(env)
            self.bind_iter(g.target, it, env2)
            return ('pydictcomp', self.expr(e.key, env2), self.expr(e.value, env2))
        raise Unsupported('expression %s' % norm(e))

    def bind_iter(self, target, it, env):
        """bind the loop target for one element of `it`; returns whether the iterable is non-empty."""
        if it[0] == 'seq':
            elem, nonempty = it[1], it[2]
        elif it[0] == 'obj' and it[1] == 'list':
            elem, nonempty = ('obj', 'any'), False
        elif it[0] == 'dictitems':
            elem, nonempty = ('tuple', [('str', Tmpl(S.domain('tag_name'))), ('obj', 'any')]), False
        elif it[0] == 'colkeys':
            elem, nonempty = ('str', Tmpl(S.domain('tag_name'))), True
        elif it[0] == 'colitems':
            elem, nonempty = ('tuple', [('str', Tmpl(S.domain('tag_name'))), ('colmeta',)]), True
        elif it[0] == 'rows':
            elem, nonempty = ('row',), False
        elif it[0] == 'metaitems':
            elem, nonempty = ('metaitem',), it[1]
        else:
            raise Unsupported('iteration over %r' % (it[0],))
        if isinstance(target, ast.Name):
            env[target.id] = elem
        elif isinstance(target, ast.Tuple) and elem[0] == 'tuple' and len(target.elts) == len(elem[1]):
            for t, v in zip(target.elts, elem[1]):
                env[t.id] = v
        elif isinstance(target, ast.Tuple) and elem[0] == 'metaitem' and len(target.elts) == 2:
            env[target.elts[0].id] = ('str', Tmpl(S.domain('tag_name')))
            env[target.elts[1].id] = ('obj', 'any')
        else:
            raise Unsupported('loop target %s' % norm(target))
        return nonempty

    def format(self, fs, args, node):
        out = Tmpl(L.EPS)
        pos = 0
        i = 0
        for m in FMT_RE.finditer(fs):
            out = out.cat(Tmpl(L.rlit(fs[pos:m.start()])))
            pos = m.end()
            conv = m.group('conv')
            if conv == '%':
                out = out.cat(Tmpl(L.rlit('%')))
                continue
            if i >= len(args):
                raise Unsupported('format %r: too few arguments' % fs)
            a = args[i]
            i += 1
            if m.group('width') or (m.group('prec') and conv != 'f') or m.group('flags'):
                raise Unsupported('format %r: width/flags' % fs)
            if conv == 'f' and m.group('prec'):
                if a[0] != 'num':
                    raise Unsupported('%%.Nf of %r' % (a[0],))
                n = int(m.group('prec'))
                out = out.cat(Tmpl(S.rx_of(r'-?[0-9]+\.[0-9]{%d}|inf|-inf|nan' % n if n else r'-?[0-9]+|inf|-inf|nan'),
                                   lossy=('%%.%df' % n,)))
                continue
            piece = self.to_str(a, conv, node)
            if self.mark and self.depth == 1:
                k = self.n_marks
                self.n_marks += 1
                piece = Tmpl(L.rcat(L.rsym(p_open(k)), piece.rx, L.rsym(p_close(k))), piece.raw, piece.lossy, piece.notes)
            out = out.cat(piece)
        out = out.cat(Tmpl(L.rlit(fs[pos:])))
        if i != len(args):
            raise Unsupported('format %r: %d arguments for %d conversions' % (fs, len(args), i))
        return out

    def truth(self, test, env):
        t = norm(test)
        for pat, val in self.assume.items():
            if t == pat:
                return val
        if isinstance(test, ast.BoolOp):
            vals = [self.truth(v, env) for v in test.values]
            if isinstance(test.op, ast.Or):
                if any(v is True for v in vals):
                    return True
                if all(v is False for v in vals):
                    return False
                return None
            if any(v is False for v in vals):
                return False
            if all(v is True for v in vals):
                return True
            return None
        if isinstance(test, ast.UnaryOp) and isinstance(test.op, ast.Not):
            v = self.truth(test.operand, env)
            return None if v is None else (not v)
        if isinstance(test, ast.Compare) and len(test.ops) == 1:
            try:
                l = self.expr(test.left, env)
                r = self.expr(test.comparators[0], env)
            except Unsupported:
                return None
            op = test.ops[0]
            if isinstance(op, (ast.Is, ast.IsNot, ast.Eq, ast.NotEq)):
                res = None
                if l[0] == 'const' and r[0] == 'const':
                    res = (l[1] is r[1]) if isinstance(op, (ast.Is, ast.IsNot)) else (l[1] == r[1])
                elif l[0] == 'obj' and r[0] == 'obj' and l[1] != 'any' and r[1] != 'any':
                    if l[1] in IS_NAME and r[1] in IS_NAME:
                        res = l[1] == r[1]
                    elif (l[1] in IS_NAME) != (r[1] in IS_NAME):
                        res = False
                elif l[0] == 'obj' and l[1] != 'any' and r[0] == 'const' and r[1] is None:
                    res = l[1] == 'None'
                elif l[0] == 'str' and r[0] == 'const' and r[1] is None:
                    res = False
                elif l[0] == 'str' and r[0] == 'str' and isinstance(op, (ast.Eq, ast.NotEq)):
                    # unit == '' : empty string not in the unit domain
                    w = L.find_common(l[1].rx, r[1].rx)
                    res = None if w is not None else False
                elif l[0] == 'const' and l[1] is None and r[0] == 'str':
                    res = False
                if res is not None:
                    return res if isinstance(op, (ast.Is, ast.Eq)) else (not res)
            if isinstance(op, ast.Lt) and l[0] == 'ver' or (l[0] == 'const' and r[0] == 'const' and False):
                return None
            return None
        if isinstance(test, ast.Call):
            f = norm(test.func)
            if f == 'isinstance' and len(test.args) == 2:
                try:
                    v = self.expr(test.args[0], env)
                except Unsupported:
                    return None
                if v[0] == 'num':
                    classes = test.args[1].elts if isinstance(test.args[1], ast.Tuple) else [test.args[1]]
                    names = {norm(c) for c in classes}
                    if v[1] == 'number':
                        if {'float', 'int'} <= names or 'numbers.Number' in names:
                            return True
                        if names & {'float', 'int', 'six.integer_types', 'bool'}:
                            return None
                        return False
                    return bool(ISA.get(v[1], set()) & names)
                if v[0] == 'obj' and v[1] != 'any':
                    classes = test.args[1].elts if isinstance(test.args[1], ast.Tuple) else [test.args[1]]
                    names = set()
                    for c in classes:
                        n = norm(c)
                        names.add(n)
                        if n == 'int':
                            names.add('int')
                    return bool(ISA.get(v[1], set()) & names)
                return None
            if f == 'bool' and len(test.args) == 1:
                return self.truth(test.args[0], env)
        try:
            v = self.expr(test, env)
        except Unsupported:
            return None
        if v[0] == 'const':
            return bool(v[1])
        return None

    # ------------------------------------------------------------- calls
    def call(self, e, env):
        f = e.func
        fname = norm(f)
        kw = {k.arg: k.value for k in e.keywords}
        if fname == 'str' and len(e.args) == 1:
            return ('str', self.to_str(self.expr(e.args[0], env), 'str', e))
        if fname == 'repr' and len(e.args) == 1:
            a = self.expr(e.args[0], env)
            if a[0] == 'num':
                return ('str', self.to_str(a, 'r', e))
            raise Unsupported('repr(%s)' % norm(e.args[0]))
        if fname == 'bool' and len(e.args) == 1:
            t = self.truth(e.args[0], env)
            return ('const', t) if t is not None else ('bool',)
        if fname == 'list' and len(e.args) == 1:
            return self.expr(e.args[0], env)
        if fname == 'dict' and len(e.args) == 1:
            return ('pydictfrom', self.expr(e.args[0], env))
        if fname == 'functools.partial':
            fn = self.expr(e.args[0], env)
            if fn[0] != 'func':
                raise Unsupported('partial of %s' % norm(e.args[0]))
            pos = [self.expr(a, env) for a in e.args[1:]]
            kws = dict(fn[3])
            kws.update({k: self.expr(v, env) for k, v in kw.items()})
            return ('func', fn[1], fn[2], kws, pos)
        if fname == 'map':
            fn = self.expr(e.args[0], env)
            if len(e.args) == 2 and isinstance(e.args[1], ast.Starred):
                inner = self.expr(e.args[1].value, env)
                if inner == ('colzip',) and fn[0] == 'func':
                    args = (list(fn[4]) if len(fn) > 4 else []) + [('str', Tmpl(S.domain('tag_name'))), ('colmeta',)]
                    return ('seq', self.invoke(fn[1], fn[2], args, fn[3], e), True)
                raise Unsupported('map(f, *%s)' % norm(e.args[1].value))
            seqs = [self.expr(a, env) for a in e.args[1:]]
            return self.map(fn, seqs, e)
        if fname == 'zip' and len(e.args) == 1 and isinstance(e.args[0], ast.Starred):
            inner = self.expr(e.args[0].value, env)
            if inner[0] == 'colitems':
                return ('colzip',)
            raise Unsupported('zip(*%s)' % norm(e.args[0].value))
        if fname == 'timezone_name':
            a = self.expr(e.args[0], env)
            if a == ('obj', 'datetime'):
                return ('str', Tmpl(S.zone_rx(self.model)))
            raise Unsupported('timezone_name(%s)' % norm(e.args[0]))
        if fname in ('json.dumps',):
            return ('json', self.expr(e.args[0], env))
        if isinstance(f, ast.Attribute):
            if f.attr == 'join' and len(e.args) == 1:
                sep = self.expr(f.value, env)
                seq = self.expr(e.args[0], env)
                return ('str', self.join(self.to_str(sep, 's', e), seq, e))
            base = self.expr(f.value, env)
            if f.attr in ('upper', 'lower') and not e.args and base[0] == 'str':
                t0 = base[1]
                return ('str', Tmpl(L.rmap_case(t0.rx, f.attr == 'upper'), raw=getattr(t0, 'raw', ()), lossy=getattr(t0, 'lossy', ()),
                                    notes=getattr(t0, 'notes', ())))
            if f.attr == 'isoformat' and not e.args and base[0] == 'obj':
                form = {'date': 'date_iso', 'time': 'time_iso', 'datetime': 'datetime_iso_aware'}.get(base[1])
                if form:
                    return ('str', Tmpl(S.lexform(form)))
            if f.attr == 'strftime' and base[0] == 'obj' and len(e.args) == 1:
                fmt = self.model.fold(self.modname, e.args[0])
                if isinstance(fmt, str):
                    return ('str', self.strftime(base[1], fmt))
            if f.attr == 'data_to_string' and base == ('obj', 'XStr'):
                return ('str', Tmpl(S.domain('any_text'), raw=('XStr.data',)))
            if f.attr == 'items' and base[0] == 'obj' and base[1] == 'dict':
                return ('dictitems',)
            if f.attr == 'items' and base[0] == 'meta':
                return ('metaitems', True)
            if f.attr == 'items' and base[0] == 'colmeta':
                return ('metaitems', True)
            if f.attr == 'items' and base[0] == 'cols':
                return ('colitems',)
            if f.attr == 'keys' and base[0] == 'cols':
                return ('colkeys',)
            if f.attr == 'get' and base[0] == 'row' and len(e.args) == 1:
                return ('obj', 'any')
            if f.attr == '__getitem__' and base[0] == 'row':
                return ('obj', 'any')
            raise Unsupported('method %s on %r' % (f.attr, base[0]))
        fn = self.expr(f, env) if isinstance(f, ast.Name) else None
        if fn is not None and fn[0] == 'func':
            args = [self.expr(a, env) for a in e.args]
            if len(fn) > 4:
                args = list(fn[4]) + args
            kws = dict(fn[3])
            kws.update({k: self.expr(v, env) for k, v in kw.items() if k != 'version'})
            return self.invoke(fn[1], fn[2], args, kws, e)
        raise Unsupported('call %s' % fname)

    def strftime(self, kind, fmt):
        table = {'%H': '[0-9]{2}', '%M': '[0-9]{2}', '%S': '[0-9]{2}', '%Y': '[0-9]{1,4}', '%m': '[0-9]{2}', '%d': '[0-9]{2}',
                 '%f': '[0-9]{6}', '%z': '[+-][0-9]{4}'}
        out = ''
        i = 0
        while i < len(fmt):
            if fmt[i] == '%' and fmt[i:i + 2] in table:
                out += table[fmt[i:i + 2]]
                i += 2
            elif fmt[i] == '%':
                raise Unsupported('strftime directive %s' % fmt[i:i + 2])
            else:
                out += re.escape(fmt[i])
                i += 1
        lossy = ()
        if kind in ('time', 'datetime') and '%f' not in fmt:
            lossy = ('strftime without %f',)
        return Tmpl(S.rx_of(out), lossy=lossy)

    def map(self, fn, seqs, node):
        if fn[0] != 'func':
            raise Unsupported('map over %r' % (fn[0],))
        if len(seqs) == 1:
            s = seqs[0]
            if s[0] == 'obj' and s[1] == 'list':
                elem, nonempty = ('obj', 'any'), False
            elif s[0] == 'metaitems':
                elem, nonempty = ('metaitem',), s[1]
            elif s[0] == 'rows' or s == ('grid',) or s == ('obj', 'Grid'):
                elem, nonempty = ('row',), False
            elif s[0] == 'seq':
                elem, nonempty = s[1], s[2]
            else:
                raise Unsupported('map over %r' % (s[0],))
            args = list(fn[4]) + [elem] if len(fn) > 4 else [elem]
            return ('seq', self.invoke(fn[1], fn[2], args, fn[3], node), nonempty)
        if len(seqs) == 1 and seqs[0][0] == 'colzip':
            pass
        raise Unsupported('map with %d sequences' % len(seqs))

    def join(self, sep, seq, node):
        if seq[0] == 'seqcat':
            # concatenation of sequences: [a, b] + rows + ['']
            out = None
            for part in seq[1]:
                if part[0] == 'tuple':
                    for item in part[1]:
                        t = self.to_str(item, 's', node)
                        out = t if out is None else out.cat(sep).cat(t)
                elif part[0] == 'seq':
                    t = self.to_str(part[1], 's', node)
                    if out is None:
                        raise Unsupported('join: leading variable-length sequence')
                    lo = L.rcat(sep.rx, t.rx)
                    rep = Tmpl(L.rcat(lo, L.rstar(lo)) if part[2] else L.rstar(lo), t.raw + sep.raw, t.lossy, t.notes)
                    out = out.cat(rep)
                else:
                    raise Unsupported('join of %r' % (part[0],))
            return out or Tmpl(L.EPS)
        if seq[0] == 'tuple':
            out = None
            for item in seq[1]:
                t = self.to_str(item, 's', node)
                out = t if out is None else out.cat(sep).cat(t)
            return out or Tmpl(L.EPS)
        if seq[0] == 'seq':
            t = self.to_str(seq[1], 's', node)
            body = Tmpl(L.rcat(t.rx, L.rstar(L.rcat(sep.rx, t.rx))), t.raw + sep.raw, t.lossy, t.notes)
            if seq[2]:
                return body
            return Tmpl(L.ropt(body.rx), body.raw, body.lossy, body.notes)
        raise Unsupported('join of %r' % (seq[0],))

    # ------------------------------------------------------------- functions
    def invoke(self, modname, fname, args, kws, node):
        self.calls.append((fname,))
        if self.depth > 12:
            raise Unsupported('call depth exceeded at %s' % fname)
        # generic scalar -> nonterminal
        if fname == 'dump_scalar' and args and args[0] == ('obj', 'any'):
            return ('str', Tmpl(L.rsym(S.SYM_S)))
        if fname == 'dump_grid' and self.mode == 'zinc' and self.grid_as_nt:
            return ('str', Tmpl(L.rsym(S.SYM_G)))
        if fname == '_dump_grid_to_json' and self.grid_as_nt:
            return ('jsonobj', 'grid')
        pl = self.pipeline(fname) if modname == self.modname else None
        if pl is not None and args and args[0][0] in ('str', 'obj'):
            p, classes, notes = pl
            a = args[0]
            if a[0] == 'obj':
                if a[1] in ('str', 'Uri', 'any'):
                    arg_t = Tmpl(S.domain('any_text'))
                elif a[1] == 'Bin':
                    arg_t = Tmpl(S.domain('mime'))
                else:
                    raise Unsupported('%s applied to a %s' % (fname, a[1]))
            else:
                arg_t = a[1]
            # identity on a restricted language?
            ident = ()
            for ivs, t in classes:
                if t == [('ident',)]:
                    ident = L.iv_union(ident, ivs)
            alpha = _alphabet(arg_t.rx)
            if alpha and L.iv_subset(alpha, ident):
                body = arg_t.rx
            else:
                body = T.image_language(classes)
            return ('str', Tmpl(L.rcat(L.rlit(p.prefix), body, L.rlit(p.suffix)), lossy=arg_t.lossy,
                                notes=('escaped by %s' % fname,)))
        fn = self.model.func(modname, fname)
        sub = self if modname == self.modname else Interp(self.model, modname, self.mode)
        sub.version = self.version
        sub.grid_as_nt = self.grid_as_nt
        self.depth += 1
        try:
            res = sub.run_function(fn, args, kws)
        finally:
            self.depth -= 1
        return self.merge(res)

    def merge(self, res):
        if not res:
            raise Unsupported('function returns nothing')
        if all(r[0] == 'str' for r in res):
            return ('str', Tmpl.union([r[1] for r in res]))
        first = res[0]
        if all(r == first for r in res):
            return first
        return ('either',) + tuple(res)

    def run_function(self, fn, args, kws):
        params = [a.arg for a in fn.args.args]
        env = {}
        for p, a in zip(params, args):
            env[p] = a
        for k, v in kws.items():
            if k in params:
                env[k] = v
        if 'version' in params and 'version' not in env:
            env['version'] = ('ver',)
        for p in params:
            if p not in env:
                idx = params.index(p) - (len(params) - len(fn.args.defaults))
                if idx >= 0:
                    d = fn.args.defaults[idx]
                    try:
                        env[p] = self.expr(d, {})
                    except Unsupported:
                        env[p] = ('const', None)
        returns = []
        left = self.block(body_wo_doc(fn), env, returns)
        if left:
            returns.append(('const', None))
        return returns

    def block(self, stmts, env, returns):
        """Execute a statement list; returned values are appended to `returns`.
        Returns the list of environments of the paths that fall off the end."""
        envs = [env]
        for st in stmts:
            nxt = []
            for e in envs:
                nxt.extend(self.stmt(st, e, returns))
            envs = nxt
            if not envs:
                break
        return envs

    def stmt(self, st, env, returns):
        if isinstance(st, ast.Return):
            returns.append(self.expr(st.value, env) if st.value is not None else ('const', None))
            return []
        if isinstance(st, ast.Raise):
            returns.append(('raise', norm(st.exc.func) if isinstance(st.exc, ast.Call) else norm(st.exc)))
            return []
        if isinstance(st, ast.If):
            ref = self.nonfinite_test(st.test, env)
            if ref is not None:
                var, which = ref
                cur = env[var]
                hit = cur[2] & which
                out = []
                if hit:
                    e1 = dict(env)
                    e1[var] = ('num', 'float', hit)
                    out.extend(self.block(st.body, e1, returns))
                e2 = dict(env)
                e2[var] = ('num', cur[1], cur[2] - which)
                out.extend(self.block(st.orelse, e2, returns))
                return out
            # isinstance(<number>, float): the two branches see a float / an int (only floats can be non-finite)
            tt = st.test
            if isinstance(tt, ast.Call) and norm(tt.func) == 'isinstance' and len(tt.args) == 2 and isinstance(tt.args[0], ast.Name) \
                    and tt.args[0].id in env and env[tt.args[0].id][0] == 'num' and env[tt.args[0].id][1] == 'number' \
                    and norm(tt.args[1]) in ('float', 'six.integer_types', 'int'):
                var = tt.args[0].id
                cur = env[var]
                is_float_test = norm(tt.args[1]) == 'float'
                e1, e2 = dict(env), dict(env)
                e1[var] = ('num', 'float', cur[2]) if is_float_test else ('num', 'int', frozenset())
                e2[var] = ('num', 'int', frozenset()) if is_float_test else ('num', 'float', cur[2])
                return self.block(st.body, e1, returns) + self.block(st.orelse, e2, returns)
            t = self.truth(st.test, env)
            if t is None and self.is_version_gate(st):
                t = self.version_gate_truth(st)
            if t is True:
                return self.block(st.body, env, returns)
            if t is False:
                return self.block(st.orelse, env, returns)
            return self.block(st.body, dict(env), returns) + self.block(st.orelse, dict(env), returns)
        if isinstance(st, ast.Assign) and len(st.targets) == 1:
            tg = st.targets[0]
            v = self.expr(st.value, env)
            if isinstance(tg, ast.Name):
                env[tg.id] = v
                return [env]
            if isinstance(tg, ast.Tuple) and v[0] == 'metaitem' and len(tg.elts) == 2:
                env[tg.elts[0].id] = ('str', Tmpl(S.domain('tag_name')))
                env[tg.elts[1].id] = ('obj', 'any')
                return [env]
            if isinstance(tg, ast.Tuple) and v[0] == 'tuple' and len(tg.elts) == len(v[1]):
                for t_, x in zip(tg.elts, v[1]):
                    env[t_.id] = x
                return [env]
            if isinstance(tg, ast.Subscript) and isinstance(tg.value, ast.Name) and tg.value.id in env:
                base = env[tg.value.id]
                key = self.expr(tg.slice, env)
                env[tg.value.id] = ('pydictset', base, key, v)
                return [env]
            raise Unsupported('assignment target %s' % norm(tg))
        if isinstance(st, ast.AugAssign) and isinstance(st.op, ast.Add) and isinstance(st.target, ast.Name):
            cur = env.get(st.target.id)
            v = self.expr(st.value, env)
            if cur is None:
                raise Unsupported('augmented assignment to unknown %s' % st.target.id)
            env[st.target.id] = ('str', self.to_str(cur, 's', st).cat(self.to_str(v, 's', st)))
            return [env]
        if isinstance(st, ast.Expr) and isinstance(st.value, ast.Constant):
            return [env]
        if isinstance(st, ast.Pass):
            return [env]
        if isinstance(st, ast.For):
            raise Unsupported('loop in %s' % norm(st).split('\n')[0])
        raise Unsupported('statement %s' % norm(st).split('\n')[0])

    NF_SPELL = {"float('inf')": 'inf', "float('INF')": 'inf', 'math.inf': 'inf', "float('Inf')": 'inf', "float('+inf')": 'inf',
                "-float('inf')": '-inf', "-float('INF')": '-inf', '-math.inf': '-inf', "float('-inf')": '-inf',
                "float('-INF')": '-inf', "float('nan')": 'nan', "float('NaN')": 'nan', "float('NAN')": 'nan', 'math.nan': 'nan'}

    def nonfinite_table(self, name_node):
        """a module-level dict / set / tuple / list whose keys (members) are all spellings of non-finite floats:
        {'inf': value|None, ...}; None when the name is anything else"""
        try:
            _, d = self.model.const_node(self.modname, name_node.id)
        except Exception:
            return None
        node = d.value if isinstance(d, ast.Assign) else None
        if isinstance(node, ast.Dict):
            keys, vals = node.keys, node.values
        elif isinstance(node, (ast.Set, ast.Tuple, ast.List)):
            keys, vals = node.elts, [None] * len(node.elts)
        else:
            return None
        out = {}
        for k, v in zip(keys, vals):
            sp = self.NF_SPELL.get(norm(k)) if k is not None else None
            if sp is None:
                return None
            out[sp] = v.value if isinstance(v, ast.Constant) else None
        return out

    def nonfinite_test(self, test, env):
        """x != x | x == float('inf') | x == -float('inf') | math.isnan(x) | math.isinf(x) | x in <table of non-finite
        floats> on a number variable -> (variable, set of non-finite values for which the test is true).
        Membership is decided by ==, and nan == nan is false: a NaN the caller supplies is never `in` such a table (it
        is another object than the key)."""
        def numvar(e):
            return isinstance(e, ast.Name) and e.id in env and env[e.id][0] == 'num'
        t = norm(test)
        if isinstance(test, ast.BoolOp) and isinstance(test.op, ast.And):
            # `isinstance(x, float) and <test on x>`: only floats are non-finite, the conjunct changes nothing for them
            rest = [v for v in test.values if self.truth(v, env) is not True
                    and not (isinstance(v, ast.Call) and norm(v.func) == 'isinstance' and len(v.args) == 2 and numvar(v.args[0])
                             and norm(v.args[1]) == 'float')]
            if len(rest) == 1:
                r = self.nonfinite_test(rest[0], env)
                if r is not None and all(not (isinstance(v, ast.Call) and norm(v.func) == 'isinstance') or norm(v.args[0]) == r[0]
                                         for v in test.values):
                    return r
            return None
        if isinstance(test, ast.Compare) and len(test.ops) == 1 and isinstance(test.ops[0], ast.In) and numvar(test.left) \
                and isinstance(test.comparators[0], ast.Name):
            tab = self.nonfinite_table(test.comparators[0])
            if tab is not None:
                return (test.left.id, frozenset(set(tab) - {'nan'}))
        if isinstance(test, ast.Compare) and len(test.ops) == 1 and numvar(test.left):
            v = test.left.id
            r = norm(test.comparators[0])
            if isinstance(test.ops[0], ast.NotEq) and r == v:
                return (v, frozenset({'nan'}))
            if isinstance(test.ops[0], ast.Eq):
                if r in ("float('inf')", "float('INF')", 'math.inf', "float('Inf')"):
                    return (v, frozenset({'inf'}))
                if r in ("-float('inf')", "-float('INF')", '-math.inf', "float('-inf')", "float('-INF')"):
                    return (v, frozenset({'-inf'}))
        if isinstance(test, ast.Call) and len(test.args) == 1 and numvar(test.args[0]):
            f = norm(test.func)
            if f == 'math.isnan':
                return (test.args[0].id, frozenset({'nan'}))
            if f == 'math.isinf':
                return (test.args[0].id, frozenset({'inf', '-inf'}))
        return None

    def is_version_gate(self, st):
        t = st.test
        return isinstance(t, ast.Compare) and len(t.ops) == 1 and norm(t.comparators[0]) in ('VER_3_0',) \
            and 'version' in norm(t.left)

    def version_gate_truth(self, st):
        if self.version is None:
            return None
        t = st.test
        below = self.version in ('2.0',)
        if isinstance(t.ops[0], ast.Lt):
            return below
        if isinstance(t.ops[0], ast.GtE):
            return not below
        return None


def _alphabet(rx):
    k = rx[0]
    if k == 'set':
        return rx[1]
    if k in ('cat', 'alt'):
        out = ()
        for x in rx[1]:
            out = L.iv_union(out, _alphabet(x))
        return out
    if k == 'star':
        return _alphabet(rx[1])
    return ()


# ----------------------------------------------------------------------------------
# ladders (E1)
# ----------------------------------------------------------------------------------

def ladder(fn):
    """if/elif chain -> list of (test node|None, body, if-node)"""
    out = []
    top = [st for st in body_wo_doc(fn) if isinstance(st, ast.If)]
    node = top[0] if top else None
    while isinstance(node, ast.If):
        out.append((node.test, node.body, node))
        if len(node.orelse) == 1 and isinstance(node.orelse[0], ast.If):
            node = node.orelse[0]
        else:
            out.append((None, node.orelse, node))
            node = None
    return out


def branch_of(interp, fn, kind):
    """index of the first ladder branch a value of `kind` satisfies (E1 decision table)."""
    p = fn.args.args[0].arg
    lad = ladder(fn)
    env = {p: ('obj', kind)}
    for i, (test, body, node) in enumerate(lad):
        if test is None:
            return i, lad
        t = interp.truth(test, env)
        if t is None:
            raise Unsupported('ladder test %s undecidable for kind %s' % (norm(test), kind))
        if t:
            return i, lad
    return None, lad


def scalar_template(model, modname, mode, kind, version):
    """Abstract result of dump_scalar(<value of kind>, version=version)."""
    interp = Interp(model, modname, mode)
    interp.version = version
    interp.grid_as_nt = True
    fn = model.func(modname, 'dump_scalar', 'nested')
    p = fn.args.args[0].arg
    idx, lad = branch_of(interp, fn, kind)
    if idx is None:
        return interp, None, None, lad
    test, body, node = lad[idx]
    val = ('obj', kind)
    if kind == 'float':
        val = ('num', 'float', NF_ALL)
    elif kind == 'int':
        val = ('num', 'int', frozenset())
    env = {p: val, 'version': ('ver',)}
    returns = []
    interp.block(body, env, returns)
    return interp, idx, returns, lad
