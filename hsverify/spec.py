"""Oracle tables (/verif/spec/*.json) -> regular languages."""
from __future__ import annotations

import json
import os
import re

from . import lang as L

SPEC = os.path.join(os.path.dirname(os.path.dirname(os.path.abspath(__file__))), 'spec')

SYM_S = L.SYM_BASE + 1      # a nested value
SYM_G = L.SYM_BASE + 2      # a nested grid document
SYM_ID = L.SYM_BASE + 3
NAMES = {SYM_S: '⟨value⟩', SYM_G: '⟨grid⟩', SYM_ID: '⟨id⟩'}
PLACEHOLDERS = {0xE000: SYM_S, 0xE001: SYM_G, 0xE002: SYM_ID}

_cache = {}


def load(name):
    if name not in _cache:
        with open(os.path.join(SPEC, name), encoding='utf-8') as f:
            _cache[name] = json.load(f)
    return _cache[name]


def expand(table, text, depth=0):
    if depth > 12:
        raise L.Unsupported('spec macro recursion in %r' % text)

    def rep(m):
        key = m.group(1)
        if key not in table:
            raise L.Unsupported('spec macro {%s} undefined' % key)
        return '(?:%s)' % expand(table, table[key], depth + 1)
    return re.sub(r'\{([a-zA-Z_][a-zA-Z0-9_]*)\}', rep, text)


def rename(rx, mapping=PLACEHOLDERS):
    k = rx[0]
    if k == 'set':
        ivs = rx[1]
        if len(ivs) == 1 and ivs[0][0] == ivs[0][1] and ivs[0][0] in mapping:
            s = mapping[ivs[0][0]]
            return ('set', ((s, s),))
        return rx
    if k in ('cat', 'alt'):
        return (k, [rename(x, mapping) for x in rx[1]])
    if k == 'star':
        return ('star', rename(rx[1], mapping))
    return rx


_rx_cache = {}


def rx_of(pattern, flags=0):
    key = (pattern, flags)
    if key not in _rx_cache:
        _rx_cache[key] = rename(L.from_pyregex(pattern, flags))
    return _rx_cache[key]


def zinc(section, name):
    t = load('zinc_spec.json')
    tokens = dict(t['tokens'])
    tokens.update({k: v for k, v in t['structure'].items() if isinstance(v, str)})
    entry = t[section][name]
    text = entry['re'] if isinstance(entry, dict) else entry
    return rx_of(expand(tokens, text))


def zinc_kinds(version):
    t = load('zinc_spec.json')
    return [k for k, v in t['kinds'].items() if version in v['versions']]


def domain(name):
    t = load('domains.json')
    return rx_of(t[name]['re'])


def lexform(name):
    t = load('lexforms.json')
    return rx_of(t[name]['re'])


def lexform_exact(name):
    return load('lexforms.json')[name].get('exact', False)


def zone_names(model):
    """The exact Haystack zone-name list, constant-folded from zoneinfo.py, plus UTC."""
    names = model.const('zoneinfo', 'HAYSTACK_TIMEZONES')
    if not isinstance(names, (list, tuple)) or not all(isinstance(x, str) for x in names):
        raise L.Unsupported('HAYSTACK_TIMEZONES does not fold to a list of strings')
    extra = load('domains.json').get('zone_extra', [])
    return sorted(set(names) | set(extra))


def zone_rx(model):
    names = zone_names(model)
    # build a trie-shaped alternation to keep the NFA small
    return _trie_rx(names)


def _trie_rx(words):
    groups = {}
    end = False
    for w in words:
        if w == '':
            end = True
        else:
            groups.setdefault(w[0], []).append(w[1:])
    alts = []
    if end:
        alts.append(L.EPS)
    for ch, rest in sorted(groups.items()):
        alts.append(L.rcat(L.rlit(ch), _trie_rx(rest)))
    return L.ralt(*alts) if alts else L.EPS
