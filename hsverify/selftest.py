"""False-alarm self-test: behaviour-preserving AST rewrites of the analysed tree (in memory, through Model
overrides).  Used by tools/refactor_fuzz.py (all properties) and by the thorough tier of check.py (one property).

  T1 rename every purely local variable of the function
  T2 invert if/else:  if c: A else: B   ->  if not (c): B else: A
  T3 name the returned value:  return e  ->  _rv = e; return _rv
  T4 split conjunctions without else:  if a and b: S  ->  if a: if b: S
  T5 whole module re-emitted by ast.unparse (layout, quotes, comments gone)
  T6 drop else after a body that always leaves;  T7 the inverse (what follows becomes the else)
  T8 first call argument extracted into a local:  f(g(x))  ->  _a0 = g(x); f(_a0)
  T9 two adjacent independent call-free assignments swapped;  T10 `else: pass` added to every if without else
  T11 second half of a function body extracted into a new module-level helper ("extract method")
  T12 the value of the first call-holding assignment / return extracted into a helper function
  T13 second half of a method body extracted into a new private method of the same class
  T14 operands of is / is not exchanged, `x == literal` written literal-first;  T15 if/else pairs of returns (or of assignments to one name) folded into a conditional expression
  T16 a list / dict comprehension that is the whole value of an assignment spelled as a loop;  T17 the inverse
  T18 %-formatting spelled as an f-string;  T19 isinstance(x, (A, B)) split into a disjunction;  T20 conditional expressions spelled as if statements
  T21 keyword arguments of same-module function calls passed positionally
"""
from __future__ import annotations

import ast


def own_nodes(fn):
    """nodes of fn's own scope (not of nested defs / lambdas / comprehensions / classes)"""
    out = []
    stack = list(ast.iter_child_nodes(fn))
    while stack:
        n = stack.pop()
        out.append(n)
        if isinstance(n, (ast.FunctionDef, ast.AsyncFunctionDef, ast.Lambda, ast.ClassDef, ast.ListComp, ast.SetComp,
                          ast.DictComp, ast.GeneratorExp)):
            continue
        stack.extend(ast.iter_child_nodes(n))
    return out


def t1_rename(fn):
    params = {a.arg for a in fn.args.args + fn.args.kwonlyargs + fn.args.posonlyargs}
    if fn.args.vararg:
        params.add(fn.args.vararg.arg)
    if fn.args.kwarg:
        params.add(fn.args.kwarg.arg)
    own = own_nodes(fn)
    declared = set()
    for n in own:
        if isinstance(n, (ast.Global, ast.Nonlocal)):
            declared |= set(n.names)
    stored = {n.id for n in own if isinstance(n, ast.Name) and isinstance(n.ctx, (ast.Store, ast.Del))}
    for n in own:
        if isinstance(n, ast.ExceptHandler) and n.name:
            stored.discard(n.name)
            declared.add(n.name)
        if isinstance(n, (ast.Import, ast.ImportFrom)):
            for a in n.names:
                declared.add((a.asname or a.name).split('.')[0])
    cand = stored - params - declared
    # names also used in nested scopes (closures, comprehensions) stay
    nested_used = set()
    own_ids = {id(n) for n in own}
    for n in ast.walk(fn):
        if isinstance(n, ast.Name) and id(n) not in own_ids:
            nested_used.add(n.id)
    cand -= nested_used
    # strings that mention the name (exec templates, format by name) -> keep
    for n in ast.walk(fn):
        if isinstance(n, ast.Constant) and isinstance(n.value, str):
            cand = {c for c in cand if c not in n.value}
    if not cand:
        return False
    for n in own:
        if isinstance(n, ast.Name) and n.id in cand:
            n.id = n.id + '_v'
    return True


def t2_invert(fn):
    done = False
    for n in own_nodes(fn):
        if isinstance(n, ast.If) and n.orelse and not (len(n.orelse) == 1 and isinstance(n.orelse[0], ast.If)):
            p = getattr(n, '_parent', None)
            if isinstance(p, ast.If) and p.orelse == [n]:
                continue        # this is itself an elif arm
            n.test = ast.UnaryOp(op=ast.Not(), operand=n.test)
            n.body, n.orelse = n.orelse, n.body
            done = True
    return done


def t3_name_return(fn):
    done = False

    def rewrite(body):
        nonlocal done
        i = 0
        while i < len(body):
            st = body[i]
            if isinstance(st, ast.Return) and st.value is not None and not isinstance(st.value, (ast.Name, ast.Constant)):
                body[i:i + 1] = [ast.Assign(targets=[ast.Name(id='_rv', ctx=ast.Store())], value=st.value, lineno=st.lineno),
                                 ast.Return(value=ast.Name(id='_rv', ctx=ast.Load()))]
                done = True
                i += 2
                continue
            for field in ('body', 'orelse', 'finalbody'):
                sub = getattr(st, field, None)
                if isinstance(sub, list) and not isinstance(st, (ast.FunctionDef, ast.ClassDef, ast.AsyncFunctionDef)):
                    rewrite(sub)
            if isinstance(st, ast.Try):
                for h in st.handlers:
                    rewrite(h.body)
            i += 1
    rewrite(fn.body)
    return done


def t4_split_and(fn):
    done = False
    for n in own_nodes(fn):
        if isinstance(n, ast.If) and not n.orelse and isinstance(n.test, ast.BoolOp) and isinstance(n.test.op, ast.And) \
                and len(n.test.values) == 2:
            a, b = n.test.values
            inner = ast.If(test=b, body=n.body, orelse=[])
            n.test = a
            n.body = [inner]
            done = True
    return done


def _terminates(body):
    if not body:
        return False
    last = body[-1]
    if isinstance(last, (ast.Return, ast.Raise, ast.Continue, ast.Break)):
        return True
    if isinstance(last, ast.If) and last.orelse:
        return _terminates(last.body) and _terminates(last.orelse)
    return False


def _blocks(fn):
    out = []
    stack = [fn]
    while stack:
        n = stack.pop()
        for field in ('body', 'orelse', 'finalbody'):
            b = getattr(n, field, None)
            if isinstance(b, list) and b and isinstance(b[0], ast.stmt):
                out.append(b)
                for st in b:
                    if not isinstance(st, (ast.FunctionDef, ast.AsyncFunctionDef, ast.ClassDef)):
                        stack.append(st)
        for h in getattr(n, 'handlers', []) or []:
            out.append(h.body)
            stack.extend(h.body)
    return out


def t6_drop_else(fn):
    """if c: <terminates> else: B   ->   if c: <terminates>; B"""
    done = False
    for b in _blocks(fn):
        i = 0
        while i < len(b):
            st = b[i]
            if isinstance(st, ast.If) and st.orelse and _terminates(st.body):
                tail = st.orelse
                st.orelse = []
                b[i + 1:i + 1] = tail
                done = True
            i += 1
    return done


def t7_add_else(fn):
    """if c: <terminates>; rest   ->   if c: <terminates> else: rest"""
    done = False
    for b in _blocks(fn):
        for i, st in enumerate(b):
            if isinstance(st, ast.If) and not st.orelse and _terminates(st.body) and i + 1 < len(b):
                st.orelse = b[i + 1:]
                del b[i + 1:]
                done = True
                break
    return done


def t8_extract_arg(fn):
    """f(g(x), ...) as a statement's top call   ->   _a0 = g(x); f(_a0, ...)"""
    done = False
    k = 0
    for b in _blocks(fn):
        i = 0
        while i < len(b):
            st = b[i]
            call = None
            if isinstance(st, (ast.Return, ast.Expr)) and isinstance(st.value, ast.Call):
                call = st.value
            elif isinstance(st, ast.Assign) and isinstance(st.value, ast.Call):
                call = st.value
            if call is not None and call.args and isinstance(call.args[0], ast.Call) \
                    and not any(isinstance(x, ast.Call) for x in ast.walk(call.func)) \
                    and not any(isinstance(x, (ast.Lambda, ast.GeneratorExp, ast.ListComp)) for x in ast.walk(call.args[0])) \
                    and not isinstance(call.args[0], ast.Starred):
                name = '_a%d' % k
                k += 1
                tmp = ast.Assign(targets=[ast.Name(id=name, ctx=ast.Store())], value=call.args[0], lineno=st.lineno)
                call.args[0] = ast.Name(id=name, ctx=ast.Load())
                b.insert(i, tmp)
                i += 1
                done = True
            i += 1
    return done


def _names(node, ctx_types):
    return {n.id for n in ast.walk(node) if isinstance(n, ast.Name) and isinstance(n.ctx, ctx_types)}


def _simple_assign(st):
    return isinstance(st, ast.Assign) and len(st.targets) == 1 and isinstance(st.targets[0], ast.Name) \
        and not any(isinstance(x, (ast.Call, ast.Subscript, ast.Attribute, ast.Await, ast.Yield)) for x in ast.walk(st.value))


def t9_swap_assigns(fn):
    """two adjacent assignments of call-free expressions to different plain names, neither using the other's target"""
    done = False
    for b in _blocks(fn):
        i = 0
        while i + 1 < len(b):
            a, c = b[i], b[i + 1]
            if _simple_assign(a) and _simple_assign(c):
                ta, tc = a.targets[0].id, c.targets[0].id
                if ta != tc and ta not in _names(c.value, ast.Load) and tc not in _names(a.value, ast.Load):
                    b[i], b[i + 1] = c, a
                    done = True
                    i += 2
                    continue
            i += 1
    return done


def t10_else_pass(fn):
    """if c: S   ->   if c: S else: pass"""
    done = False
    for n in own_nodes(fn):
        if isinstance(n, ast.If) and not n.orelse:
            n.orelse = [ast.Pass()]
            done = True
    return done


def _module_of(fn):
    top = fn
    p = getattr(fn, '_parent', None)
    while p is not None and not isinstance(p, ast.Module):
        top = p
        p = getattr(p, '_parent', None)
    return p, top


def _extractable(fn):
    """function whose statements may move to a module-level helper: no closure over an enclosing function, no
    global / nonlocal, no yield, no zero-argument super(), no locals()/vars()/exec"""
    p = getattr(fn, '_parent', None)
    while p is not None and not isinstance(p, ast.Module):
        if isinstance(p, (ast.FunctionDef, ast.AsyncFunctionDef, ast.Lambda)):
            return False
        p = getattr(p, '_parent', None)
    for n in ast.walk(fn):
        if isinstance(n, (ast.Global, ast.Nonlocal, ast.Yield, ast.YieldFrom, ast.Await)):
            return False
        if isinstance(n, ast.Name) and n.id in ('super', 'locals', 'vars', 'exec', 'eval', '__class__'):
            return False
    return True


def _local_names(fn):
    params = [a.arg for a in fn.args.posonlyargs + fn.args.args + fn.args.kwonlyargs]
    if fn.args.vararg:
        params.append(fn.args.vararg.arg)
    if fn.args.kwarg:
        params.append(fn.args.kwarg.arg)
    return params


def _bound_in(stmts):
    out = set()
    for st in stmts:
        for n in ast.walk(st):
            if isinstance(n, ast.Name) and isinstance(n.ctx, (ast.Store, ast.Del)):
                out.add(n.id)
            elif isinstance(n, ast.ExceptHandler) and n.name:
                out.add(n.name)
            elif isinstance(n, (ast.Import, ast.ImportFrom)):
                for a in n.names:
                    out.add((a.asname or a.name).split('.')[0])
            elif isinstance(n, (ast.FunctionDef, ast.ClassDef)):
                out.add(n.name)
    return out


def t11_extract_tail(fn):
    """the second half of the function body moves to a new module-level helper:
         def f(p): A; B      ->      def _xt_f(<locals B reads>): B      def f(p): A; return _xt_f(<the same names>)"""
    if not _extractable(fn):
        return False
    body = fn.body
    start = 1 if (body and isinstance(body[0], ast.Expr) and isinstance(body[0].value, ast.Constant)) else 0
    if len(body) - start < 2:
        return False
    cut = start + (len(body) - start) // 2
    head, tail = body[:cut], body[cut:]
    mod, top = _module_of(fn)
    if mod is None:
        return False
    local = set(_local_names(fn)) | _bound_in(head)
    # order of first use keeps the signature deterministic
    used = []
    for st in tail:
        for n in ast.walk(st):
            if isinstance(n, ast.Name) and n.id in local and n.id not in used:
                used.append(n.id)
    name = '_xt_' + fn.name.strip('_')
    helper = ast.FunctionDef(name=name, args=ast.arguments(posonlyargs=[], args=[ast.arg(arg=u) for u in used], vararg=None,
                                                           kwonlyargs=[], kw_defaults=[], kwarg=None, defaults=[]),
                             body=tail, decorator_list=[], returns=None, type_comment=None, lineno=fn.lineno)
    try:
        helper.type_params = []
    except Exception:
        pass
    fn.body = head + [ast.Return(value=ast.Call(func=ast.Name(id=name, ctx=ast.Load()),
                                                args=[ast.Name(id=u, ctx=ast.Load()) for u in used], keywords=[]))]
    mod.body.insert(mod.body.index(top), helper)
    return True


def t12_extract_value(fn):
    """the value of the first assignment / return whose value holds a call moves to a helper function:
         v = e      ->      def _xv_f(<locals e reads>): return e      v = _xv_f(<the same names>)"""
    if not _extractable(fn):
        return False
    mod, top = _module_of(fn)
    if mod is None:
        return False
    local = set(_local_names(fn)) | _bound_in(fn.body)
    for b in _blocks(fn):
        for st in b:
            if isinstance(st, (ast.Assign, ast.Return)) and st.value is not None \
                    and any(isinstance(x, ast.Call) for x in ast.walk(st.value)) \
                    and not any(isinstance(x, (ast.Lambda, ast.GeneratorExp, ast.ListComp, ast.SetComp, ast.DictComp,
                                               ast.NamedExpr, ast.Starred)) for x in ast.walk(st.value)):
                used = []
                for n in ast.walk(st.value):
                    if isinstance(n, ast.Name) and n.id in local and n.id not in used:
                        used.append(n.id)
                name = '_xv_' + fn.name.strip('_')
                helper = ast.FunctionDef(name=name, args=ast.arguments(posonlyargs=[], args=[ast.arg(arg=u) for u in used],
                                                                       vararg=None, kwonlyargs=[], kw_defaults=[], kwarg=None,
                                                                       defaults=[]),
                                         body=[ast.Return(value=st.value)], decorator_list=[], returns=None, type_comment=None,
                                         lineno=fn.lineno)
                try:
                    helper.type_params = []
                except Exception:
                    pass
                st.value = ast.Call(func=ast.Name(id=name, ctx=ast.Load()), args=[ast.Name(id=u, ctx=ast.Load()) for u in used],
                                    keywords=[])
                mod.body.insert(mod.body.index(top), helper)
                return True
    return False


def t13_extract_method(fn):
    """the second half of a METHOD body moves to a new private method of the same class:
         def m(self, p): A; B   ->   def _xm_m(self, <locals B reads>): B      def m(self, p): A; return self._xm_m(<the same>)"""
    cls = getattr(fn, '_parent', None)
    if not isinstance(cls, ast.ClassDef) or not fn.args.args or fn.decorator_list or not _extractable(fn):
        return False
    recv = fn.args.args[0].arg
    body = fn.body
    start = 1 if (body and isinstance(body[0], ast.Expr) and isinstance(body[0].value, ast.Constant)) else 0
    if len(body) - start < 2:
        return False
    cut = start + (len(body) - start) // 2
    head, tail = body[:cut], body[cut:]
    local = (set(_local_names(fn)) | _bound_in(head)) - {recv}
    used = []
    for st in tail:
        for n in ast.walk(st):
            if isinstance(n, ast.Name) and n.id in local and n.id not in used:
                used.append(n.id)
    name = '_xm_' + fn.name.strip('_')
    helper = ast.FunctionDef(name=name, args=ast.arguments(posonlyargs=[], args=[ast.arg(arg=recv)] + [ast.arg(arg=u) for u in used],
                                                           vararg=None, kwonlyargs=[], kw_defaults=[], kwarg=None, defaults=[]),
                             body=tail, decorator_list=[], returns=None, type_comment=None, lineno=fn.lineno)
    try:
        helper.type_params = []
    except Exception:
        pass
    fn.body = head + [ast.Return(value=ast.Call(func=ast.Attribute(value=ast.Name(id=recv, ctx=ast.Load()), attr=name, ctx=ast.Load()),
                                                args=[ast.Name(id=u, ctx=ast.Load()) for u in used], keywords=[]))]
    cls.body.insert(cls.body.index(fn) + 1, helper)
    return True


def _pure_operand(e):
    return not any(isinstance(x, (ast.Call, ast.Await, ast.Yield, ast.YieldFrom, ast.NamedExpr, ast.Lambda)) for x in ast.walk(e))


def t14_swap_compare(fn):
    """`a is b` / `a is not b` with the operands exchanged; `x == <literal>` / `x != <literal>` written literal first"""
    done = False
    for n in own_nodes(fn):
        if isinstance(n, ast.Compare) and len(n.ops) == 1 and _pure_operand(n.left) and _pure_operand(n.comparators[0]):
            op = n.ops[0]
            if isinstance(op, (ast.Is, ast.IsNot)) or (isinstance(op, (ast.Eq, ast.NotEq)) and isinstance(n.comparators[0], ast.Constant)
                                                      and isinstance(n.comparators[0].value, (str, int, float, type(None)))
                                                      and not isinstance(n.left, ast.Constant)):
                n.left, n.comparators[0] = n.comparators[0], n.left
                done = True
    return done


def t15_ternary(fn):
    """if c: return A  else: return B   ->   return A if c else B      (same for a pair of assignments to one name)"""
    done = False
    for b in _blocks(fn):
        for i, st in enumerate(b):
            if isinstance(st, ast.If) and len(st.body) == 1 and len(st.orelse) == 1:
                x, y = st.body[0], st.orelse[0]
                if isinstance(x, ast.Return) and isinstance(y, ast.Return) and x.value is not None and y.value is not None:
                    b[i] = ast.Return(value=ast.IfExp(test=st.test, body=x.value, orelse=y.value), lineno=st.lineno)
                    done = True
                elif isinstance(x, ast.Assign) and isinstance(y, ast.Assign) and len(x.targets) == 1 and len(y.targets) == 1 \
                        and isinstance(x.targets[0], ast.Name) and isinstance(y.targets[0], ast.Name) \
                        and x.targets[0].id == y.targets[0].id:
                    b[i] = ast.Assign(targets=[x.targets[0]], value=ast.IfExp(test=st.test, body=x.value, orelse=y.value), lineno=st.lineno)
                    done = True
    return done


def t16_comp_to_loop(fn):
    """v = [e for x in it if c]  ->  v = []; for x in it: if c: v.append(e)      (dict comprehensions likewise)
    only when the comprehension is the whole value of a one-name assignment, has one generator, and neither the
    target name nor the loop variables are used elsewhere in a way the rewrite would change"""
    done = False
    for b in _blocks(fn):
        i = 0
        while i < len(b):
            st = b[i]
            if isinstance(st, ast.Assign) and len(st.targets) == 1 and isinstance(st.targets[0], ast.Name) \
                    and isinstance(st.value, (ast.ListComp, ast.DictComp)) and len(st.value.generators) == 1 \
                    and not st.value.generators[0].is_async:
                comp = st.value
                g = comp.generators[0]
                tgt = st.targets[0].id
                loopvars = {n.id for n in ast.walk(g.target) if isinstance(n, ast.Name)}
                names_in = {n.id for n in ast.walk(comp) if isinstance(n, ast.Name)}
                # the loop variables leak in the statement form: they must not exist in the function otherwise
                others = {n.id for n in ast.walk(fn) if isinstance(n, ast.Name) and not any(n is x for x in ast.walk(comp))}
                params = set(_local_names(fn))
                if tgt in names_in or loopvars & (others | params) or any(isinstance(x, (ast.Lambda, ast.ListComp, ast.DictComp, ast.GeneratorExp, ast.SetComp))
                                                                           for x in ast.walk(comp) if x is not comp):
                    i += 1
                    continue
                if isinstance(comp, ast.ListComp):
                    init = ast.List(elts=[], ctx=ast.Load())
                    body = ast.Expr(value=ast.Call(func=ast.Attribute(value=ast.Name(id=tgt, ctx=ast.Load()), attr='append', ctx=ast.Load()),
                                                   args=[comp.elt], keywords=[]))
                else:
                    init = ast.Dict(keys=[], values=[])
                    body = ast.Assign(targets=[ast.Subscript(value=ast.Name(id=tgt, ctx=ast.Load()), slice=comp.key, ctx=ast.Store())],
                                      value=comp.value, lineno=st.lineno)
                inner = [body]
                for cond in reversed(g.ifs):
                    inner = [ast.If(test=cond, body=inner, orelse=[])]
                loop = ast.For(target=g.target, iter=g.iter, body=inner, orelse=[], lineno=st.lineno)
                for n in ast.walk(g.target):
                    if isinstance(n, ast.Name):
                        n.ctx = ast.Store()
                b[i:i + 1] = [ast.Assign(targets=[ast.Name(id=tgt, ctx=ast.Store())], value=init, lineno=st.lineno), loop]
                done = True
                i += 2
                continue
            i += 1
    return done


def t17_loop_to_comp(fn):
    """v = {}; for k, x in it: v[k] = e   ->   v = {k: e for k, x in it}      (lists with append likewise)"""
    done = False
    for b in _blocks(fn):
        i = 0
        while i + 1 < len(b):
            a, lp = b[i], b[i + 1]
            if isinstance(a, ast.Assign) and len(a.targets) == 1 and isinstance(a.targets[0], ast.Name) \
                    and isinstance(a.value, (ast.Dict, ast.List)) and not (getattr(a.value, 'keys', None) or getattr(a.value, 'elts', None)) \
                    and isinstance(lp, ast.For) and not lp.orelse and len(lp.body) == 1:
                v = a.targets[0].id
                inner = lp.body[0]
                conds = []
                while isinstance(inner, ast.If) and not inner.orelse and len(inner.body) == 1:
                    conds.append(inner.test)
                    inner = inner.body[0]
                comp = None
                uses_v = lambda e: any(isinstance(x, ast.Name) and x.id == v for x in ast.walk(e))
                loopvars = {n.id for n in ast.walk(lp.target) if isinstance(n, ast.Name)}
                later = any(isinstance(x, ast.Name) and x.id in loopvars for st in b[i + 2:] for x in ast.walk(st))
                if later or uses_v(lp.iter) or any(uses_v(c) for c in conds):
                    i += 1
                    continue
                if isinstance(a.value, ast.Dict) and isinstance(inner, ast.Assign) and len(inner.targets) == 1 \
                        and isinstance(inner.targets[0], ast.Subscript) and isinstance(inner.targets[0].value, ast.Name) \
                        and inner.targets[0].value.id == v and not uses_v(inner.value) and not uses_v(inner.targets[0].slice):
                    comp = ast.DictComp(key=inner.targets[0].slice, value=inner.value,
                                        generators=[ast.comprehension(target=lp.target, iter=lp.iter, ifs=conds, is_async=0)])
                elif isinstance(a.value, ast.List) and isinstance(inner, ast.Expr) and isinstance(inner.value, ast.Call) \
                        and isinstance(inner.value.func, ast.Attribute) and inner.value.func.attr == 'append' \
                        and isinstance(inner.value.func.value, ast.Name) and inner.value.func.value.id == v \
                        and len(inner.value.args) == 1 and not uses_v(inner.value.args[0]):
                    comp = ast.ListComp(elt=inner.value.args[0],
                                        generators=[ast.comprehension(target=lp.target, iter=lp.iter, ifs=conds, is_async=0)])
                if comp is not None:
                    b[i:i + 2] = [ast.Assign(targets=[a.targets[0]], value=comp, lineno=a.lineno)]
                    done = True
            i += 1
    return done


import re as _re

_PCT = _re.compile(r'%(?:(%)|([-0 +#]*)(\d*)(?:\.(\d+))?([sfrxX]))')


def t18_percent_to_fstring(fn):
    """'<fmt>' % args  ->  f-string, when every directive is %s / %r / %f / %x (flags, width, precision kept) and the
    argument count is syntactically known; %s becomes {e!s} (exactly str(e)), %r {e!r}"""
    done = False
    for n in own_nodes(fn):
        if not (isinstance(n, ast.BinOp) and isinstance(n.op, ast.Mod) and isinstance(n.left, ast.Constant)
                and isinstance(n.left.value, str)):
            continue
        fmt = n.left.value
        if _re.search(r'%(?![-0 +#]*\d*(?:\.\d+)?[sfrxX%])', fmt):
            continue
        specs = [m for m in _PCT.finditer(fmt) if not m.group(1)]
        if isinstance(n.right, ast.Tuple):
            args = list(n.right.elts)
        elif isinstance(n.right, (ast.Name, ast.Attribute, ast.Call, ast.Subscript, ast.Constant, ast.BinOp)) and len(specs) == 1:
            # a single non-tuple operand: only safe when it cannot be a tuple at run time; accept calls / names is
            # NOT safe in general, so restrict to calls and constants and attribute reads of self
            if isinstance(n.right, ast.Name):
                continue
            args = [n.right]
        else:
            continue
        if len(args) != len(specs) or any(isinstance(a, ast.Starred) for a in args):
            continue
        values = []
        pos = 0
        k = 0
        for m in _PCT.finditer(fmt):
            lit = fmt[pos:m.start()]
            if m.group(1):
                lit += '%'
                if lit:
                    values.append(ast.Constant(value=lit))
                pos = m.end()
                continue
            if lit:
                values.append(ast.Constant(value=lit))
            flags, width, prec, conv = m.group(2), m.group(3), m.group(4), m.group(5)
            if conv in 'sr':
                if flags or width or prec:
                    values = None
                    break
                values.append(ast.FormattedValue(value=args[k], conversion=ord(conv), format_spec=None))
            else:
                if '-' in flags or ' ' in flags and '+' in flags:
                    values = None
                    break
                spec = ''
                if '-' in flags:
                    spec += '<'
                for f in '+ #0':
                    if f in flags:
                        spec += f
                spec += width + (('.' + prec) if prec is not None else '') + conv
                values.append(ast.FormattedValue(value=args[k], conversion=-1,
                                                 format_spec=ast.JoinedStr(values=[ast.Constant(value=spec)])))
            k += 1
            pos = m.end()
        if values is None:
            continue
        if fmt[pos:]:
            values.append(ast.Constant(value=fmt[pos:]))
        # merge adjacent constants
        merged = []
        for v in values:
            if merged and isinstance(v, ast.Constant) and isinstance(merged[-1], ast.Constant):
                merged[-1] = ast.Constant(value=merged[-1].value + v.value)
            else:
                merged.append(v)
        js = ast.JoinedStr(values=merged)
        n.__class__ = ast.JoinedStr
        n.__dict__.clear()
        n.values = merged
        n.lineno = getattr(fn, 'lineno', 1)
        n.col_offset = 0
        done = True
    return done


def t19_split_isinstance(fn):
    """isinstance(x, (A, B, C))  ->  isinstance(x, A) or isinstance(x, B) or isinstance(x, C)   (x a plain name/attribute)"""
    done = False
    for n in own_nodes(fn):
        if isinstance(n, ast.Call) and isinstance(n.func, ast.Name) and n.func.id == 'isinstance' and len(n.args) == 2 \
                and not n.keywords and isinstance(n.args[1], ast.Tuple) and len(n.args[1].elts) >= 2 \
                and _pure_operand(n.args[0]):
            subj, kinds = n.args[0], list(n.args[1].elts)
            import copy as _copy
            calls = [ast.Call(func=ast.Name(id='isinstance', ctx=ast.Load()), args=[_copy.deepcopy(subj), k], keywords=[])
                     for k in kinds]
            n.__class__ = ast.BoolOp
            n.__dict__.clear()
            n.op = ast.Or()
            n.values = calls
            n.lineno = getattr(fn, 'lineno', 1)
            n.col_offset = 0
            done = True
    return done


def t20_ternary_to_if(fn):
    """return A if c else B  ->  if c: return A / return B;   v = A if c else B  ->  if c: v = A / else: v = B"""
    done = False
    for b in _blocks(fn):
        i = 0
        while i < len(b):
            st = b[i]
            if isinstance(st, ast.Return) and isinstance(st.value, ast.IfExp):
                e = st.value
                b[i:i + 1] = [ast.If(test=e.test, body=[ast.Return(value=e.body)], orelse=[]), ast.Return(value=e.orelse)]
                done = True
                i += 2
                continue
            if isinstance(st, ast.Assign) and len(st.targets) == 1 and isinstance(st.targets[0], ast.Name) \
                    and isinstance(st.value, ast.IfExp):
                e = st.value
                import copy as _copy
                b[i] = ast.If(test=e.test, body=[ast.Assign(targets=[_copy.deepcopy(st.targets[0])], value=e.body)],
                              orelse=[ast.Assign(targets=[_copy.deepcopy(st.targets[0])], value=e.orelse)])
                done = True
            i += 1
    return done


def t21_keyword_to_positional(fn):
    """f(a, name=v)  ->  f(a, v)  for calls of plain functions defined at the top of the same module, when the
    keyword arguments given are exactly the next parameters of f in order (no *args/**kwargs at the call)"""
    mod, _top = _module_of(fn)
    if mod is None:
        return False
    sigs = {}
    for st in mod.body:
        if isinstance(st, ast.FunctionDef) and not st.args.vararg and not st.args.kwonlyargs and not st.args.posonlyargs:
            sigs[st.name] = [a.arg for a in st.args.args]
    done = False
    for n in own_nodes(fn):
        if isinstance(n, ast.Call) and isinstance(n.func, ast.Name) and n.func.id in sigs and n.keywords \
                and not any(isinstance(a, ast.Starred) for a in n.args) and all(k.arg for k in n.keywords):
            params = sigs[n.func.id]
            k0 = len(n.args)
            names = [k.arg for k in n.keywords]
            if params[k0:k0 + len(names)] == names:
                n.args = list(n.args) + [k.value for k in n.keywords]
                n.keywords = []
                done = True
    return done


KINDS = {'T17': t17_loop_to_comp, 'T16': t16_comp_to_loop, 'T14': t14_swap_compare, 'T15': t15_ternary, 'T13': t13_extract_method, 'T11': t11_extract_tail, 'T12': t12_extract_value, 'T9': t9_swap_assigns, 'T10': t10_else_pass, 'T1': t1_rename, 'T2': t2_invert, 'T3': t3_name_return, 'T4': t4_split_and, 'T6': t6_drop_else, 'T7': t7_add_else,
         'T8': t8_extract_arg, 'T18': t18_percent_to_fstring, 'T19': t19_split_isinstance, 'T20': t20_ternary_to_if,
         'T21': t21_keyword_to_positional}


def variants(modname, text, kinds):
    tree = ast.parse(text)
    fns = []
    for n in ast.walk(tree):
        if isinstance(n, ast.FunctionDef):
            fns.append(n)
    # qualified names
    for parent in ast.walk(tree):
        for ch in ast.iter_child_nodes(parent):
            ch._parent = parent
    out = []
    for idx in range(len(fns)):
        for k in kinds:
            if k not in KINDS:
                continue
            t = ast.parse(text)
            for parent in ast.walk(t):
                for ch in ast.iter_child_nodes(parent):
                    ch._parent = parent
            f = [n for n in ast.walk(t) if isinstance(n, ast.FunctionDef)][idx]
            q = f.name
            p = getattr(f, '_parent', None)
            while p is not None and not isinstance(p, ast.Module):
                if isinstance(p, (ast.ClassDef, ast.FunctionDef)):
                    q = p.name + '.' + q
                p = getattr(p, '_parent', None)
            if KINDS[k](f):
                ast.fix_missing_locations(t)
                try:
                    src = ast.unparse(t)
                    compile(src, modname, 'exec')
                except Exception:
                    continue
                out.append(('%s:%s:%s' % (modname, q, k), src))
    if 'T5' in kinds:
        out.append(('%s:*:T5' % modname, ast.unparse(tree)))
    return out


