"""Findings, known-findings protocol, evidence and replay files."""
from __future__ import annotations

import json
import os
import sys
import time

VERIF = os.path.dirname(os.path.dirname(os.path.abspath(__file__)))
EVID = os.environ.get('VERIF_EVIDENCE_DIR') or os.path.join(VERIF, 'evidence')   # override: scratch runs of the self-tests
REPLAY = os.path.join(EVID, 'replay')
KNOWN = os.path.join(VERIF, 'known_findings.json')


class Finding(object):
    def __init__(self, prop, rule, construct, stmt, witness, what, file=None, line=None,
                 path=None, engine=None):
        self.prop = prop
        self.rule = rule
        self.construct = construct      # e.g. hszinc/grid.py::Grid.__delitem__
        self.stmt = stmt                # normalised statement text (key part)
        self.witness = witness
        self.what = what
        self.file = file
        self.line = line
        self.path = path or []
        self.engine = engine

    def key(self):
        return (self.rule, self.construct, self.stmt)

    def as_dict(self):
        return {'property': self.prop, 'rule': self.rule, 'engine': self.engine,
                'construct': self.construct, 'file': self.file, 'line': self.line,
                'stmt': self.stmt, 'witness': self.witness, 'path': self.path,
                'explanation': self.what}


class Ctx(object):
    """Collects what one check run analysed and concluded."""

    def __init__(self, prop, tier, model, seed=0):
        self.prop = prop
        self.tier = tier
        self.model = model
        self.seed = seed
        self.obligations = []      # dicts: rule, desc, ok, where
        self.findings = []
        self.errors = []           # analysis errors
        self.notes = []
        self.analysed = {}         # free-form counts: functions, regexes, grammar nodes...
        self.assumptions = []
        self.floors = []           # (name, count, floor)
        self.controls = []         # (rule, control, fired)

    # obligations -----------------------------------------------------------
    def ob(self, rule, desc, ok=True, where=None):
        self.obligations.append({'rule': rule, 'obligation': desc, 'discharged': bool(ok),
                                 'where': where})
        return ok

    def violation(self, rule, construct, stmt, witness, what, file=None, line=None, path=None,
                  engine=None, count_ob=True):
        f = Finding(self.prop, rule, construct, stmt, witness, what, file, line, path, engine)
        for g in self.findings:
            if g.key() == f.key():
                return g
        self.findings.append(f)
        if count_ob:
            self.ob(rule, what, ok=False, where='%s:%s' % (file, line))
        return f

    def error(self, rule, msg):
        self.errors.append({'rule': rule, 'error': msg})

    def note(self, msg):
        self.notes.append(msg)

    def count(self, what, n=1):
        self.analysed[what] = self.analysed.get(what, 0) + n

    def floor(self, name, count, floor):
        self.floors.append({'instance': name, 'count': count, 'floor': floor})
        if count < floor:
            self.error('floor', 'rule instance count for %s fell to %d (hand-confirmed floor %d): '
                                'the extractor no longer sees what it was confirmed on' % (name, count, floor))

    def assume(self, text):
        if text not in self.assumptions:
            self.assumptions.append(text)


def load_known():
    if not os.path.exists(KNOWN):
        return []
    with open(KNOWN, encoding='utf-8') as f:
        data = json.load(f)
    return data.get('findings', [])


def match_known(finding, known):
    for k in known:
        if k.get('status') != 'known':
            continue
        props = k.get('properties') or [k.get('property')]
        if finding.prop not in props:
            continue
        if k.get('rule') == finding.rule and k.get('construct') == finding.construct \
                and k.get('stmt') == finding.stmt:
            return k
    return None


def finish(ctx, t0, level, explanation, rule_text, trusted_base, checker_cmd):
    """Write evidence + replay files, print the protocol lines, return the exit code."""
    os.makedirs(REPLAY, exist_ok=True)
    known = load_known()
    # stale replay files of this property
    for fn in os.listdir(REPLAY):
        if fn.startswith(ctx.prop + '-'):
            os.unlink(os.path.join(REPLAY, fn))
    new, listed = [], []
    for f in ctx.findings:
        k = match_known(f, known)
        (listed if k else new).append((f, k))
    lines = []
    n = 0
    for f, _ in new:
        n += 1
        path = os.path.join(REPLAY, '%s-%s-%d.json' % (ctx.prop, f.rule.replace('/', '_'), n))
        with open(path, 'w', encoding='utf-8') as fh:
            json.dump(f.as_dict(), fh, indent=1, ensure_ascii=False, default=str)
        lines.append('VIOLATION property=%s replay=%s' % (ctx.prop, path))
        lines.append('  rule=%s construct=%s (%s:%s)' % (f.rule, f.construct, f.file, f.line))
        lines.append('  stmt: %s' % (f.stmt or '').split('\n')[0][:160])
        lines.append('  witness: %s' % (f.witness,))
        lines.append('  %s' % f.what)
    for f, k in listed:
        lines.append('KNOWN-FINDING: property=%s %s [%s]: %s -- witness: %s'
                     % (ctx.prop, f.construct, f.rule, f.what, f.witness))
    # stale known entries
    produced = {f.key() for f in ctx.findings}
    for k in known:
        props = k.get('properties') or [k.get('property')]
        if k.get('status') == 'known' and ctx.prop in props:
            if (k.get('rule'), k.get('construct'), k.get('stmt')) not in produced:
                lines.append('STALE-KNOWN: property=%s %s [%s] is listed in known_findings.json but was '
                             'not produced by this run' % (ctx.prop, k.get('construct'), k.get('rule')))
    for e in ctx.errors:
        lines.append('ANALYSIS-ERROR property=%s rule=%s %s' % (ctx.prop, e['rule'], e['error']))
    total = len(ctx.obligations)
    done = sum(1 for o in ctx.obligations if o['discharged'])
    # samples: rotate by seed
    samples = []
    if ctx.obligations:
        step = max(1, len(ctx.obligations) // 12)
        off = ctx.seed % step if step else 0
        samples = ctx.obligations[off::step][:14]
    distinct = len({(o['rule'], o['obligation']) for o in ctx.obligations})
    rules = sorted({o['rule'] for o in ctx.obligations})
    wall = time.time() - t0
    ev = {
        'property_id': ctx.prop,
        'tier': ctx.tier,
        'seed': ctx.seed,
        'level': level,
        'coverage': {
            'obligations': total,
            'discharged': done,
            'evaluations': max(total, 1),
            'distinct_nontrivial': distinct,
            'rule': rule_text,
            'explanation': explanation,
            'checker_cmd': checker_cmd,
            'trusted_base': trusted_base,
            'samples': samples or [{'note': 'no obligation was generated'}],
            'rules_applied': rules,
            'analysed': ctx.analysed,
            'instance_floors': ctx.floors,
            'sensitivity_controls': ctx.controls,
            'findings_new': [f.as_dict() for f, _ in new],
            'findings_known': [f.as_dict() for f, _ in listed],
            'analysis_errors': ctx.errors,
            'notes': ctx.notes,
            'exhaustive': False,
        },
        'assumptions': ctx.assumptions,
        'wall_s': round(wall, 3),
        'violations': len(new),
    }
    os.makedirs(EVID, exist_ok=True)
    with open(os.path.join(EVID, '%s.json' % ctx.prop), 'w', encoding='utf-8') as fh:
        json.dump(ev, fh, indent=1, ensure_ascii=False, default=str)
    try:
        print('%s tier=%s obligations=%d discharged=%d new=%d known=%d errors=%d wall=%.2fs'
              % (ctx.prop, ctx.tier, total, done, len(new), len(listed), len(ctx.errors), wall))
        for k, v in sorted(ctx.analysed.items()):
            print('  analysed %s: %s' % (k, v))
        for ln in lines:
            print(ln)
        sys.stdout.flush()
    except BrokenPipeError:
        try:
            sys.stdout = open(os.devnull, 'w')
        except Exception:
            pass
    if new:
        return 1
    if ctx.errors:
        return 2
    return 0
