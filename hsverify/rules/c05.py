"""C05 -- the JSON reader decodes every well-formed Haystack-JSON grid correctly."""
from __future__ import annotations

import ast
import re

from .. import lang as L
from .. import spec as S
from ..lang import Unsupported
from ..model import AnalysisError, body_wo_doc, norm, walk_no_nested
from . import _json as J

META = {
    'level': 'other',
    'explanation': (
        'Static analysis of jsonparser.py / parser.py.  (D1) feature inclusion: for every legal spelling of '
        'spec/json_spec.json (numbers with/without unit, exponents, n:INF/-INF/NaN, both Remove spellings, times '
        'with/without seconds/fraction, date-times with/without zone, strings with/without s:, refs with/without '
        'display, URIs, bins, coordinates, extended strings) the only entry of the extracted decode cascade that can '
        'be first to accept a string of that spelling is an entry that builds the right kind, and its regex matches '
        'the spelling over its whole length; raw JSON numbers/booleans/null/arrays/objects are recognised by isinstance '
        'tests that precede every string operation; lists/dicts/nested grids are version-gated; a nested grid is '
        'detected by its key set.  (D2) tolerant structure: rows is read with a default and `or []`, rows are iterated '
        'over their own keys, columns by cols[].name.  (D3) the caller\'s pre-decoded object is never modified: every '
        'destructive call in jsonparser (pop, del, stores) acts on an object that is fresh (json.loads/copy.deepcopy) '
        'or derived from a fresh one, and parser.parse hands the caller\'s object only to functions with that '
        'property.  (D4) date-times with a zone name are converted with astimezone (shared with C17.D2); (D1) also: the text captured for Uri/Bin/Ref/str/XStr/unit reaches the constructor verbatim (no substitution, strip or case change between capture and constructor).  Also: the h: time fields are converted with int() on digit text (no float leg; fraction cut/padded as text, never scaled by its unsliced length).  Not decided: microsecond arithmetic results, tz application (C17), JSON text parsing.'
        ' Also (D4): the handler around the zone look-up catches what zoneinfo.timezone raises.'
        ' Also (D2): parse entries compare the mode only after _parse_mode.'
        ' Also (D2): the document text reaches json.loads unchanged (text flow).  (D4) astimezone() sits in a handler that catches OverflowError.  (D1) greedy group splits.'
        ' Round 9: (D4) the zone tables are published complete (a table filled in place is read half-built by a second reader thread, whose handler then keeps the fixed offset).'),
    'rule_text': 'obligations = spellings x (first-accepting entry, whole-length match), type-order facts, structure '
                 'facts, destructive call sites x freshness',
    'trusted_base': ['json.loads and copy.deepcopy return objects that share nothing mutable with their argument'],
}

FJ = J.FJ
MUTATORS = {'pop', 'popitem', 'clear', 'update', 'setdefault', 'append', 'extend', 'insert', 'remove', 'sort', 'reverse',
            '__setitem__', '__delitem__'}


def run(ctx):
    try:
        fn, p, entries = J.extract_cascade(ctx.model)
    except (Unsupported, AnalysisError) as e:
        ctx.error('C05.D1', 'decode cascade: %s' % e)
        return
    ctx.count('decode cascade entries', len(entries))
    ctx.floor('decode cascade entries', len(entries), 16)
    _spellings(ctx, entries)
    _python_values(ctx, entries)
    J.verbatim_payload(ctx, 'C05.D1', entries, fn)
    J.greedy_group_splits(ctx, 'C05.D1', entries)
    J.time_fields_exact(ctx, 'C05.D1', entries, fn)
    J.number_branch(ctx, 'C05.D1', entries, fn)
    J.parse_scalar_entry(ctx, 'C05.D2')
    from . import _dump
    _dump.mode_sanitised(ctx, 'C05.D2', 'parser')
    # the document text reaches json.loads as it was given (no rewriting on the way; shared with C01.D5 / C03.D3 / C08.D1)
    from . import _parse
    _parse.text_flow(ctx, 'C05.D2')
    _structure(ctx)
    _freshness(ctx)
    # date-times with a zone name denote the written instant (clause shared with C17.D2)
    from . import c17
    c17._api(ctx, ctx.model, rule='C05.D4', only=('jsonparser',))
    c17.zone_applied(ctx, ctx.model, 'C05.D4', 'jsonparser', 'parse_embedded_scalar', 'json', catches=True)
    c17.map_publication(ctx, ctx.model, 'C05.D4')


def _spellings(ctx, entries):
    t = S.load('json_spec.json')
    n = 0
    for name, ent in t['kinds'].items():
        want = ent['builds']
        rx = S.rx_of(S.expand(t['tokens'], ent['re']))
        n += 1
        try:
            hits = J.first_hits(entries, rx, max_hits=len(entries))
        except Unsupported as e:
            ctx.error('C05.D1', 'spelling %s: %s' % (name, e))
            continue
        bad = False
        for e, w in hits:
            builds = set(e.builds)
            ok = want in builds or (want == 'str' and builds == {'itself'} and e.pred == 'default') \
                or (want == 'str' and 'str' in builds)
            if ok:
                continue
            bad = True
            text = J.show(w)
            ctx.violation('C05.D1', '%s::parse_embedded_scalar' % FJ, 'spelling %s vs %s' % (name, e.label()),
                          'the well-formed JSON value %r (a %s, spelling "%s") is %s' % (
                              text, want, name, 'returned unchanged as a plain string' if e.pred == 'default'
                              else 'decoded by %s as %s' % (e.label(), sorted(builds))),
                          'for the legal spelling "%s" the first cascade entry that accepts some of its strings is %s, '
                          'which does not build a %s' % (name, e.label(), want), file=FJ, line=e.node.lineno, engine='E3')
        if not bad:
            ctx.ob('C05.D1', 'spelling "%s" (%s) is always decoded by an entry that builds %s: %s' % (
                name, ent['re'][:40], want, ', '.join(e.label() for e, _ in hits)), True, FJ)
        # whole-length match for regex entries
        for e, w in hits:
            if e.pred == 'regex' and want in e.builds:
                try:
                    w2 = L.find_not_included(_restrict(rx, e, entries), e.regex[2].full(), max_witnesses=1)
                except Unsupported as ex:
                    ctx.error('C05.D1', '%s: %s' % (e.regex[0], ex))
                    continue
                if w2:
                    ctx.violation('C05.D1', '%s::%s' % (FJ, e.regex[0]), e.regex[1].pattern,
                                  'the well-formed value %r is matched by %s only in part: the rest of the payload is '
                                  'dropped' % (J.show(w2[0]), e.regex[0]),
                                  '%s accepts the spelling "%s" without matching it over its whole length (MULTILINE `$` / '
                                  '`.` without DOTALL)' % (e.regex[0], name), file=FJ, line=e.node.lineno, engine='E3')
                else:
                    ctx.ob('C05.D1', '%s matches spelling "%s" over its whole length' % (e.regex[0], name), True, FJ)
    ctx.count('legal spellings checked', n)
    ctx.floor('legal spellings checked', n, 18)


def _restrict(rx, e, entries):
    return rx


def _python_values(ctx, entries):
    first_str_op = min([e.order for e in entries if e.pred in ('regex', 'prefix')] or [999])
    need = {'None': ('none', None), 'bool': ('pytype', 'bool'), 'float': ('pytype', 'float'),
            'int': ('pytype', 'six.integer_types'), 'list': ('pytype', 'list'), 'dict': ('pytype', 'dict')}
    for what, (pred, tname) in need.items():
        hit = [e for e in entries if e.pred == pred and (tname is None or tname in e.pytypes or (
            tname == 'six.integer_types' and 'int' in e.pytypes))]
        if not hit:
            ctx.violation('C05.D1', '%s::parse_embedded_scalar' % FJ, 'branch for JSON %s' % what,
                          'a raw JSON %s cell reaches the string operations and raises TypeError/AttributeError' % what,
                          'no isinstance branch for a pre-decoded %s' % what, file=FJ, engine='E1')
            continue
        e = hit[0]
        if e.order < first_str_op:
            ctx.ob('C05.D1', 'a raw JSON %s is recognised before any string operation' % what, True,
                   '%s:%d' % (FJ, e.node.lineno))
        else:
            ctx.violation('C05.D1', '%s::parse_embedded_scalar' % FJ, norm(e.node.test),
                          'a raw JSON %s cell reaches RE.match()/startswith() first and raises TypeError/AttributeError' % what,
                          'the %s test comes after the first string operation' % what, file=FJ, line=e.node.lineno,
                          engine='E6')
        if what in ('bool', 'float', 'int') and 'itself' not in e.builds:
            ctx.violation('C05.D1', '%s::parse_embedded_scalar' % FJ, norm(e.node.test),
                          'a raw JSON %s is not returned as is' % what, 'branch builds %s' % sorted(e.builds), file=FJ,
                          line=e.node.lineno, engine='E1')
    # bool before int (bool is an int)
    b = [e for e in entries if e.pred == 'pytype' and 'bool' in e.pytypes]
    i = [e for e in entries if e.pred == 'pytype' and ('six.integer_types' in e.pytypes or 'int' in e.pytypes)]
    if b and i:
        ctx.ob('C05.D1', 'bool is tested %s the integer test' % ('before' if b[0].order < i[0].order else 'after'), True)
    # lists and dicts are gated; nested grid by key set
    for e in entries:
        if e.pred == 'pytype' and ({'list', 'dict'} & e.pytypes):
            if e.gated:
                ctx.ob('C05.D1', '%s is accepted from 3.0 on' % e.label(), True, '%s:%d' % (FJ, e.node.lineno))
            else:
                ctx.violation('C05.D1', '%s::parse_embedded_scalar' % FJ, norm(e.node.test),
                              'a list/dict under a 2.0 header is accepted', '%s is not version-gated' % e.label(),
                              file=FJ, line=e.node.lineno, engine='E1')
        if e.pred == 'pytype' and 'dict' in e.pytypes:
            t = '\n'.join(norm(x) for x in e.node.body)
            if "{'meta', 'cols', 'rows'} <= %s.keys()" % 'scalar' in t and re.search(r'\b_?parse_grid\(scalar\)', t):
                ctx.ob('C05.D1', 'an object with meta, cols and rows is decoded as a nested grid', True,
                       '%s:%d' % (FJ, e.node.lineno))
            else:
                ctx.violation('C05.D1', '%s::parse_embedded_scalar' % FJ, 'nested grid detection',
                              'a nested grid object is decoded as a plain dict (or a dict as a grid)',
                              'nested-grid detection by key set {meta, cols, rows} not found', file=FJ,
                              line=e.node.lineno, engine='E9')
            if 'parse_scalar(v, version=version)' in t:
                ctx.ob('C05.D1', 'dict values are decoded recursively', True, '%s:%d' % (FJ, e.node.lineno))
        if e.pred == 'pytype' and 'list' in e.pytypes:
            t = '\n'.join(norm(x) for x in e.node.body)
            if 'functools.partial(parse_scalar, version=version)' in t:
                ctx.ob('C05.D1', 'list elements are decoded recursively, in order', True, '%s:%d' % (FJ, e.node.lineno))
            else:
                ctx.violation('C05.D1', '%s::parse_embedded_scalar' % FJ, t[:200], 'list elements are not decoded',
                              'list branch does not map parse_scalar over the elements', file=FJ, line=e.node.lineno,
                              engine='E9')


def _structure(ctx):
    m = ctx.model
    try:
        pg = m.func('jsonparser', 'parse_grid')
    except AnalysisError as e:
        ctx.error('C05.D2', str(e))
        return
    from .. import match
    fns = [f_ for f_ in match.with_local_callees(m, 'jsonparser', pg) if f_.name not in ('parse_embedded_scalar', 'parse_scalar')]
    sc = match.Script(ctx, 'C05.D2', fns, FJ, '%s::parse_grid' % FJ)
    sc.need(["for _R_row in _R_parsed.pop('rows', []) or []:\n    pass"], 'missing or null `rows` is an empty grid',
            'a grid object without "rows" (or with "rows": null) raises KeyError/TypeError',
            bad=["for _R_row in _R_parsed.pop('rows'):\n    pass", "for _R_row in _R_parsed['rows']:\n    pass",
                 "for _R_row in _R_parsed.pop('rows', []):\n    pass", "for _R_row in _R_parsed.get('rows'):\n    pass",
                 "for _R_row in _R_parsed.get('rows', []):\n    pass"])
    sc.need(['for (_R_rcol, _R_rvalue) in _R_row.items():\n    pass',
             '_R_prow = {_R_rcol: parse_embedded_scalar(_R_rvalue, version=_R_version) for (_R_rcol, _R_rvalue) in _R_row.items()}',
             '_R_grid.append({_R_rcol: parse_embedded_scalar(_R_rvalue, version=_R_version) for (_R_rcol, _R_rvalue) in _R_row.items()})'],
            'rows are iterated over their own keys (omitted columns are fine)', 'a row that omits a column raises KeyError')
    sc.need(["_R_cname = _R_col.pop('name')", "_R_cname = _R_col['name']"], 'columns are identified by cols[].name',
            'columns are not named by their `name` key')
    # parser.parse: dict -> [dict]; str -> json.loads; single/None/list
    try:
        pp = m.func('parser', 'parse')
    except AnalysisError as e:
        ctx.error('C05.D2', str(e))
        return
    FPp = 'hszinc/parser.py'
    sp = match.Script(ctx, 'C05.D2', [pp], FPp, '%s::parse' % FPp)
    sp.need(['_R_text = _R_text.decode(encoding=_R_charset)', '_R_text = _R_text.decode(_R_charset)'],
            'bytes input is decoded with the given charset', 'parse(b"...", mode=MODE_JSON, charset=...) fails or mis-decodes')
    sp.need(['_R_data = json.loads(_R_text)'], 'text input is decoded with json.loads', 'a JSON text is not decoded')
    sp.need(['_R_data = [_R_data]'], 'a single grid object is normalised to a one-element list',
            'a single grid object is iterated key by key')
    from . import _parse
    try:
        r = _parse.result_shaping(m)
        if r['multi'] == {'ALL'} and r['single_nonempty'] <= {'FIRST', 'FIRST1'} and r['single_nonempty']:
            ctx.ob('C05.D2', 'every grid of the document is parsed, in order (single=False), the first one for single=True',
                   True, '%s:%d' % (FPp, pp.lineno))
        else:
            ctx.violation('C05.D2', '%s::parse' % FPp, 'result shaping %s' % {k: sorted(r[k]) for k in ('single_nonempty', 'multi')},
                          'parse(\'[{grid1}, {grid2}]\', mode=MODE_JSON, single=False) does not return both grids in order',
                          'only some grids of an array are parsed / returned', file=FPp, line=pp.lineno, engine='E6')
    except (AnalysisError, Unsupported) as e:
        ctx.error('C05.D2', 'result shaping: %s' % e)
    t = norm(pp)
    if 'if isinstance(grid_data, dict):' in t or any(isinstance(n, ast.If) and 'dict' in norm(n.test) and 'isinstance' in norm(n.test)
                                                     for n in walk_no_nested(pp)):
        ctx.ob('C05.D2', 'the one-element normalisation is applied to dict input only', True, '%s:%d' % (FPp, pp.lineno))


def _freshness(ctx, rule='C05.D3'):
    """C05.D3: destructive operations only on fresh (json.loads / deepcopy) objects or what is derived from them."""
    m = ctx.model
    mod = m.mod('jsonparser')
    n_sites = 0
    all_fns = [n for n in ast.walk(mod.tree) if isinstance(n, ast.FunctionDef)]
    PUBLIC = {'parse_grid', 'parse_scalar', 'parse_embedded_scalar'}
    fresh_memo = {}

    def param_fresh(callee, pname):
        """a parameter of a module-private helper is private data iff every call site passes private data"""
        key = (callee.name, pname)
        if key in fresh_memo:
            return fresh_memo[key]
        fresh_memo[key] = False
        if callee.name in PUBLIC or not callee.name.startswith('_'):
            return False
        idx = [a.arg for a in callee.args.args].index(pname)
        sites = []
        for caller in all_fns:
            for n in walk_no_nested(caller):
                if isinstance(n, ast.Call) and isinstance(n.func, ast.Name) and n.func.id == callee.name:
                    sites.append((caller, n))
        if not sites:
            return False
        ok = True
        for caller, call in sites:
            arg = call.args[idx] if len(call.args) > idx else None
            if arg is None:
                ok = False
                break
            if not _deep_in(caller, arg):
                ok = False
                bad_sites.append((callee.name, caller.name, call))
                break
        fresh_memo[key] = ok
        return ok

    bad_sites = []

    def _deep_in(caller, expr):
        # freshness of an expression in the context of another function: only direct forms
        if isinstance(expr, ast.Call) and norm(expr.func) in ('json.loads', 'copy.deepcopy'):
            return True
        if isinstance(expr, ast.Name):
            cparams = {a.arg for a in caller.args.args}
            if expr.id in cparams:
                return False
            defs = [n.value for n in walk_no_nested(caller) if isinstance(n, ast.Assign) and len(n.targets) == 1
                    and isinstance(n.targets[0], ast.Name) and n.targets[0].id == expr.id]
            return bool(defs) and all(isinstance(d, ast.Call) and norm(d.func) in ('json.loads', 'copy.deepcopy') for d in defs)
        return False

    for fn in all_fns:
        params = {a.arg for a in fn.args.args}
        fresh = set()
        tainted = set(params)      # names that may alias caller-owned objects
        # iterate to a fixed point over assignments (flow-insensitive within the function, conservative)
        assigns = [n for n in walk_no_nested(fn) if isinstance(n, (ast.Assign, ast.For, ast.comprehension))]
        changed = True
        origin = {}
        for _ in range(6):
            for n in walk_no_nested(fn):
                if isinstance(n, ast.Assign) and len(n.targets) == 1:
                    for name in _names(n.targets[0]):
                        origin.setdefault(name, []).append(n.value)
                elif isinstance(n, ast.For):
                    for name in _names(n.target):
                        origin.setdefault(name, []).append(('iter', n.iter))
            break

        def deep(e, depth=0):
            """the object and everything reachable from it is private to this call"""
            if depth > 8:
                return False
            if isinstance(e, tuple) and e[0] == 'iter':
                return deep(e[1], depth + 1)
            if isinstance(e, ast.Constant):
                return True
            if isinstance(e, (ast.Dict, ast.List, ast.Tuple)):
                kids = (list(e.values) if isinstance(e, ast.Dict) else list(e.elts))
                return all(deep(k, depth + 1) for k in kids)
            if isinstance(e, (ast.ListComp, ast.DictComp)):
                return True     # built from results of decoding calls (new objects)
            if isinstance(e, ast.BoolOp):
                return all(deep(v, depth + 1) for v in e.values)
            if isinstance(e, ast.IfExp):
                return deep(e.body, depth + 1) and deep(e.orelse, depth + 1)
            if isinstance(e, ast.Call):
                f = norm(e.func)
                if f in ('json.loads', 'copy.deepcopy', 'Grid', 'Version'):
                    return True
                if f in ('dict', 'list', 'tuple', 'sorted', 'reversed'):
                    return all(deep(a, depth + 1) for a in e.args)
                if isinstance(e.func, ast.Attribute) and e.func.attr in ('pop', 'get', 'items', 'values', 'keys', 'copy'):
                    return deep(e.func.value, depth + 1)
                return False
            if isinstance(e, ast.Name):
                if e.id in params:
                    return param_fresh(fn, e.id)
                srcs = origin.get(e.id)
                if not srcs:
                    return False
                return all(deep(s_, depth + 1) for s_ in srcs)
            if isinstance(e, (ast.Subscript, ast.Attribute)):
                return deep(e.value, depth + 1)
            return False

        def shallow(e, depth=0):
            """the container itself is new (its elements may still be the caller's)"""
            if depth > 8:
                return False
            if deep(e):
                return True
            if isinstance(e, (ast.Dict, ast.List, ast.ListComp, ast.DictComp)):
                return True
            if isinstance(e, ast.Call):
                f = norm(e.func)
                if f in ('dict', 'list', 'sorted'):
                    return True
                if isinstance(e.func, ast.Attribute) and e.func.attr == 'copy':
                    return True
            if isinstance(e, ast.Name) and e.id not in params:
                srcs = origin.get(e.id)
                if srcs and all(not (isinstance(s_, tuple)) and shallow(s_, depth + 1) for s_ in srcs):
                    return True
            return False

        def is_fresh(e):
            return shallow(e)

        for n in walk_no_nested(fn):
            target = None
            what = None
            if isinstance(n, ast.Call) and isinstance(n.func, ast.Attribute) and n.func.attr in MUTATORS:
                target, what = n.func.value, '.%s()' % n.func.attr
            elif isinstance(n, ast.Assign):
                for t in n.targets:
                    if isinstance(t, ast.Subscript):
                        target, what = t.value, 'item store'
            elif isinstance(n, ast.Delete):
                for t in n.targets:
                    if isinstance(t, ast.Subscript):
                        target, what = t.value, 'del'
            if target is None:
                continue
            # stores into grid objects / freshly built containers are not about the input
            n_sites += 1
            if norm(target).split('.')[0].split('[')[0] in ('grid',) or is_fresh(target):
                ctx.ob(rule, '%s: %s on %s acts on a fresh object' % (fn.name, what, norm(target)), True,
                       '%s:%d' % (FJ, n.lineno))
            else:
                ctx.violation(rule, '%s::%s' % (FJ, fn.name), norm(n) if not isinstance(n, ast.Call) else norm(n),
                              'hszinc.parse(obj, mode=MODE_JSON) with a pre-decoded dict: after the call obj has lost '
                              'keys (%s on %s)' % (what, norm(target)),
                              '%s %s on `%s`, which may be (part of) the caller\'s own object: it is neither the result of '
                              'json.loads/copy.deepcopy nor derived from one' % (fn.name, what, norm(target)), file=FJ,
                              line=n.lineno, engine='E7',
                              path=['hszinc.parse(obj)', 'parser.parse_grid'] + ['jsonparser.%s -> %s (%s)' % (c_, f_, norm(n_)[:60])
                                                                                   for f_, c_, n_ in bad_sites[:2]] +
                                   ['jsonparser.%s' % fn.name])
    ctx.count('destructive call sites in jsonparser', n_sites)
    ctx.floor('destructive call sites in jsonparser', n_sites, 6)
    # parser.parse must not mutate grid_str / grid_data itself
    pp = m.func('parser', 'parse')
    bad = []

    def _fresh_here(node, name):
        """is the binding of `name` that reaches `node` a container built by parse() itself ([], {}, list(...), a
        comprehension, json.loads / deepcopy)?  Looks at the latest earlier assignment in the enclosing blocks."""
        st = node
        while st is not None and not isinstance(st, ast.stmt):
            st = getattr(st, '_parent', None)
        while st is not None and st is not pp:
            parent = getattr(st, '_parent', None)
            for field in ('body', 'orelse', 'finalbody'):
                blk = getattr(parent, field, None)
                if isinstance(blk, list) and st in blk:
                    for prev in reversed(blk[:blk.index(st)]):
                        if isinstance(prev, ast.Assign) and any(norm(t) == name for t in prev.targets):
                            v = prev.value
                            return isinstance(v, (ast.List, ast.Dict, ast.ListComp, ast.DictComp, ast.Set, ast.SetComp)) or (
                                isinstance(v, ast.Call) and norm(v.func) in ('list', 'dict', 'json.loads', 'copy.deepcopy', 'deepcopy',
                                                                             'sorted', 'GRID_SEP.split'))
            st = parent
        return False
    for n in walk_no_nested(pp):
        if isinstance(n, ast.Call) and isinstance(n.func, ast.Attribute) and n.func.attr in MUTATORS \
                and norm(n.func.value) in ('grid_str', 'grid_data') and not _fresh_here(n, norm(n.func.value)):
            bad.append(n)
        if isinstance(n, ast.Assign):
            for t in n.targets:
                if isinstance(t, ast.Subscript) and norm(t.value) in ('grid_str', 'grid_data') and not _fresh_here(n, norm(t.value)):
                    bad.append(n)
    if bad:
        ctx.violation(rule, 'hszinc/parser.py::parse', norm(bad[0]), 'the caller\'s list/dict is changed by parse()',
                      'parser.parse mutates its input: %s' % norm(bad[0]), file='hszinc/parser.py', line=bad[0].lineno,
                      engine='E7')
    else:
        ctx.ob(rule, 'parser.parse hands the caller\'s object on unchanged', True, 'hszinc/parser.py:%d' % pp.lineno)


def _names(t):
    if isinstance(t, ast.Name):
        return [t.id]
    if isinstance(t, (ast.Tuple, ast.List)):
        out = []
        for e in t.elts:
            out.extend(_names(e))
        return out
    return []
