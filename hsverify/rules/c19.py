"""C19 -- equality of Haystack values and grids is lawful and kind-aware."""
from __future__ import annotations

import ast

from ..lang import Unsupported
from ..model import AnalysisError, body_wo_doc, live_body, norm, walk_no_nested

META = {
    'level': 'other',
    'explanation': (
        'Static class-level rules over every class of datatypes.py and grid.py that defines __eq__/__ne__/'
        '__hash__: (D1) a str subclass overriding __eq__ must answer False (not NotImplemented, which falls '
        'back to str.__eq__ through the reflected call) for operands of another kind and must override __ne__ '
        'as the complement; __ne__ is the guarded negation of __eq__; __hash__ reads only fields __eq__ '
        'compares; __eq__ of value classes touches `other` only under an isinstance guard; Ref equality '
        'covers name, value and has_value; (D2) singletons: __copy__/__deepcopy__ return self, one module-level '
        'instance each, no __eq__ override; (D3) Grid._approx_check never applies a kind-specific operation '
        '(attribute, method, arithmetic) to v2 unless v2\'s kind was tested, and Grid.__eq__ covers metadata keys '
        'and values, column keys, column-meta sizes and values, row count and every column of every row.  '
        'Also (D3): per-kind components of _approx_check (datetime: zone, date, time; Quantity: unit, value; Coordinate: latitude, longitude) all enter the comparison; the float branch is exact tests plus ONE absolute tolerance in [5e-7, 1e-6] (relative or operand-dependent bounds are violations); (D1) __hash__ reads a field through the same coarsening (round/lower/...) that __eq__ compares.  Also (D1): __ne__ written as `not self.__eq__(other)` is refused when __eq__ answers NotImplemented for foreign kinds.  Not decided: reflexivity/symmetry over all pairs as executions; the float tolerance itself.'
        " Also (D1): the unit test of Qty._cmp_op tells apart exactly the units __hash__ tells apart (decision table).  (D3) C16's refusal clause: nothing is written to a metadata/column map before the validator accepted the value, so a refused update cannot leave a key without value (Grid.__eq__ would raise KeyError)."
        ' Also (D3): the first branch of _approx_check that a (bool, number) pair satisfies is the boolean branch.'
        ' Also (D1): Ref constructor / __eq__ / __hash__ evaluated over the six constructor states: equal references hash alike; with and without display string differ.'
        ' Round 9: (D1) Qty.__eq__ and Qty.__ne__ hand complementary operators to _cmp_op (decision table incl. NaN, -0.0, inf) and == holds only for values that hash alike; isinstance disjunctions are read as tuple tests.'),
    'rule_text': 'one obligation per (class, rule) for 10 classes, per singleton fact, per _approx_check branch '
                 '(guard dominance), per coverage fact of Grid.__eq__',
    'trusted_base': ['Python falls back to the reflected __eq__ and then to identity when NotImplemented is returned; '
                     'a class defining __eq__ without __ne__ gets the inverted __eq__'],
}

D = 'datatypes'
FD = 'hszinc/datatypes.py'
FG = 'hszinc/grid.py'

STR_BASES = {'six.text_type', 'str', 'six.string_types', 'unicode'}


def run(ctx):
    m = ctx.model
    _value_classes(ctx, m)
    _singletons(ctx, m)
    _approx_check(ctx, m)
    _grid_eq(ctx, m)
    # Grid.__eq__ walks metadata and columns key by key (`for k in a: a[k] ... b[k]`): it can only answer -- rather than
    # raise KeyError -- while every key listed in _order has a value in _values, also after an update that was
    # refused.  That is C16's refusal clause (nothing is written before the validator / the argument checks said yes).
    from . import c16
    c16._add_item(_Only(ctx, ('C16.D2',), 'C19.D3'), m.methods('sortabledict', 'SortableDict'))


class _Only(object):
    """context proxy: files the listed rules of another property under one rule of this property, drops the rest"""

    def __init__(self, ctx, keep, new):
        self._ctx, self._keep, self._new = ctx, keep, new
        self.model = ctx.model

    def ob(self, rule, *a, **k):
        if rule in self._keep:
            return self._ctx.ob(self._new, *a, **k)
        return True

    def violation(self, rule, *a, **k):
        if rule in self._keep:
            return self._ctx.violation(self._new, *a, **k)
        return None

    def error(self, rule, *a, **k):
        return self._ctx.error(self._new, *a, **k)

    def note(self, *a, **k):
        return None

    def count(self, *a, **k):
        return None

    def floor(self, *a, **k):
        return None

    def __getattr__(self, name):
        return getattr(self._ctx, name)


def _classes(m, modname):
    out = []
    for st in live_body(m.mod(modname).tree.body):
        if isinstance(st, ast.ClassDef):
            out.append(st)
        elif isinstance(st, ast.If):
            for sub in st.body + st.orelse:
                if isinstance(sub, ast.ClassDef):
                    out.append(sub)
    return out


def _methods(cls):
    # the guard-then-compare rules are written against the early-exit ('flat') spelling
    from ..model import view
    return {st.name: view(st, 'flat') for st in live_body(cls.body) if isinstance(st, ast.FunctionDef)}


def _guard_of(fn, clsname):
    """`if not isinstance(other, Cls): return X` as first statement -> (other name, X text)."""
    body = body_wo_doc(fn)
    if not body:
        return None
    st = body[0]
    a = [x.arg for x in fn.args.args]
    if len(a) != 2:
        return None
    o = a[1]
    if isinstance(st, ast.If) and not st.orelse and len(st.body) == 1 and isinstance(st.body[0], ast.Return):
        t = norm(st.test)
        if t in ('not isinstance(%s, %s)' % (o, clsname), 'not isinstance(%s, self.__class__)' % o,
                 'type(%s) is not %s' % (o, clsname), 'not isinstance(%s, type(self))' % o):
            return (o, norm(st.body[0].value), body[1:])
    return None


def _ref_states(ctx, m):
    """(D1) Ref: over every state the constructor can produce -- value in {None, '', 'x'} x has_value in {False, True}
    -- two references that __eq__ calls equal have the same __hash__ (hash(field) markers compared), and a reference
    with a display string (the empty one included) differs from one without."""
    from .. import minieval
    from ..model import body_wo_doc as _bwd
    try:
        init = m.func(D, 'Ref.__init__')
        eq = m.func(D, 'Ref.__eq__')
        hs = m.func(D, 'Ref.__hash__')
    except AnalysisError as e:
        ctx.error('C19.D1', str(e))
        return
    a = [x.arg for x in init.args.args]
    if len(a) != 4 or len(eq.args.args) != 2 or len(hs.args.args) != 1:
        ctx.error('C19.D1', 'Ref: constructor / __eq__ / __hash__ signatures changed; cannot decide')
        return
    states = []
    try:
        for v in (None, '', 'x'):
            for h in (False, True):
                env = {a[0]: {}, a[1]: 'a', a[2]: v, a[3]: h}
                minieval.run(_bwd(init), env)
                states.append(((v, h), env[a[0]]))
        bad = None
        n_pairs = 0
        for (k1, s1) in states:
            for (k2, s2) in states:
                n_pairs += 1
                e_ = minieval.run(_bwd(eq), {eq.args.args[0].arg: s1, eq.args.args[1].arg: s2, '__types__': {'Ref': dict}})
                h1 = minieval.run(_bwd(hs), {hs.args.args[0].arg: s1})
                h2 = minieval.run(_bwd(hs), {hs.args.args[0].arg: s2})
                if e_ is True and h1 != h2 and bad is None:
                    bad = ('hash', k1, k2)
                if e_ is True and (k1[0] is None) != (k2[0] is None) and bad is None:
                    bad = ('dis', k1, k2)
    except minieval.Undecided as e:
        ctx.error('C19.D1', 'Ref: constructor / __eq__ / __hash__ not decidable over the constructor states (%s)' % e)
        return
    where = '%s:%d' % (FD, eq.lineno)
    if bad is None:
        ctx.ob('C19.D1', 'Ref: over the %d constructor states (%d pairs) equal references hash alike, and a reference with a '
                         'display string never equals one without' % (len(states), n_pairs), True, where)
        return True
    else:
        kind, k1, k2 = bad
        ctx.violation('C19.D1', '%s::Ref.__eq__' % FD, 'Ref(\'a\', %r, %r) == Ref(\'a\', %r, %r)' % (k1[0], k1[1], k2[0], k2[1]),
                      "Ref('a', %r%s) == Ref('a', %r%s) is True %s" % (
                          k1[0], ', has_value=True' if k1[1] else '', k2[0], ', has_value=True' if k2[1] else '',
                          'but their hashes differ (set() and == disagree on how many references there are)' if kind == 'hash'
                          else 'although one has a display string and the other has none'),
                      'Ref.__init__, __eq__ and __hash__ disagree over the states the constructor produces', file=FD, line=eq.lineno,
                      engine='E7')


def _value_classes(ctx, m):
    ref_decided = _ref_states(ctx, m)
    n_eq = 0
    for cls in _classes(m, D):
        meths = _methods(cls)
        name = cls.name
        bases = [norm(b) for b in cls.bases]
        is_str = any(b in STR_BASES for b in bases)
        where = '%s:%d' % (FD, cls.lineno)
        if name in ('Qty',):
            # equality of quantities is C20's conformance; hash/eq agreement here
            if '__hash__' in meths and '__eq__' in meths:
                h = norm(body_wo_doc(meths['__hash__'])[-1])
                if h in ('return hash((self.value, self.unit))', 'return hash((self.unit, self.value))'):
                    ctx.ob('C19.D1', 'Qty.__hash__ reads value and unit, the fields same-kind equality depends on',
                           True, where)
                    n_eq += 1
                else:
                    ctx.error('C19.D1', 'Qty.__hash__ has unrecognised form %r' % h)
            _qty_eq_ne(ctx, m, meths, where)
            # the hash tells raw units apart; so must the unit test that equality goes through
            co = meths.get('_cmp_op')
            if co is not None and len(co.args.args) == 3:
                from . import c20 as _c20
                s_, o_ = co.args.args[0].arg, co.args.args[1].arg
                plain = {'%s.unit != %s.unit' % (o_, s_), '%s.unit != %s.unit' % (s_, o_), '%s.unit == %s.unit' % (o_, s_),
                         '%s.unit == %s.unit' % (s_, o_)}
                n_unit = 0
                for node in ast.walk(co):
                    if isinstance(node, ast.If):
                        t = node.test.operand if isinstance(node.test, ast.UnaryOp) and isinstance(node.test.op, ast.Not) else node.test
                        if '.unit' in norm(t):
                            n_unit += 1
                            if norm(t) not in plain:
                                _c20._unit_predicate(ctx, co, norm(t), s_, o_, rule='C19.D1')
                if n_unit:
                    ctx.ob('C19.D1', 'Qty._cmp_op: %d unit test(s) decide exactly `the raw units differ`, what __hash__ hashes' % n_unit,
                           True, where)
            continue
        if '__eq__' not in meths:
            if '__ne__' in meths:
                ctx.error('C19.D1', '%s defines __ne__ without __eq__' % name)
            continue
        n_eq += 1
        eq = meths['__eq__']
        g = _guard_of(eq, name)
        if g is None:
            # inverted guard: `if isinstance(other, Cls): return <answer for foreign kinds>`
            b0 = body_wo_doc(eq)
            o_ = eq.args.args[1].arg if len(eq.args.args) == 2 else 'other'
            if b0 and isinstance(b0[0], ast.If) and norm(b0[0].test) in ('isinstance(%s, %s)' % (o_, name), 'type(%s) is %s' % (o_, name)) \
                    and b0[0].body and isinstance(b0[0].body[0], ast.Return) \
                    and norm(b0[0].body[0].value) in ('NotImplemented', 'False', 'True'):
                ctx.violation('C19.D1', '%s::%s.__eq__' % (FD, name), norm(b0[0]).split('\n')[0],
                              'two equal %s values compare %s, and a %s compared with a value of another kind reaches the '
                              'field comparison (AttributeError / wrong answer): the kind guard is inverted'
                              % (name, norm(b0[0].body[0].value), name),
                              '%s.__eq__ returns its foreign-kind answer for operands that ARE %s' % (name, name), file=FD,
                              line=eq.lineno, engine='E9')
            else:
                ctx.error('C19.D1', '%s.__eq__: type guard `if not isinstance(other, %s): return ...` not recognised'
                          % (name, name))
            continue
        o, guard_ret, rest = g
        if is_str:
            # (i) must answer False for foreign kinds
            if guard_ret == 'NotImplemented':
                ctx.violation('C19.D1', '%s::%s.__eq__' % (FD, name), norm(body_wo_doc(eq)[0]),
                              "%s('x') == 'x' is True: NotImplemented makes Python call str.__eq__ on the reflected "
                              "operand, which compares the text" % name,
                              '%s (a str subclass) returns NotImplemented for operands of another kind; a %s and a '
                              'plain string with the same text compare equal' % (name, name),
                              file=FD, line=eq.lineno, engine='E9')
            elif guard_ret == 'False':
                ctx.ob('C19.D1', '%s.__eq__ answers False for operands that are not %s' % (name, name), True, where)
            elif guard_ret == 'True':
                ctx.violation('C19.D1', '%s::%s.__eq__' % (FD, name), norm(body_wo_doc(eq)[0]),
                              "%s('x') == 'anything' (and == 5, == None) is True: the guard for operands of another kind "
                              "answers True" % name, '%s.__eq__ answers True for operands of another kind' % name,
                              file=FD, line=eq.lineno, engine='E9')
            else:
                ctx.error('C19.D1', '%s.__eq__ guard returns %s' % (name, guard_ret))
            # must override __ne__
            if '__ne__' not in meths:
                ctx.violation('C19.D1', '%s::%s' % (FD, name), 'def __ne__',
                              "%s('x') != 'x' is False (inherited str.__ne__ compares the text) although they are "
                              "different values; != is not the complement of ==" % name,
                              '%s overrides __eq__ but inherits str.__ne__' % name, file=FD, line=cls.lineno,
                              engine='E9')
            # hashability: a str subclass defining __eq__ without __hash__ is unhashable (observation)
            if '__hash__' not in meths:
                ctx.note('%s defines __eq__ without __hash__: instances are unhashable (not a violation of C19: '
                         'the hash clause speaks of hashable values)' % name)
        else:
            if guard_ret in ('NotImplemented', 'False'):
                ctx.ob('C19.D1', '%s.__eq__ answers %s for foreign kinds (identity fallback gives False)'
                       % (name, guard_ret), True, where)
            else:
                ctx.violation('C19.D1', '%s::%s.__eq__' % (FD, name), norm(body_wo_doc(eq)[0]),
                              '%s(...) == "text" gives %s' % (name, guard_ret),
                              '%s.__eq__ answers %s for operands of another kind' % (name, guard_ret), file=FD,
                              line=eq.lineno, engine='E9')
        # (iv) after the guard: a single return of a comparison expression, no raising construct
        eq_fields = set()
        ok_body = len(rest) == 1 and isinstance(rest[0], ast.Return)
        if not ok_body and name == 'Ref' and ref_decided:
            # decided over the constructor states (above): the shape of the comparison is free
            eq_fields = {'name', 'value', 'has_value'}
        elif not ok_body:
            ctx.error('C19.D1', '%s.__eq__: body after the guard is not a single return' % name)
        else:
            for node in ast.walk(rest[0]):
                if isinstance(node, ast.Attribute) and isinstance(node.value, ast.Name) and node.value.id == o:
                    eq_fields.add(node.attr)
            ctx.ob('C19.D1', '%s.__eq__ dereferences `other` only after the isinstance guard (fields %s)'
                   % (name, sorted(eq_fields)), True, where)
        # (ii) __ne__ complement
        if '__ne__' in meths:
            ne = meths['__ne__']
            gn = _guard_of(ne, name)
            nb = body_wo_doc(ne)
            o_ne = ne.args.args[1].arg if len(ne.args.args) == 2 else 'other'
            if gn is None and len(nb) == 1 and isinstance(nb[0], ast.Return) and norm(nb[0].value) == 'not self.__eq__(%s)' % o_ne \
                    and guard_ret == 'NotImplemented':
                ctx.violation('C19.D1', '%s::%s.__ne__' % (FD, name), norm(nb[0]),
                              "%s(...) != 'text' is False although %s(...) == 'text' is False too: __eq__ answers NotImplemented "
                              "for a foreign kind, and `not NotImplemented` is False (the direct call bypasses the operator "
                              "protocol that `self == other` would go through)" % (name, name),
                              '%s.__ne__ negates the raw result of __eq__, which may be NotImplemented' % name, file=FD,
                              line=ne.lineno, engine='E9')
            elif gn is None and len(nb) == 1 and isinstance(nb[0], ast.Return) and norm(nb[0].value) in (
                    'not self == %s' % o_ne, 'not self.__eq__(%s)' % o_ne):
                ctx.ob('C19.D1', '%s.__ne__ is `not (self == other)`: the complement of __eq__ for every operand'
                       % name, True, '%s:%d' % (FD, ne.lineno))
            elif gn is None:
                ctx.error('C19.D1', '%s.__ne__: neither the guarded nor the plain negation of __eq__' % name)
            else:
                o2, nret, nrest = gn
                want_guard = {'NotImplemented': 'NotImplemented', 'False': 'True'}.get(guard_ret)
                body_ok = len(nrest) == 1 and isinstance(nrest[0], ast.Return) and norm(nrest[0].value) in (
                    'not self == %s' % o2, 'not self.__eq__(%s)' % o2, 'not (self == %s)' % o2)
                if nret == want_guard and body_ok:
                    ctx.ob('C19.D1', '%s.__ne__ is the guarded negation of __eq__' % name, True,
                           '%s:%d' % (FD, ne.lineno))
                elif nret != want_guard:
                    ctx.violation('C19.D1', '%s::%s.__ne__' % (FD, name), norm(body_wo_doc(ne)[0]),
                                  '%s(...) != "text" gives %s while == gives %s' % (name, nret, guard_ret),
                                  '%s.__ne__ is not the complement of __eq__ for foreign kinds' % name, file=FD,
                                  line=ne.lineno, engine='E9')
                else:
                    ctx.violation('C19.D1', '%s::%s.__ne__' % (FD, name), norm(nrest[0]) if nrest else '',
                                  'a == b and a != b agree for two equal %s values' % name,
                                  '%s.__ne__ does not return `not (self == other)`' % name, file=FD, line=ne.lineno,
                                  engine='E9')
        # (iii) hash fields subset of eq fields
        if '__hash__' in meths and ok_body:
            hfields = set()
            for node in ast.walk(meths['__hash__']):
                if isinstance(node, ast.Attribute) and isinstance(node.value, ast.Name) and node.value.id == 'self':
                    hfields.add(node.attr)
            raw_self = [n for n in ast.walk(meths['__hash__']) if isinstance(n, ast.Name) and n.id == 'self'
                        and not isinstance(getattr(n, '_parent', None), ast.Attribute)]
            if raw_self:
                ctx.violation('C19.D1', '%s::%s.__hash__' % (FD, name), norm(body_wo_doc(meths['__hash__'])[-1]),
                              'two equal %s values hash differently (the hash depends on object identity)' % name,
                              '%s.__hash__ uses the object itself (id/hash of self), not only compared fields' % name,
                              file=FD, line=meths['__hash__'].lineno, engine='E9')
            elif hfields <= eq_fields:
                ctx.ob('C19.D1', '%s.__hash__ reads only fields __eq__ compares (%s)' % (name, sorted(hfields)),
                       True, '%s:%d' % (FD, meths['__hash__'].lineno))
                # the hash must be a function of what __eq__ compares: if __eq__ compares a coarsening f(self.F)
                # (round, lower, strip...), the hash must read F through the same f
                coarse = {}
                for node in ast.walk(rest[0]):
                    if isinstance(node, ast.Attribute) and isinstance(node.value, ast.Name) and node.value.id == 'self':
                        p_ = getattr(node, '_parent', None)
                        wrapper = None
                        if isinstance(p_, ast.Call) and node in p_.args and norm(p_.func) in ('round', 'int', 'abs', 'str', 'float'):
                            wrapper = norm(p_)
                        elif isinstance(p_, ast.Attribute) and isinstance(getattr(p_, '_parent', None), ast.Call) \
                                and p_._parent.func is p_ and p_.attr in ('lower', 'upper', 'casefold', 'strip', 'rstrip', 'lstrip'):
                            wrapper = norm(p_._parent)
                        if wrapper and wrapper != 'str(self.%s)' % node.attr:
                            coarse[node.attr] = wrapper
                htext = norm(meths['__hash__'])
                for fld, wrapper in sorted(coarse.items()):
                    if fld in hfields and wrapper not in htext:
                        ctx.violation('C19.D1', '%s::%s.__hash__' % (FD, name), norm(body_wo_doc(meths['__hash__'])[-1]),
                                      'two %s values whose %s differ but agree under `%s` are == and yet hash differently '
                                      '(e.g. Coordinate(37.545, -77.45) and Coordinate(37.54500004, -77.45)): a dict keyed by '
                                      'one does not find the other' % (name, fld, wrapper),
                                      '%s.__eq__ compares `%s` but __hash__ hashes the exact self.%s' % (name, wrapper, fld),
                                      file=FD, line=meths['__hash__'].lineno, engine='E9')
                    elif fld in hfields:
                        ctx.ob('C19.D1', '%s: __hash__ reads %s through the same coarsening as __eq__' % (name, fld), True,
                               '%s:%d' % (FD, meths['__hash__'].lineno))
            else:
                extra = sorted(hfields - eq_fields)
                ctx.violation('C19.D1', '%s::%s.__hash__' % (FD, name), norm(body_wo_doc(meths['__hash__'])[-1]),
                              'two %s values that differ only in %s are equal but hash differently' % (name, extra),
                              '%s.__hash__ reads %s, which __eq__ does not compare' % (name, extra), file=FD,
                              line=meths['__hash__'].lineno, engine='E9')
        # Ref: with and without display name differ
        if name == 'Ref' and ok_body:
            need = {'name'}
            if not ({'value', 'has_value'} & eq_fields) or 'name' not in eq_fields:
                ctx.violation('C19.D1', '%s::Ref.__eq__' % FD, norm(rest[0]),
                              "Ref('a') == Ref('a', 'display') is True", 'Ref.__eq__ does not compare the display '
                              'name: a Ref with and without display name must differ', file=FD, line=eq.lineno,
                              engine='E9')
            else:
                ctx.ob('C19.D1', 'Ref.__eq__ compares name and display value', True, where)
        if name == 'Coordinate' and ok_body:
            if {'latitude', 'longitude'} <= eq_fields:
                ctx.ob('C19.D1', 'Coordinate.__eq__ compares latitude and longitude', True, where)
            else:
                ctx.violation('C19.D1', '%s::Coordinate.__eq__' % FD, norm(rest[0]),
                              'Coordinate(1, 2) == Coordinate(1, 3) is True',
                              'Coordinate.__eq__ does not compare both fields', file=FD, line=eq.lineno, engine='E9')
        # conjunction, not disjunction
        if ok_body and len(eq_fields) > 1:
            v = rest[0].value
            if isinstance(v, ast.BoolOp) and isinstance(v.op, ast.Or):
                ctx.violation('C19.D1', '%s::%s.__eq__' % (FD, name), norm(rest[0]),
                              'two %s values sharing one field compare equal' % name,
                              '%s.__eq__ joins field comparisons with `or`' % name, file=FD, line=eq.lineno,
                              engine='E9')
            for node in ast.walk(v):
                if isinstance(node, ast.Compare) and not isinstance(node.ops[0], ast.Eq):
                    ctx.violation('C19.D1', '%s::%s.__eq__' % (FD, name), norm(rest[0]),
                                  'equal %s values compare unequal' % name,
                                  '%s.__eq__ uses %s between fields' % (name, type(node.ops[0]).__name__), file=FD,
                                  line=eq.lineno, engine='E9')
    ctx.floor('value classes with __eq__', n_eq, 6)


def _singletons(ctx, m):
    try:
        meths = m.methods(D, 'Singleton')
    except AnalysisError as e:
        ctx.error('C19.D2', str(e))
        return
    for name, nargs in (('__copy__', 1), ('__deepcopy__', 2)):
        fn = meths.get(name)
        if fn is None:
            ctx.violation('C19.D2', '%s::Singleton' % FD, 'def %s' % name,
                          'copy.%s(MARKER) is not MARKER' % ('copy' if name == '__copy__' else 'deepcopy'),
                          'Singleton.%s is missing: copies create a second instance' % name, file=FD, engine='E9')
            continue
        body = body_wo_doc(fn)
        s = fn.args.args[0].arg
        if len(body) == 1 and isinstance(body[0], ast.Return) and norm(body[0].value) == s:
            ctx.ob('C19.D2', 'Singleton.%s returns self' % name, True, '%s:%d' % (FD, fn.lineno))
        else:
            ctx.violation('C19.D2', '%s::Singleton.%s' % (FD, name), '\n'.join(norm(x) for x in body),
                          'copy.%s(MARKER) is not MARKER' % ('copy' if name == '__copy__' else 'deepcopy'),
                          'Singleton.%s does not return self' % name, file=FD, line=fn.lineno, engine='E9')
    mod = m.mod(D)
    for cname, inst in (('MarkerType', 'MARKER'), ('NAType', 'NA'), ('RemoveType', 'REMOVE')):
        try:
            cls = m.cls(D, cname)
        except AnalysisError as e:
            ctx.error('C19.D2', str(e))
            continue
        bases = [norm(b) for b in cls.bases]
        cm = _methods(cls)
        bad = [x for x in ('__copy__', '__deepcopy__', '__eq__', '__ne__', '__reduce__', '__reduce_ex__') if x in cm]
        if bases == ['Singleton'] and not bad:
            ctx.ob('C19.D2', '%s derives from Singleton and overrides none of copy/eq' % cname, True,
                   '%s:%d' % (FD, cls.lineno))
        elif bases != ['Singleton']:
            ctx.violation('C19.D2', '%s::%s' % (FD, cname), 'class %s(%s)' % (cname, ', '.join(bases)),
                          'copy.deepcopy(%s) is not %s' % (inst, inst), '%s no longer derives from Singleton' % cname,
                          file=FD, line=cls.lineno, engine='E9')
        else:
            ctx.error('C19.D2', '%s overrides %s' % (cname, bad))
        defs = mod.bindings.get(inst, [])
        n_inst = 0
        for d in defs:
            if isinstance(d, ast.Assign) and norm(d.value) == '%s()' % cname:
                n_inst += 1
        # other instantiations anywhere in the package
        others = 0
        for mm in m.modules.values():
            for node in ast.walk(mm.tree):
                if isinstance(node, ast.Call) and norm(node.func).split('.')[-1] == cname:
                    others += 1
        if len(defs) == 1 and n_inst == 1 and others == 1:
            ctx.ob('C19.D2', '%s is the only instance of %s in the package' % (inst, cname), True)
        else:
            ctx.violation('C19.D2', '%s::%s' % (FD, inst), '%s = %s()' % (inst, cname),
                          'two distinct %s objects exist; `x is %s` fails for one of them' % (cname, inst),
                          '%s() is instantiated %d times (bindings of %s: %d)' % (cname, others, inst, len(defs)),
                          file=FD, engine='E9')


# kind-specific operations on v2, by the attribute used
KIND_OF_ATTR = {
    'replace': ('datetime.time', 'datetime.datetime', 'datetime.date'), 'tzinfo': ('datetime.datetime', 'datetime.time'),
    'date': ('datetime.datetime',), 'time': ('datetime.datetime',), 'unit': ('Quantity',), 'value': ('Quantity',),
    'latitude': ('Coordinate',), 'longitude': ('Coordinate',), 'microsecond': ('datetime.time', 'datetime.datetime'),
}
NUMERIC = ('float', 'int', 'numbers.Number', 'numbers.Real', 'bool')


def _qty_eq_ne(ctx, m, meths, where):
    """Qty.__eq__ and Qty.__ne__ go through _cmp_op with a two-argument operator each; the two operators are complements
    of each other on every pair of values (decision table over 1.0, 2.0, -0.0/0.0, inf and NaN), and the == operator holds
    only for values the hash cannot tell apart (plain ==; a NaN-reflexive == makes equal quantities hash differently)."""
    from .. import minieval
    eq, ne = meths.get('__eq__'), meths.get('__ne__')
    if eq is None:
        return
    if ne is None:
        ctx.ob('C19.D1', 'Qty defines no __ne__: != is the negation of __eq__', True, where)
        return

    def operator_of(fn):
        b = body_wo_doc(fn)
        if len(b) != 1 or not isinstance(b[0], ast.Return) or not isinstance(b[0].value, ast.Call):
            return None
        c = b[0].value
        if not norm(c.func).endswith('._cmp_op') or len(c.args) != 2:
            return None
        op = c.args[1]
        if isinstance(op, ast.Lambda) and len(op.args.args) == 2:
            return [a.arg for a in op.args.args], op.body
        if isinstance(op, ast.Name):
            try:
                f = m.func(D, op.id)
            except AnalysisError:
                return None
            fb = body_wo_doc(f)
            if len(fb) == 1 and isinstance(fb[0], ast.Return) and fb[0].value is not None and len(f.args.args) == 2:
                return [a.arg for a in f.args.args], fb[0].value
        if isinstance(op, ast.Attribute) and norm(op) in ('operator.eq', 'operator.ne'):
            x, y = ast.Name(id='x', ctx=ast.Load()), ast.Name(id='y', ctx=ast.Load())
            return ['x', 'y'], ast.Compare(left=x, ops=[ast.Eq() if norm(op) == 'operator.eq' else ast.NotEq()], comparators=[y])
        return None

    oe, on = operator_of(eq), operator_of(ne)
    if oe is None or on is None:
        ctx.error('C19.D1', 'Qty.__eq__/__ne__: operator handed to _cmp_op not recognised; complementarity not decided')
        return
    nan = float('nan')
    dom = [1.0, 2.0, 0.0, -0.0, float('inf'), nan]
    try:
        for a in dom:
            for b in dom:
                ve = bool(minieval.ev(oe[1], dict(zip(oe[0], (a, b)))))
                vn = bool(minieval.ev(on[1], dict(zip(on[0], (a, b)))))
                if ve == vn:
                    ctx.violation('C19.D1', '%s::Qty.__eq__ / __ne__' % FD, '%s  vs  %s' % (norm(oe[1])[:60], norm(on[1])[:60]),
                                  'Quantity(%r, "m") == Quantity(%r, "m") is %s and Quantity(%r, "m") != Quantity(%r, "m") is %s as '
                                  'well: the two operators are not complementary' % (a, b, ve, a, b, vn),
                                  'Qty.__eq__ applies `%s`, Qty.__ne__ applies `%s`: for the operands (%r, %r) both give %s'
                                  % (norm(oe[1])[:60], norm(on[1])[:60], a, b, ve), file=FD, line=eq.lineno, engine='E6')
                    return
                if ve and not (a == b):
                    ctx.violation('C19.D1', '%s::Qty.__eq__' % FD, norm(oe[1])[:80],
                                  'Quantity(%r, "m") == Quantity(%r, "m") is True although the values are not == : the hash of '
                                  '(value, unit) differs for them, so equal quantities have different hashes' % (a, b),
                                  'Qty.__eq__ holds for values that hash differently', file=FD, line=eq.lineno, engine='E6')
                    return
    except minieval.Undecided as e:
        ctx.error('C19.D1', 'Qty.__eq__/__ne__ operators: %s; complementarity not decided' % e)
        return
    ctx.ob('C19.D1', 'Qty.__eq__ and Qty.__ne__ hand complementary operators to _cmp_op (table over %d x %d values incl. NaN, '
                     '-0.0, inf)' % (len(dom), len(dom)), True, where)


def _isinstance_facts(test, positive=True):
    """(var, class text) pairs known to hold when `test` is true (conjunctions only)."""
    out = []
    if isinstance(test, ast.BoolOp) and isinstance(test.op, ast.And) and positive:
        for v in test.values:
            out.extend(_isinstance_facts(v, True))
        return out
    if isinstance(test, ast.BoolOp) and isinstance(test.op, ast.Or) and positive:
        # isinstance(x, A) or isinstance(x, B)  ==  isinstance(x, (A, B))
        parts = [_isinstance_facts(v, True) for v in test.values]
        if all(len(p) == 1 for p in parts) and len({p[0][0] for p in parts}) == 1:
            classes = []
            for p in parts:
                classes.extend(c for c in p[0][1] if c not in classes)
            return [(parts[0][0][0], tuple(classes))]
        return out
    if isinstance(test, ast.Call) and norm(test.func) == 'isinstance' and len(test.args) == 2 \
            and isinstance(test.args[0], ast.Name) and positive:
        cls = test.args[1]
        if isinstance(cls, ast.Tuple):
            out.append((test.args[0].id, tuple(norm(e) for e in cls.elts)))
        else:
            out.append((test.args[0].id, (norm(cls),)))
    return out


def _approx_check(ctx, m):
    try:
        fn = m.func('grid', 'Grid._approx_check')
    except AnalysisError as e:
        ctx.error('C19.D3', str(e))
        return
    a = [x.arg for x in fn.args.args]
    if len(a) != 2:
        ctx.error('C19.D3', 'Grid._approx_check signature changed: %s' % a)
        return
    v1, v2 = a
    body = body_wo_doc(fn)
    branches = []   # (test or None, body, facts)

    def flatten(stmts, facts):
        for i, st in enumerate(stmts):
            if isinstance(st, ast.If):
                f = _isinstance_facts(st.test)
                # early exit: `if not isinstance(v2, T): return False` adds a fact for what follows
                if isinstance(st.test, ast.UnaryOp) and isinstance(st.test.op, ast.Not) and not st.orelse \
                        and all(isinstance(x, ast.Return) for x in st.body):
                    nf = _isinstance_facts(st.test.operand)
                    facts = facts + nf
                    continue
                # or-test (float branch): no fact about any single variable
                flatten(st.body, facts + f)
                if st.orelse:
                    flatten(st.orelse, facts)
                # statements after an if whose body always returns are the implicit else
                continue
            branches.append((st, facts))

    flatten(body, [])
    nbr = 0
    for st, facts in branches:
        nbr += 1
        known2 = set()
        known1 = set()
        for var, classes in facts:
            if var == v2:
                known2 |= set(classes)
            if var == v1:
                known1 |= set(classes)
        problems = []

        def scan(node, k1, k2):
            # short-circuit conjunctions: earlier isinstance conjuncts guard later ones
            if isinstance(node, ast.BoolOp) and isinstance(node.op, ast.And):
                k1, k2 = set(k1), set(k2)
                for v in node.values:
                    scan(v, k1, k2)
                    for var, classes in _isinstance_facts(v):
                        if var == v2:
                            k2 |= set(classes)
                        if var == v1:
                            k1 |= set(classes)
                return
            if isinstance(node, ast.Attribute) and isinstance(node.value, ast.Name) and node.value.id == v2:
                need = KIND_OF_ATTR.get(node.attr)
                if need is None:
                    problems.append(('.%s' % node.attr, 'an unknown kind'))
                elif not (k2 & set(need)):
                    problems.append(('.%s' % node.attr, ' or '.join(need)))
            if isinstance(node, ast.BinOp):
                names = {n.id for n in ast.walk(node) if isinstance(n, ast.Name)}
                if v2 in names and not (k2 & set(NUMERIC)):
                    problems.append((norm(node), 'a number'))
                elif v1 in names and v2 in names and not (k1 & set(NUMERIC)):
                    problems.append((norm(node), 'a number (v1)'))
            for ch in ast.iter_child_nodes(node):
                scan(ch, k1, k2)

        scan(st, known1, known2)
        where = '%s:%d' % (FG, st.lineno)
        if problems:
            op, need = problems[0]
            k1 = ' or '.join(sorted(known1)) or 'anything'
            if need == 'a number (v1)':
                wit = 'cell None in one grid, 1.5 in the other: %s raises TypeError' % op
            elif need == 'a number':
                wit = ('cell 1.5 in one grid, "text" (or None) in the other: %s raises TypeError instead of the '
                       'comparison answering False' % op)
            else:
                wit = ('cell of kind %s in one grid, a plain string in the other: v2%s raises AttributeError instead '
                       'of the comparison answering False' % (k1, op))
            ctx.violation('C19.D3', '%s::Grid._approx_check' % FG, norm(st), wit,
                          '_approx_check applies %s to v2 although only v1 was tested to be %s '
                          '(%d unguarded uses in this branch)' % (op, k1, len(problems)),
                          file=FG, line=st.lineno, engine='E6')
        else:
            ctx.ob('C19.D3', '_approx_check branch `%s`: every kind-specific use of v2 is dominated by a test of '
                             'v2\'s kind' % norm(st)[:60], True, where)
    ctx.floor('_approx_check branches', nbr, 6)
    _approx_components(ctx, fn, v1, v2, branches)
    _approx_symmetry(ctx, fn, v1, v2, body)
    # element-wise comparison with zip() must be preceded by a length comparison (zip stops at the shorter one)
    for node in ast.walk(fn):
        if isinstance(node, ast.Call) and norm(node.func) == 'zip' and len(node.args) == 2:
            names = {norm(a) for a in node.args}
            if not names <= {v1, v2, '%s.items()' % v1, '%s.items()' % v2, 'sorted(%s.items())' % v1, 'sorted(%s.items())' % v2}:
                continue
            lens = {'len(%s) == len(%s)' % (v1, v2), 'len(%s) == len(%s)' % (v2, v1)}
            guarded = False
            p = getattr(node, '_parent', None)
            while p is not None and p is not fn:
                if isinstance(p, ast.BoolOp) and isinstance(p.op, ast.And) and any(norm(v) in lens for v in p.values):
                    guarded = True
                if isinstance(p, ast.If) and any(l in norm(p.test) for l in lens):
                    guarded = True
                p = getattr(p, '_parent', None)
            for st in body:
                if isinstance(st, ast.If) and any(l.replace('==', '!=') in norm(st.test) for l in lens):
                    guarded = True
            if guarded:
                ctx.ob('C19.D3', 'element-wise comparison `%s` is guarded by a length comparison' % norm(node), True,
                       '%s:%d' % (FG, node.lineno))
            else:
                ctx.violation('C19.D3', '%s::Grid._approx_check' % FG, norm(node),
                              'a grid with the list cell [1] equals a grid with the list cell [1, 2] (and != says False): '
                              'zip() stops at the shorter sequence, so a sequence equals any longer one that starts with it',
                              'sequence cells are compared element-wise with zip() but their lengths are never compared',
                              file=FG, line=node.lineno, engine='E6')


SPECIAL = {'datetime.time', 'datetime.datetime', 'Quantity', 'Coordinate'}

# what a branch of _approx_check must compare for the two cells to denote the same value: component -> the
# spellings that read it from an operand X, and the witness when it is not compared
COMPONENTS = {
    'datetime.datetime': [
        ('zone', ('{x}.tzinfo', '{x}.tzname()', '{x}.utcoffset()'),
         'cells 2020-01-01T00:00:00Z UTC and 2020-01-01T09:00:00+09:00 Tokyo (the same instant in two zones) compare equal, '
         'and != says False: aware datetimes compare by instant, the zone is part of a Haystack DateTime'),
        ('date', ('{x}.date()', '{x}.replace(microsecond=0)', '{x}.year'), 'date-times on different days compare equal'),
        ('time', ('{x}.time()', '{x}.replace(microsecond=0)', '{x}.hour'), 'date-times at different times of day compare equal'),
    ],
    'Quantity': [
        ('unit', ('{x}.unit',), 'the cells 1 m and 1 kg compare equal'),
        ('value', ('{x}.value',), 'the cells 1 m and 2 m compare equal'),
    ],
    'Coordinate': [
        ('latitude', ('{x}.latitude',), 'coordinates on different latitudes compare equal'),
        ('longitude', ('{x}.longitude',), 'coordinates on different longitudes compare equal'),
    ],
}


def _approx_components(ctx, fn, v1, v2, branches):
    n = 0
    for st, facts in branches:
        kinds = set()
        for var, classes in facts:
            if var == v1:
                kinds |= set(classes)
        for kind in sorted(kinds & set(COMPONENTS)):
            if not isinstance(st, ast.Return) or st.value is None:
                ctx.error('C19.D3', '_approx_check: the %s branch does not end in one return expression' % kind)
                continue
            text = norm(st.value)
            for comp, forms, wit in COMPONENTS[kind]:
                n += 1
                ok1 = any(f.format(x=v1) in text for f in forms)
                ok2 = any(f.format(x=v2) in text for f in forms)
                where = '%s:%d' % (FG, st.lineno)
                if ok1 and ok2:
                    ctx.ob('C19.D3', '_approx_check[%s]: the %s of both cells enters the comparison' % (kind.split('.')[-1], comp),
                           True, where)
                else:
                    ctx.violation('C19.D3', '%s::Grid._approx_check' % FG, text[:200],
                                  'two grids differing only in a %s cell: %s' % (kind.split('.')[-1], wit),
                                  'the %s branch of _approx_check does not compare the %s of the two cells'
                                  % (kind.split('.')[-1], comp), file=FG, line=st.lineno, engine='E6')
    ctx.floor('_approx_check components compared', n, 7)


def _approx_symmetry(ctx, fn, v1, v2, body):
    """kinds tested on the left operand must be excluded on the right one too; booleans are not numbers;
    the tolerance comparison must be reflexive for NaN / INF"""
    tests = []
    for n in ast.walk(fn):
        if isinstance(n, ast.If):
            tests.append(n)
    left_kinds = set()
    for n in tests:
        for var, classes in _isinstance_facts(n.test):
            if var == v1:
                left_kinds |= set(classes) & SPECIAL
    sym = False
    for n in tests:
        facts = _isinstance_facts(n.test)
        if len(facts) == 1 and facts[0][0] == v2 and left_kinds <= set(facts[0][1]) \
                and [norm(x) for x in n.body] == ['return False']:
            sym = True
    where = '%s:%d' % (FG, fn.lineno)
    if not left_kinds:
        ctx.error('C19.D3', '_approx_check: kind branches on the left operand not recognised')
    elif sym:
        ctx.ob('C19.D3', 'kinds tested on the left operand (%s) are refused on the right operand when the left is none of '
                         'them: the comparison is symmetric across kinds' % ', '.join(sorted(left_kinds)), True, where)
    else:
        ctx.violation('C19.D3', '%s::Grid._approx_check' % FG, 'no branch `isinstance(%s, (%s))` -> False' % (v2, ', '.join(sorted(left_kinds))),
                      'grid with the cell 1 == grid with the cell Quantity(1, "m") is True, the reverse comparison is False: '
                      'only the left operand\'s kind is tested, and a Quantity on the right compares equal to a plain number '
                      'through its own __eq__', 'the kind tests of _approx_check are not mirrored for the right operand: '
                      'equality of grids is not symmetric', file=FG, line=fn.lineno, engine='E6')
    # booleans
    bool_branch = [n for n in tests if norm(n.test) in ('isinstance(%s, bool) or isinstance(%s, bool)' % (v1, v2),
                                                         'isinstance(%s, bool) or isinstance(%s, bool)' % (v2, v1))]
    if bool_branch and any('isinstance(%s, bool) and isinstance(%s, bool)' % (v1, v2) in norm(x) for x in bool_branch[0].body):
        ctx.ob('C19.D3', 'a boolean cell only equals a boolean cell', True, '%s:%d' % (FG, bool_branch[0].lineno))
        bt = ' '.join(norm(x) for x in bool_branch[0].body)
        if ('%s == %s' % (v1, v2) in bt or '%s == %s' % (v2, v1) in bt or '%s is %s' % (v1, v2) in bt) \
                and '%s != %s' % (v1, v2) not in bt and '%s != %s' % (v2, v1) not in bt:
            ctx.ob('C19.D3', 'two boolean cells are equal iff they hold the same truth value', True,
                   '%s:%d' % (FG, bool_branch[0].lineno))
        else:
            ctx.violation('C19.D3', '%s::Grid._approx_check' % FG, bt[:160],
                          'a grid with the cell True is unequal to its own faithful copy (and equal to one holding False): the '
                          'boolean branch does not end in `%s == %s`' % (v1, v2),
                          'the boolean branch of _approx_check does not compare the two truth values for equality', file=FG,
                          line=bool_branch[0].lineno, engine='E6')
    else:
        ctx.violation('C19.D3', '%s::Grid._approx_check' % FG, 'no boolean branch',
                      'grid with the cell True == grid with the cell 1 (a marker-like boolean equals a number: another kind)',
                      '_approx_check does not keep booleans apart from numbers', file=FG, line=fn.lineno, engine='E6')
    # ... and the boolean branch is the one a (bool, number) pair reaches: bool is an int, True == 1.0, so a numeric
    # branch placed before it answers "equal" for True vs 1.0
    if bool_branch:
        from .. import minieval
        foreign = {k: () for k in ('datetime.time', 'datetime.datetime', 'datetime.date', 'Quantity', 'Coordinate', 'XStr', 'Ref',
                                   'Uri', 'Bin', 'Grid', 'MarkerType', 'NAType', 'RemoveType')}
        chain = sorted([n for n in tests if getattr(n, '_parent', None) is fn or isinstance(getattr(n, '_parent', None), ast.If)
                        and n in getattr(n._parent, 'orelse', [])], key=lambda z: z._seq)
        for a_, b_ in ((True, 1.0), (1.0, True), (False, 0.0), (True, 1)):
            taken = None
            try:
                for n in chain:
                    if bool(minieval.ev(n.test, {v1: a_, v2: b_, '__types__': foreign})):
                        taken = n
                        break
            except minieval.Undecided as e:
                ctx.error('C19.D3', '_approx_check: branch test not decidable for a boolean operand (%s)' % e)
                break
            if taken is not None and taken is not bool_branch[0]:
                ctx.violation('C19.D3', '%s::Grid._approx_check' % FG, norm(taken.test),
                              'a grid with the cell %r against a grid with the cell %r (parse of `T` vs parse of `1`): the pair '
                              'reaches the branch `%s` before the boolean branch; there %r == %r holds, and the two grids compare '
                              'equal although the cells are of different kinds' % (a_, b_, norm(taken.test)[:60], a_, b_),
                              'the boolean branch of _approx_check is not the first branch a (bool, number) pair satisfies', file=FG,
                              line=taken.lineno, engine='E6')
                break
        else:
            ctx.ob('C19.D3', 'a (bool, number) pair reaches the boolean branch first (4 representative pairs)', True,
                   '%s:%d' % (FG, bool_branch[0].lineno))
    # the float branch: exact disjuncts plus one absolute tolerance of the documented size
    _float_branch(ctx, fn, v1, v2, tests)


TOL_LO, TOL_HI = 5e-07, 1e-06    # six decimals: a round-trip moves a float by up to 5e-7; 1e-6 is the documented bound


def _num(node):
    if isinstance(node, ast.Constant) and isinstance(node.value, (int, float)) and not isinstance(node.value, bool):
        return float(node.value)
    if isinstance(node, ast.UnaryOp) and isinstance(node.op, ast.USub):
        v = _num(node.operand)
        return None if v is None else -v
    return None


def _float_branch(ctx, fn, v1, v2, tests):
    con = '%s::Grid._approx_check' % FG
    pair = {v1, v2}
    br = [n for n in tests
          if any(isinstance(c, ast.Call) and norm(c.func) == 'isinstance' and len(c.args) == 2
                 and isinstance(c.args[0], ast.Name) and c.args[0].id in pair and norm(c.args[1]) == 'float'
                 for c in ast.walk(n.test))]
    if len(br) != 1:
        ctx.error('C19.D3', '_approx_check: float branch not recognised (%d candidates)' % len(br))
        return
    from ..model import view
    fb = view(br[0], 'flat').body        # early-exit spelling inside the branch
    rets = [n for n in fb if isinstance(n, ast.Return)]
    if len(rets) != 1 or fb[-1] is not rets[0]:
        ctx.error('C19.D3', '_approx_check: float branch does not end in one return')
        return
    ret = rets[0]
    val = ret.value
    # early exits of the branch (the not-a-number guard) must answer False
    for g_ in fb[:-1]:
        if isinstance(g_, ast.If) and g_.body and isinstance(g_.body[0], ast.Return):
            if norm(g_.body[0].value) == 'False':
                ctx.ob('C19.D3', 'float branch: `%s` answers False' % norm(g_.test)[:60], True, '%s:%d' % (FG, g_.lineno))
            else:
                ctx.violation('C19.D3', con, norm(g_)[:160],
                              'a grid with the cell 1.5 == a grid with the cell "text" is %s: the guard for a non-number operand '
                              'returns %s instead of False' % (norm(g_.body[0].value), norm(g_.body[0].value)),
                              'the not-a-number guard of the float branch does not answer False', file=FG, line=g_.lineno,
                              engine='E6')
        elif not (isinstance(g_, ast.Expr) and isinstance(g_.value, ast.Constant)):
            ctx.error('C19.D3', '_approx_check float branch: statement `%s` not recognised' % norm(g_)[:60])
    disj = val.values if isinstance(val, ast.BoolOp) and isinstance(val.op, ast.Or) else [val]
    kinds = []

    def is_pair(a, b):
        return isinstance(a, ast.Name) and isinstance(b, ast.Name) and {a.id, b.id} == pair

    for d in disj:
        k = None
        if isinstance(d, ast.Compare) and len(d.ops) == 1 and isinstance(d.ops[0], ast.Eq) and is_pair(d.left, d.comparators[0]):
            k = ('eq',)
        elif isinstance(d, ast.BoolOp) and isinstance(d.op, ast.And) and len(d.values) == 2:
            t = sorted(norm(x) for x in d.values)
            if t == sorted(['%s != %s' % (v1, v1), '%s != %s' % (v2, v2)]) or \
                    t == sorted(['math.isnan(%s)' % v1, 'math.isnan(%s)' % v2]) or \
                    t == sorted(['isnan(%s)' % v1, 'isnan(%s)' % v2]):
                k = ('nan',)
        elif isinstance(d, ast.Compare) and len(d.ops) == 1 and isinstance(d.ops[0], (ast.Lt, ast.LtE)) \
                and isinstance(d.left, ast.Call) and norm(d.left.func) == 'abs' and len(d.left.args) == 1 \
                and isinstance(d.left.args[0], ast.BinOp) and isinstance(d.left.args[0].op, ast.Sub) \
                and is_pair(d.left.args[0].left, d.left.args[0].right):
            c = _num(d.comparators[0])
            if c is None and any(isinstance(x, ast.Name) and x.id in pair for x in ast.walk(d.comparators[0])):
                k = ('abs', 0.0, 'operands')
            else:
                k = ('abs', c, 0.0)
        elif isinstance(d, ast.Call) and norm(d.func) in ('math.isclose', 'isclose') and len(d.args) == 2 \
                and is_pair(d.args[0], d.args[1]):
            kw = {x.arg: _num(x.value) for x in d.keywords}
            k = ('abs', kw.get('abs_tol', 0.0), kw.get('rel_tol', 1e-09))
            kinds.append(('eq',))       # isclose(a, a) is True for +-INF as well
        if k is None:
            ctx.error('C19.D3', '_approx_check float branch: disjunct `%s` is not an exact test nor a recognised tolerance '
                                'test; cannot decide' % norm(d)[:80])
            return
        kinds.append(k + (d,))
    kset = {k[0] for k in kinds}
    where = '%s:%d' % (FG, ret.lineno)
    if 'eq' in kset and 'nan' in kset:
        ctx.ob('C19.D3', 'the float comparison is reflexive for NaN and +-INF (exact disjuncts `==` and both-NaN)', True, where)
    else:
        ctx.violation('C19.D3', con, norm(ret),
                      'a grid holding NaN (or INF) is not equal to its own faithful copy: abs(x - x) < eps is False for '
                      'NaN and for INF - INF', 'the float tolerance test is not reflexive for non-finite numbers',
                      file=FG, line=ret.lineno, engine='E6')
    tols = [k for k in kinds if k[0] == 'abs']
    if not tols:
        ctx.violation('C19.D3', con, norm(ret),
                      'a grid with the cell 0.1234564 and its own JSON round-trip (0.123456) are unequal: floats are compared '
                      'exactly', 'the float branch has no tolerance test: a faithful six-decimal copy differs', file=FG,
                      line=ret.lineno, engine='E6')
        return
    for _, a, r, d in tols:
        if a is None or r is None:
            ctx.error('C19.D3', '_approx_check: tolerance of `%s` is not a constant' % norm(d)[:80])
            continue
        if r == 'operands':
            ctx.violation('C19.D3', con, norm(d),
                          'the bound `%s` grows with the cells compared: large cells that differ by far more than 1e-06 '
                          'compare equal (and != says False)' % norm(d.comparators[0])[:60],
                          'the float tolerance depends on the operands instead of being the documented absolute 1e-06',
                          file=FG, line=d.lineno, engine='E6')
        elif r != 0.0:
            big = 2.0 * TOL_HI / r
            ctx.violation('C19.D3', con, norm(d),
                          'grid with the cell %r == grid with the cell %r is True (and != False) although they differ by 1.0: '
                          'the comparison allows a relative error of %g, which exceeds the documented absolute tolerance '
                          'from about %g upwards' % (big, big + 1.0, r, TOL_HI / r),
                          'the float tolerance is relative (rel_tol=%g): large cells that differ materially compare equal' % r,
                          file=FG, line=d.lineno, engine='E6')
        elif not (TOL_LO <= a <= TOL_HI):
            if a > TOL_HI:
                ctx.violation('C19.D3', con, norm(d),
                              'grid with the cell 0.0 == grid with the cell %r is True although they differ beyond six decimals'
                              % (a * 0.9), 'the absolute tolerance %g exceeds the documented 1e-06' % a,
                              file=FG, line=d.lineno, engine='E6')
            else:
                ctx.violation('C19.D3', con, norm(d),
                              'a grid with the cell 0.1234564 is unequal to its own JSON round-trip (cell 0.123456): the two '
                              'differ by 4e-7', 'the absolute tolerance %g is below the six-decimal rounding error 5e-07' % a,
                              file=FG, line=d.lineno, engine='E6')
        else:
            ctx.ob('C19.D3', 'floats are compared with the absolute tolerance %g and no relative term (`%s`)'
                   % (a, norm(d)[:60]), True, '%s:%d' % (FG, d.lineno))


def _grid_eq(ctx, m):
    try:
        fn = m.func('grid', 'Grid.__eq__', 'flat')
    except AnalysisError as e:
        ctx.error('C19.D3', str(e))
        return
    a = [x.arg for x in fn.args.args]
    s, o = a
    text = norm(fn)
    where = '%s:%d' % (FG, fn.lineno)
    # loop variables by role (so that renaming them does not matter)
    import re as _re
    ren = {}

    def R(text):
        for k, v in ren.items():
            text = _re.sub(r'(?<![\w.])%s(?![\w])' % _re.escape(k), v, text)
        return text

    loops = sorted([n for n in ast.walk(fn) if isinstance(n, ast.For)], key=lambda n: (n.lineno, n.col_offset))
    for lp in loops:
        it = R(norm(lp.iter))
        if it in ('%s.metadata.keys()' % s, '%s.metadata' % s, 'list(%s.metadata.keys())' % s) and isinstance(lp.target, ast.Name):
            ren[lp.target.id] = 'key'
        elif it in ('%s.column.keys()' % s, '%s.column' % s, 'list(%s.column.keys())' % s) and isinstance(lp.target, ast.Name):
            ren[lp.target.id] = 'col'
        elif it in ('%s.column[col].keys()' % s, '%s.column[col]' % s) and isinstance(lp.target, ast.Name):
            ren[lp.target.id] = 'key'
        elif it == 'zip(%s, %s)' % (s, o) and isinstance(lp.target, ast.Tuple) and len(lp.target.elts) == 2 \
                and all(isinstance(e, ast.Name) for e in lp.target.elts):
            ren[lp.target.elts[0].id] = 'ref_row'
            ren[lp.target.elts[1].id] = 'parsed_row'
    lines = [R(norm(n)) for n in ast.walk(fn) if isinstance(n, (ast.If, ast.For, ast.Return))]
    tests = [R(norm(n.test)) for n in ast.walk(fn) if isinstance(n, ast.If)]
    fors = [(R(norm(n.target)), R(norm(n.iter))) for n in ast.walk(fn) if isinstance(n, ast.For)]
    calls = [R(norm(n)) for n in ast.walk(fn) if isinstance(n, ast.Call) and norm(n.func).endswith('_approx_check')]

    def has_test(*alts):
        return any(t in tests or any(t in x for x in tests) for t in alts)

    facts = [
        ('metadata key sets are compared',
         has_test('set(%s.metadata.keys()) != set(%s.metadata.keys())' % (s, o),
                  'set(%s.metadata.keys()) != set(%s.metadata.keys())' % (o, s)),
         'a grid with an extra metadata tag equals one without it'),
        ('every metadata value is compared',
         any(c.replace(' ', '') in ('Grid._approx_check(%s.metadata[key],%s.metadata[key])' % (s, o),
                                    'self._approx_check(%s.metadata[key],%s.metadata[key])' % (s, o)) for c in calls)
         and any(it in ('%s.metadata.keys()' % s, '%s.metadata' % s) for _, it in fors),
         'grids whose metadata values differ compare equal'),
        ('column key sets are compared',
         has_test('set(%s.column.keys()) != set(%s.column.keys())' % (s, o),
                  'set(%s.column.keys()) != set(%s.column.keys())' % (o, s)),
         'grids with different column names compare equal'),
        ('column metadata tag names are compared',
         has_test('set(%s.column[col].keys()) != set(%s.column[col].keys())' % (s, o),
                  'set(%s.column[col].keys()) != set(%s.column[col].keys())' % (o, s),
                  'set(%s.column[col]) != set(%s.column[col])' % (s, o))
         or (has_test('len(%s.column[col]) != len(%s.column[col])' % (s, o))
             and has_test('key not in %s.column[col]' % o)),
         'columns with the same number of metadata tags under different names: %s.column[col][key] raises KeyError instead of '
         'the comparison answering False (or, without any test, an extra tag on one side goes unnoticed)' % o),
        ('every column metadata value is compared',
         any('%s.column[col][key]' % s in c and '%s.column[col][key]' % o in c for c in calls),
         'grids whose column metadata values differ compare equal'),
        ('row counts are compared',
         has_test('len(%s) != len(%s)' % (s, o), 'len(%s) != len(%s)' % (o, s)),
         'a grid equals a grid with additional rows (zip() stops at the shorter one)'),
        ('every column of every row is compared',
         any('.get(col)' in c for c in calls) and any(it == 'zip(%s, %s)' % (s, o) for _, it in fors)
         and any(it in ('%s.column.keys()' % s, '%s.column' % s) for _, it in fors),
         'grids differing in one cell compare equal'),
    ]
    # rows and cells are compared through _approx_check only: plain `==` on rows/cells is not kind-aware (True == 1 == 1.0,
    # a Quantity equals its bare number, quantities of different units raise)
    for cmp_ in [x for x in ast.walk(fn) if isinstance(x, ast.Compare) and len(x.ops) == 1 and isinstance(x.ops[0], (ast.Eq, ast.NotEq))]:
        sides = [R(norm(cmp_.left)), R(norm(cmp_.comparators[0]))]
        rowish = [t_ for t_ in sides if t_ in ('ref_row', 'parsed_row') or t_.startswith(('ref_row.get(', 'parsed_row.get(', 'ref_row[', 'parsed_row['))
                  or '.metadata[' in t_ or ('.column[' in t_ and t_.count('[') >= 2)]
        if len(rowish) == 2:
            ctx.violation('C19.D3', '%s::Grid.__eq__' % FG, norm(cmp_),
                          'grids differing only in one cell, True vs 1 (or 1 vs Quantity(1, "kg")), compare EQUAL, and 1 kg vs 1 m '
                          'makes == raise TypeError: `%s` compares rows/cells with plain ==, which bypasses the kind-aware '
                          '_approx_check' % norm(cmp_),
                          'Grid.__eq__ compares rows or cells with plain == instead of _approx_check', file=FG, line=cmp_.lineno,
                          engine='E9')
    # skeleton recognisable?
    skeleton_ok = all(isinstance(st, (ast.If, ast.For, ast.Return, ast.Expr)) for st in body_wo_doc(fn))
    for desc, ok, wit in facts:
        if ok:
            ctx.ob('C19.D3', 'Grid.__eq__: %s' % desc, True, where)
        elif skeleton_ok:
            ctx.violation('C19.D3', '%s::Grid.__eq__' % FG, desc, wit,
                          'Grid.__eq__ no longer establishes that %s' % desc, file=FG, line=fn.lineno, engine='E9')
        else:
            ctx.error('C19.D3', 'Grid.__eq__ restructured; cannot establish that %s' % desc)
    # every `return False` guarded by a negative test, final return True
    body = body_wo_doc(fn)
    if body and isinstance(body[-1], ast.Return) and norm(body[-1].value) == 'True':
        ctx.ob('C19.D3', 'Grid.__eq__ ends with return True', True, where)
    else:
        ctx.violation('C19.D3', '%s::Grid.__eq__' % FG, norm(body[-1]) if body else '',
                      'a grid is unequal to its own faithful copy', 'Grid.__eq__ does not end with `return True`',
                      file=FG, line=fn.lineno, engine='E9')
    for node in ast.walk(fn):
        if isinstance(node, ast.If):
            rets = [x for x in node.body if isinstance(x, ast.Return)]
            for r in rets:
                if norm(r.value) != 'False':
                    ctx.violation('C19.D3', '%s::Grid.__eq__' % FG, norm(node),
                                  'grids that differ compare equal', 'a difference test returns %s' % norm(r.value),
                                  file=FG, line=node.lineno, engine='E9')
            t = node.test
            # a difference test must be negative: `!=` or `not ...`
            if rets:
                neg = _is_negative(t)
                if neg is False:
                    ctx.violation('C19.D3', '%s::Grid.__eq__' % FG, norm(node),
                                  'equal grids compare unequal / differing grids equal',
                                  'difference test `%s` is not a negative condition' % norm(t), file=FG,
                                  line=node.lineno, engine='E9')


def _is_negative(t):
    if isinstance(t, ast.UnaryOp) and isinstance(t.op, ast.Not):
        return True
    if isinstance(t, ast.Compare) and len(t.ops) == 1:
        return isinstance(t.ops[0], (ast.NotEq, ast.NotIn, ast.IsNot))
    if isinstance(t, ast.BoolOp):
        vals = [_is_negative(v) for v in t.values]
        if all(v is True for v in vals):
            return True
        if any(v is False for v in vals):
            return False
    return None
