"""C10 -- version gating: a 2.0 grid never carries 3.0-only data, in memory or on the wire."""
from __future__ import annotations

import ast

from .. import ppgrammar as G
from ..model import AnalysisError, body_wo_doc, norm, walk_no_nested
from . import _grid
from . import _zinc

META = {
    'level': 'other',
    'explanation': (
        'Static gate analysis.  (D1) coverage matrix: rows = the 3.0-only kinds {NA, list, dict, nested Grid, XStr}, '
        'columns = the gate sites {Grid._detect_or_validate, zincdumper.dump_scalar, jsondumper.dump_scalar (+dump_list/'
        'dump_dict), jsonparser.parse_embedded_scalar, the ZINC 2.0 scalar alternation}; a cell is discharged when the '
        'site\'s branch for that kind is dominated by a version test that refuses below 3.0 (for the grammar: the '
        'alternative is absent).  (D2) entry paths: every way a value can enter a grid (constructor metadata and '
        'columns, metadata stores, column stores, row insert/setitem/extend/append) passes through detect-or-validate '
        'before the store; the validating containers call their validator first; only __init__/_assert_version write '
        'the version.  (D3) gate agreement: every gate has the form norm(version) < VER_3_0 => refuse with the same '
        'normaliser (Version.nearest), operator and constant.  (D4) detect-or-validate logic: raise iff a version was '
        'given, otherwise upgrade.  Not decided: sequences of mutations as executions (covered inductively by D2+D4).'
        ' Also (D2): a derived grid whose rows are stored without validation (result._row = ...) is created with self.version / self._version.'
        ' Also (D1): no earlier branch of the JSON reader returns a list/dict (the empty ones included) before its version gate.  (D2) an own Grid.extend walks its argument once.'
        ' Also (D2): the validate callback of the ordered maps is never rebound or removed after construction (copy / pickle hooks).'
        " Round 9: (D1) Version.nearest is pure (one answer per version whatever was asked before); (D2) every column metadata object the constructor stores is one it built with this grid's validator."),
    'rule_text': 'obligations = 5 kinds x 5 sites, entry paths, gate comparisons, logic facts',
    'trusted_base': ['MutableMapping.update/setdefault reduce to __setitem__; MutableSequence.append/extend/+= reduce to insert'],
}

KINDS = ['NA', 'list', 'dict', 'Grid', 'XStr']
NORM = 'Version.nearest(version)'


def _gate(stmts):
    """First statement is `if N(version) < VER_3_0: raise ValueError` -> text of N(version), else None."""
    for st in stmts[:1]:
        if isinstance(st, ast.If) and isinstance(st.test, ast.Compare) and len(st.test.ops) == 1 \
                and st.body and isinstance(st.body[0], ast.Raise):
            exc = st.body[0].exc
            ename = norm(exc.func) if isinstance(exc, ast.Call) else norm(exc)
            op = st.test.ops[0]
            l, r = norm(st.test.left), norm(st.test.comparators[0])
            if isinstance(op, ast.Lt) and r == 'VER_3_0':
                return (l, '<', r, ename, st)
            if isinstance(op, ast.Gt) and l == 'VER_3_0':
                return (r, '<', l, ename, st)
            return (l, type(op).__name__, r, ename, st)
    return None


def _ladder(fn):
    """if/elif chain of a dump_scalar -> list of (test text, body)"""
    out = []
    top = [st for st in body_wo_doc(fn) if isinstance(st, ast.If)]
    node = top[0] if top else None
    while isinstance(node, ast.If):
        out.append((norm(node.test), node.body, node))
        if len(node.orelse) == 1 and isinstance(node.orelse[0], ast.If):
            node = node.orelse[0]
        else:
            out.append(('else', node.orelse, node))
            node = None
    return out


KIND_TESTS = {
    'NA': lambda p: ['%s is NA' % p],
    'list': lambda p: ['isinstance(%s, list)' % p],
    'dict': lambda p: ['isinstance(%s, dict)' % p],
    'Grid': lambda p: ['isinstance(%s, Grid)' % p],
    'XStr': lambda p: ['isinstance(%s, XStr)' % p],
}


def run(ctx):
    m = ctx.model
    gates = []     # (site, normaliser text, op, const, stmt node, file)
    _writer_site(ctx, m, 'zincdumper', gates)
    _writer_site(ctx, m, 'jsondumper', gates)
    _json_reader(ctx, m, gates)
    _grid_site(ctx, m, gates)
    _zinc_reader(ctx, m)
    _agreement(ctx, m, gates)
    from . import _zinc
    _zinc.version_threading(ctx, 'C10.D1', 'zincdumper')
    _zinc.version_threading(ctx, 'C10.D1', 'jsondumper')
    _entry_paths(ctx, m)
    from . import c18
    c18.nearest_pure(ctx, 'C10.D1')


def _writer_site(ctx, m, modname, gates):
    F = 'hszinc/%s.py' % modname
    try:
        fn = m.func(modname, 'dump_scalar', 'nested')
    except AnalysisError as e:
        ctx.error('C10.D1', str(e))
        return
    p = fn.args.args[0].arg
    lad = _ladder(fn)
    ctx.count('ladder branches (%s)' % modname, len(lad))
    for kind in KINDS:
        tests = KIND_TESTS[kind](p)
        hit = [(t, b, n) for t, b, n in lad if t in tests]
        if not hit:
            ctx.error('C10.D1', '%s.dump_scalar: no branch for %s' % (modname, kind))
            continue
        t, body, node = hit[0]
        g = _gate(body)
        via = ''
        if g is None:
            # delegated: return dump_x(scalar, version=version) whose body starts with the gate
            if len(body) == 1 and isinstance(body[0], ast.Return) and isinstance(body[0].value, ast.Call) \
                    and isinstance(body[0].value.func, ast.Name):
                callee = body[0].value.func.id
                try:
                    cf = m.func(modname, callee)
                    g = _gate(body_wo_doc(cf))
                    via = ' (in %s)' % callee
                except AnalysisError:
                    g = None
        if g is None:
            ctx.violation('C10.D1', '%s::dump_scalar' % F, 'elif %s:' % t,
                          'dump_scalar(<%s>, version="2.0") emits 3.0-only text instead of raising ValueError' % kind,
                          'the %s writer has no version gate for %s: its branch is not dominated by a test that refuses '
                          'below 3.0' % (modname, kind), file=F, line=node.lineno, engine='E1')
            continue
        l, op, r, ename, st = g
        if ename != 'ValueError':
            ctx.violation('C10.D1', '%s::dump_scalar' % F, norm(st).split('\n')[0],
                          'dump_scalar(<%s>, version="2.0") raises %s, not ValueError' % (kind, ename),
                          'the %s gate of %s refuses with %s' % (kind, modname, ename), file=F, line=st.lineno,
                          engine='E1')
        else:
            ctx.ob('C10.D1', '%s: %s is refused below 3.0%s' % (modname, kind, via), True, '%s:%d' % (F, st.lineno))
        gates.append(('%s:%s' % (modname, kind), l, op, r, st, F))
    # Remove spelling gate in the JSON writer takes part in the agreement
    if modname == 'jsondumper':
        for t, body, node in lad:
            if t == '%s is REMOVE' % p and body and isinstance(body[0], ast.If) and isinstance(body[0].test, ast.Compare):
                c = body[0].test
                gates.append(('jsondumper:REMOVE-spelling', norm(c.left), '<' if isinstance(c.ops[0], ast.Lt) else
                              type(c.ops[0]).__name__, norm(c.comparators[0]), body[0], F))


def _json_reader(ctx, m, gates):
    F = 'hszinc/jsonparser.py'
    try:
        fn = m.func('jsonparser', 'parse_embedded_scalar', 'flat')
    except AnalysisError as e:
        ctx.error('C10.D1', str(e))
        return
    p = fn.args.args[0].arg
    branches = []
    for node in walk_no_nested(fn):
        if isinstance(node, ast.If):
            branches.append((norm(node.test), node.body, node))
    want = {
        'list': ['isinstance(%s, list)' % p],
        'dict': ['isinstance(%s, dict)' % p],
        'NA': ['%s == NA_STR' % p, "%s == 'z:'" % p],
        'XStr': ["%s.startswith('x:')" % p],
    }
    for kind, tests in want.items():
        hit = [(t, b, n) for t, b, n in branches if t in tests]
        if not hit:
            ctx.error('C10.D1', 'jsonparser: no decode branch for %s' % kind)
            continue
        t, body, node = hit[0]
        # no earlier branch hands a value of this kind back before it reaches its gate (decision table of the earlier
        # tests over representatives of the kind, the empty container included)
        reps = {'list': ([], ['n:1']), 'dict': ({}, {'a': 'n:1'}), 'NA': ('z:',), 'XStr': ('x:hex:00',)}[kind]
        from .. import minieval
        for t0, b0, n0 in branches:
            if n0 is node or n0._seq > node._seq or getattr(n0, '_parent', None) is not fn:
                continue
            if not any(isinstance(x, ast.Return) for x in b0):
                continue
            for rep in reps:
                try:
                    taken = bool(minieval.ev(n0.test, {p: rep}))
                except minieval.Undecided:
                    taken = False
                if taken:
                    ctx.violation('C10.D1', '%s::parse_embedded_scalar' % F, 'if %s:' % t0,
                                  'hszinc.parse_scalar(%r, mode=MODE_JSON, version="2.0") returns the value instead of raising '
                                  'ValueError: the earlier branch `if %s` takes a %s (here %r) and returns before the version gate '
                                  'of the %s branch is reached -- the ZINC reader, Grid and the writers refuse the same value' %
                                  (rep, t0, kind, rep, kind),
                                  'an earlier branch of the JSON reader returns for a %s value before its version gate' % kind,
                                  file=F, line=n0.lineno, engine='E1')
                    break
        g = _gate(body)
        if g is None:
            spelling = {'list': '["n:1"]', 'dict': '{"a":"n:1"}', 'NA': '"z:"', 'XStr': '"x:hex:00"'}[kind]
            ctx.violation('C10.D1', '%s::parse_embedded_scalar' % F, 'if %s:' % t,
                          'a JSON grid with meta.ver "2.0" and a cell %s is accepted: the result is labelled 2.0 and '
                          'holds a %s' % (spelling, kind),
                          'the JSON reader has no version gate on its %s branch' % kind, file=F, line=node.lineno,
                          engine='E1')
            continue
        l, op, r, ename, st = g
        if ename != 'ValueError':
            ctx.violation('C10.D1', '%s::parse_embedded_scalar' % F, norm(st).split('\n')[0],
                          'rejection raises %s' % ename, 'the %s gate refuses with %s' % (kind, ename), file=F,
                          line=st.lineno, engine='E1')
        else:
            ctx.ob('C10.D1', 'jsonparser: %s is refused below 3.0' % kind, True, '%s:%d' % (F, st.lineno))
        gates.append(('jsonparser:%s' % kind, l, op, r, st, F))
    # nested grid is detected inside the (gated) dict branch
    dict_b = [b for t, b, n in branches if t == 'isinstance(%s, dict)' % p]
    if dict_b and any(isinstance(n, ast.Call) and norm(n.func) in ('parse_grid', '_parse_grid') for st in dict_b[0] for n in ast.walk(st)):
        ctx.ob('C10.D1', 'jsonparser: a nested grid is only recognised inside the gated dict branch', True)
    else:
        ctx.error('C10.D1', 'jsonparser: nested-grid detection not found inside the dict branch')
    # order: the gated list/dict branches come before any string method is applied (C05) -- not needed here


def _grid_site(ctx, m, gates):
    F = 'hszinc/grid.py'
    try:
        fn = m.func('grid', 'Grid._detect_or_validate')
    except AnalysisError as e:
        ctx.error('C10.D1', str(e))
        return
    v = fn.args.args[1].arg
    body = body_wo_doc(fn)
    if len(body) != 1 or not isinstance(body[0], ast.If):
        ctx.error('C10.D1', 'Grid._detect_or_validate: not a single if')
        return
    test = body[0].test
    parts = test.values if isinstance(test, ast.BoolOp) and isinstance(test.op, ast.Or) else [test]
    texts = {norm(p) for p in parts}
    covered = set()
    for kind in KINDS:
        if any(t in texts for t in KIND_TESTS[kind](v)):
            covered.add(kind)
    act = [norm(x) for x in body[0].body]
    if act != ['self._assert_version(VER_3_0)']:
        ctx.violation('C10.D1', '%s::Grid._detect_or_validate' % F, '; '.join(act),
                      'a 3.0-only value stored in a grid with explicit version 2.0 is not refused',
                      'the 3.0-only branch does %s instead of self._assert_version(VER_3_0)' % act, file=F,
                      line=fn.lineno, engine='E1')
    for kind in KINDS:
        if kind in covered:
            ctx.ob('C10.D1', 'Grid: %s triggers detect-or-validate' % kind, True, '%s:%d' % (F, fn.lineno))
        else:
            ctx.violation('C10.D1', '%s::Grid._detect_or_validate' % F, 'test for %s' % kind,
                          'Grid(version="2.0") accepts a %s cell; a grid without explicit version stays 2.0 after a %s '
                          'was stored' % (kind, kind),
                          'Grid._detect_or_validate does not recognise %s as a 3.0-only kind' % kind, file=F,
                          line=fn.lineno, engine='E1')
    # D4 logic
    try:
        av = m.func('grid', 'Grid._assert_version', 'nested')
    except AnalysisError as e:
        ctx.error('C10.D4', str(e))
        return
    ver = av.args.args[1].arg
    b = body_wo_doc(av)
    ok = False
    if len(b) == 1 and isinstance(b[0], ast.If) and isinstance(b[0].test, ast.Compare):
        c = b[0].test
        l, r = norm(c.left), norm(c.comparators[0])
        if isinstance(c.ops[0], ast.Lt) and r == ver and l in ('self.nearest_version', 'Version.nearest(self._version)',
                                                               'Version.nearest(self.version)'):
            inner = b[0].body
            if len(inner) == 1 and isinstance(inner[0], ast.If) and norm(inner[0].test) == 'self._version_given' \
                    and len(inner[0].body) == 1 and isinstance(inner[0].body[0], ast.Raise) \
                    and norm(inner[0].body[0].exc).startswith('ValueError') \
                    and [norm(x) for x in inner[0].orelse] == ['self._version = %s' % ver]:
                ok = True
            gates.append(('Grid:_assert_version', 'Version.nearest(version)' if l != 'self._version' else l, '<',
                          'VER_3_0', b[0], F))
        elif isinstance(c.ops[0], ast.Lt) and r == ver:
            gates.append(('Grid:_assert_version', l.replace('self._version', 'version').replace('self.version', 'version'),
                          '<', 'VER_3_0', b[0], F))
    if ok:
        ctx.ob('C10.D4', '_assert_version: below the required version -> ValueError if a version was given, otherwise '
                         'the grid upgrades itself', True, '%s:%d' % (F, av.lineno))
    else:
        ctx.violation('C10.D4', '%s::Grid._assert_version' % F, '\n'.join(norm(x) for x in b),
                      'Grid(version="2.0").append({"a": [1]}) is accepted, or Grid().append({"a": [1]}) does not report 3.0',
                      '_assert_version deviates from: if nearest(version) < required: raise if version_given else upgrade',
                      file=F, line=av.lineno, engine='E6')
    # version property: the grid's OWN version (the writers put it into the header)
    try:
        vp = m.func('grid', 'Grid.version')
        vrets = [norm(n.value) for n in walk_no_nested(vp) if isinstance(n, ast.Return)]
        if vrets == ['self._version']:
            ctx.ob('C10.D3', 'Grid.version is the version the grid was given / detected (self._version)', True, '%s:%d' % (F, vp.lineno))
        elif any('nearest' in r for r in vrets):
            ctx.violation('C10.D3', '%s::Grid.version' % F, '; '.join(vrets),
                          'Grid(version="2.5").version is 3.0: the JSON writer takes the header from grid.version, so a 2.5 grid is '
                          'written (and read back) as 3.0', 'Grid.version returns the nearest official version instead of the '
                          'grid\'s own', file=F, line=vp.lineno, engine='E9')
        else:
            ctx.error('C10.D3', 'Grid.version returns %s; cannot decide' % vrets)
    except AnalysisError:
        pass
    # nearest_version property
    try:
        nv = m.func('grid', 'Grid.nearest_version')
        rets = [norm(n.value) for n in walk_no_nested(nv) if isinstance(n, ast.Return)]
        if rets == ['Version.nearest(self._version)']:
            ctx.ob('C10.D3', 'Grid.nearest_version = Version.nearest(self._version)', True, '%s:%d' % (F, nv.lineno))
        else:
            ctx.violation('C10.D3', '%s::Grid.nearest_version' % F, '; '.join(rets),
                          'Grid(version="2.5") decides differently from the writers', 'nearest_version is %s' % rets,
                          file=F, line=nv.lineno, engine='E9')
    except AnalysisError:
        pass
    # version_given
    init = m.func('grid', 'Grid.__init__')
    texts = [norm(x) for x in walk_no_nested(init) if isinstance(x, ast.Assign)]
    from .. import match
    vparam = [a.arg for a in init.args.args][1] if len(init.args.args) > 1 else 'version'
    sc = match.Script(ctx, 'C10.D4', [init], F, '%s::Grid.__init__' % F, engine='E6')
    sc.seed('version', vparam)
    direct = any(norm(x) == 'self._version_given = %s is not None' % vparam for x in walk_no_nested(init) if isinstance(x, ast.Assign))
    if direct:
        ctx.ob('C10.D4', 'the "version was given" flag is `version is not None`, set in the constructor', True,
               '%s:%d' % (F, init.lineno))
    else:
        sc.need(['_R_given = _R_version is not None'], 'the "version was given" flag is `version is not None`',
                'Grid(version="2.0") upgrades silently / Grid() refuses 3.0 values',
                bad=['_R_given = _R_version is None', '_R_given = True', '_R_given = False', '_R_given = bool(_R_version)'])
        sc.need(['self._version_given = _R_given'], 'the flag is stored in the constructor',
                'Grid(version="2.0") upgrades silently / Grid() refuses 3.0 values')
    if any(t.endswith(' = VER_2_0') for t in texts):
        ctx.ob('C10.D4', 'a grid without explicit version starts at 2.0', True, '%s:%d' % (F, init.lineno))
    writers = []
    for node in ast.walk(m.cls('grid', 'Grid')):
        if isinstance(node, ast.Assign):
            for t in node.targets:
                if norm(t) in ('self._version', 'self._version_given'):
                    p = node
                    while p is not None and not isinstance(p, ast.FunctionDef):
                        p = getattr(p, '_parent', None)
                    writers.append(p.name if p is not None else '?')
    if set(writers) <= {'__init__', '_assert_version'}:
        ctx.ob('C10.D4', 'only __init__ and _assert_version write the version fields', True)
    else:
        ctx.violation('C10.D4', '%s::Grid' % F, 'writers of _version: %s' % sorted(set(writers)),
                      'the declared version changes outside detect-or-validate',
                      'unexpected writer(s) of the version fields: %s' % sorted(set(writers) - {'__init__', '_assert_version'}),
                      file=F, engine='E7')


def _zinc_reader(ctx, m):
    F = 'hszinc/zincparser.py'
    try:
        g = G.grammar_of(m, 'zincparser')
        s2 = g.get('hs_scalar_2_0')
    except AnalysisError as e:
        ctx.error('C10.D1', str(e))
        return
    kind, alts = G.alternatives(s2)
    ctx.count('hs_scalar_2_0 alternatives', len(alts))
    ctx.floor('hs_scalar_2_0 alternatives', len(alts), 12)
    built = {}
    for a in alts:
        for k in G.built_kinds(a):
            built.setdefault(k, a)
    fam = {'list': 'hs_list', 'dict': 'hs_dict', 'Grid': 'hs_inner_grid'}
    for k in KINDS:
        bad = None
        if k in built:
            bad = built[k]
        for a in alts:
            if fam.get(k) is not None and a.data.get('family') == fam.get(k):
                bad = a
            if k == 'Grid' and any(x.kind == 'Forward' and (x.label() or '').startswith('hs_grid') for x in G.walk(a)
                                   if x.id != a.id):
                bad = a
        if bad is not None:
            ctx.violation('C10.D1', '%s::hs_scalar_2_0' % F, bad.label(),
                          'a document with ver:"2.0" containing a %s cell parses to a grid labelled 2.0' % k,
                          'the 2.0 scalar alternation contains %s, which builds the 3.0-only kind %s' % (bad.label(), k),
                          file=F, line=bad.lineno, engine='E2')
        else:
            ctx.ob('C10.D1', 'ZINC 2.0 grammar: no scalar alternative builds %s' % k, True, '%s:%s' % (F, s2.lineno))
    # grammar selection by nearest version
    try:
        nm = m.func('zincparser', 'NearestMatch.__getitem__')
        vparam = nm.args.args[1].arg
        keys = []
        for n in walk_no_nested(nm):
            if isinstance(n, ast.Subscript) and norm(n.value) == 'self._known_grammars' and isinstance(n.ctx, ast.Load) \
                    and norm(n.slice) != vparam:
                keys.append(n)
        if len(keys) != 1:
            ctx.error('C10.D3', 'NearestMatch.__getitem__: %d fallback lookups in _known_grammars; cannot decide' % len(keys))
        else:
            src = _zinc.resolve_local(nm, norm(keys[0].slice), params=(vparam,))
            if src.isidentifier() and src != vparam:
                # assigned on several paths (an if/else pair): the key is whatever those paths assign
                defs = [norm(st.value) for st in ast.walk(nm) if isinstance(st, ast.Assign) and len(st.targets) == 1
                        and isinstance(st.targets[0], ast.Name) and st.targets[0].id == src]
                if defs and all(d == 'Version.nearest(%s)' % vparam for d in defs):
                    src = defs[0]
                elif defs and not any('nearest' in d for d in defs):
                    src = ' | '.join(defs)
            if src == 'Version.nearest(%s)' % vparam:
                ctx.ob('C10.D3', 'the ZINC grammar is selected by Version.nearest(version)', True, '%s:%d' % (F, nm.lineno))
            elif 'nearest' in src:
                ctx.error('C10.D3', 'NearestMatch.__getitem__ selects the grammar by `%s`; cannot decide' % src[:80])
            else:
                ctx.violation('C10.D3', '%s::NearestMatch.__getitem__' % F, norm(keys[0]),
                              'ver:"2.5" is parsed with a grammar chosen differently from the gates of Grid and the writers '
                              '(key `%s`)' % src[:80],
                              'the grammar for an unofficial version is not selected by Version.nearest', file=F,
                              line=keys[0].lineno, engine='E6')
    except AnalysisError as e:
        ctx.error('C10.D3', str(e))
    # the per-version tables map 2.0 -> *_2_0 and 3.0 -> *_3_0
    for fam_name in ('hs_scalar', 'hs_grid'):
        v = g.env.get(fam_name)
        if isinstance(v, G.NearestMap):
            ok = all(isinstance(n, G.GNode) and (n.var or '').endswith(k.replace('.', '_')) for k, n in v.mapping.items())
            if ok and set(v.mapping) == {'2.0', '3.0'}:
                ctx.ob('C10.D3', '%s maps 2.0/3.0 to the grammar of that version' % fam_name, True)
            else:
                ctx.violation('C10.D3', '%s::%s' % (F, fam_name), str({k: n.label() for k, n in v.mapping.items()}),
                              'ver:"2.0" documents are parsed with the 3.0 grammar (or vice versa)',
                              '%s does not map each official version to its own grammar' % fam_name, file=F, engine='E2')
        else:
            ctx.error('C10.D3', '%s is not a NearestMatch table' % fam_name)


def _agreement(ctx, m, gates):
    ctx.count('version gate comparisons', len(gates))
    ctx.floor('version gate comparisons', len(gates), 10)
    for site, l, op, r, st, F in gates:
        where = '%s:%d' % (F, st.lineno)
        if (l, op, r) == (NORM, '<', 'VER_3_0'):
            ctx.ob('C10.D3', 'gate %s: %s %s %s' % (site, l, op, r), True, where)
            continue
        if op != '<':
            wit = ('version "3.0": `%s %s %s` refuses (or accepts) exactly at the boundary where the other gates do the '
                   'opposite' % (l, op, r))
        elif l != NORM:
            wit = ('version "2.5" (nearest official version 3.0): Grid and the ZINC reader accept a list, this gate '
                   'compares %s and refuses -- a grid parsed from ver:"2.5" cannot be dumped' % l)
        else:
            wit = 'the gate compares against %s instead of VER_3_0' % r
        ctx.violation('C10.D3', '%s::%s' % (F, site), norm(st).split('\n')[0], wit,
                      'gate %s has the form `%s %s %s`; all gates must be `%s < VER_3_0`' % (site, l, op, r, NORM),
                      file=F, line=st.lineno, engine='E9')


def _entry_paths(ctx, m):
    F = 'hszinc/grid.py'
    init = m.func('grid', 'Grid.__init__')
    from .. import match
    sc = match.Script(ctx, 'C10.D2', [init], F, '%s::Grid.__init__' % F, engine='E7')
    sc.need(['self.metadata = MetadataObject(validate_fn=self._detect_or_validate)'],
            'grid metadata is a MetadataObject wired to detect-or-validate',
            'grid.metadata["x"] = [1] on a 2.0 grid is stored without refusal/upgrade',
            bad=['self.metadata = MetadataObject()', 'self.metadata = SortableDict()', 'self.metadata = {}'])
    sc.need(['_R_mo = MetadataObject(validate_fn=self._detect_or_validate)'],
            'constructor column metadata objects are wired to detect-or-validate',
            'Grid(version="2.0", columns={"a": {"x": [1]}}) is accepted', bad=['_R_mo = MetadataObject()'])
    sc.need(['_R_mo.extend(_R_colmeta)', '_R_mo.update(_R_colmeta)'],
            'constructor column metadata is stored through the validating extend()',
            'Grid(version="2.0", columns={"a": {"x": NA}}) is accepted')
    sc.need(['self.column.add_item(_R_colid, _R_mo)', 'self.column[_R_colid] = _R_mo'],
            'the validated column metadata object is what is stored for the column',
            'Grid(version="2.0", columns={"a": {"x": NA}}) stores the unvalidated metadata')
    sc.need(['self.metadata.update(_R_metadata.items())', 'self.metadata.extend(_R_metadata)',
             'self.metadata.extend(_R_metadata.items())', 'self.metadata.update(_R_metadata)'],
            'constructor metadata is stored through the validating container',
            'Grid(version="2.0", metadata={"x": [1]}) is accepted')
    # every object the constructor stores as column metadata is one it built itself, bound to THIS grid's validator
    slf = init.args.args[0].arg
    stores = []
    for n in walk_no_nested(init):
        if isinstance(n, ast.Call) and norm(n.func) in ('%s.column.add_item' % slf, '%s.column.__setitem__' % slf) and len(n.args) >= 2:
            stores.append((n, n.args[1]))
        elif isinstance(n, ast.Assign) and len(n.targets) == 1 and isinstance(n.targets[0], ast.Subscript) \
                and norm(n.targets[0].value) == '%s.column' % slf:
            stores.append((n, n.value))
    own_ctor = ('MetadataObject(validate_fn=%s._detect_or_validate)' % slf,)
    for n, val in stores:
        srcs = [val]
        if isinstance(val, ast.Name):
            srcs = [a.value for a in walk_no_nested(init) if isinstance(a, ast.Assign) and len(a.targets) == 1
                    and norm(a.targets[0]) == val.id]
            if any(isinstance(x, (ast.For, ast.comprehension)) and val.id in [y.id for y in ast.walk(x.target) if isinstance(y, ast.Name)]
                   for x in ast.walk(init)):
                srcs.append(None)       # also bound by a loop: an object of the caller
        if srcs and all(x is not None and norm(x) in own_ctor for x in srcs):
            ctx.ob('C10.D2', 'the column metadata stored by `%s` is a MetadataObject the constructor built with this grid\'s '
                             'validator' % norm(n)[:60], True, '%s:%d' % (F, n.lineno))
        else:
            ctx.violation('C10.D2', '%s::Grid.__init__' % F, norm(n),
                          'g = Grid(columns=["a"]); g.append({"a": 1}); s = g[0:1] (a slice of an unversioned grid has the explicit '
                          'version 2.0); s.column["a"]["x"] = [1, 2] is accepted and the PARENT g turns 3.0, while s still says 2.0 '
                          'and now carries a list; with an explicit 2.0 parent and Grid(columns=parent.column) the store is refused '
                          'instead of upgrading the new grid',
                          'the constructor stores a column metadata object it was given (`%s`): its validator stays bound to the grid '
                          'it came from, so later stores are checked against another grid\'s version' % norm(val)[:40],
                          file=F, line=n.lineno, engine='E7')
    ok_col = sc.need(['self.column = SortableDict(validate_fn=self._validate_column)'],
                     'the column map validates what is stored into it',
                     'g = Grid(version="2.0"); g.column["a"] = {"x": [1, 2]} is accepted: a 2.0 grid carries a list '
                     '(this is also the path the JSON reader uses for column metadata)',
                     bad=['self.column = SortableDict()', 'self.column = {}']) is not None
    if ok_col:
        try:
            vc = m.func('grid', 'Grid._validate_column')
            loops = [n for n in walk_no_nested(vc) if isinstance(n, ast.For)]
            p = vc.args.args[1].arg
            good = any(norm(lp.iter) == '%s.values()' % p and [norm(b) for b in lp.body] ==
                       ['self._detect_or_validate(%s)' % norm(lp.target)] for lp in loops)
            # the loop must run for plain dicts AND for SortableDict/MetadataObject: its guard is a disjunction of isinstance
            # tests (or absent)
            guard_bad = None
            for lp in loops:
                par = getattr(lp, '_parent', None)
                if isinstance(par, ast.If) and lp in par.body:
                    t = par.test
                    classes = set()
                    okshape = True
                    if isinstance(t, ast.BoolOp) and isinstance(t.op, ast.Or):
                        parts = t.values
                    elif isinstance(t, ast.BoolOp):
                        parts = []
                        okshape = False
                    else:
                        parts = [t]
                    for q in parts:
                        if isinstance(q, ast.Call) and norm(q.func) == 'isinstance' and norm(q.args[0]) == p:
                            c_ = q.args[1]
                            classes |= {norm(e) for e in c_.elts} if isinstance(c_, ast.Tuple) else {norm(c_)}
                        else:
                            okshape = False
                    if not okshape or not {'dict', 'SortableDict'} <= classes:
                        guard_bad = par
            if good and guard_bad is not None:
                ctx.violation('C10.D2', '%s::Grid._validate_column' % F, norm(guard_bad.test),
                              'g = Grid(version="2.0"); g.column["a"] = {"x": [1, 2]} is accepted: the validation loop only runs '
                              'when `%s`, which a plain dict (or a SortableDict) does not satisfy' % norm(guard_bad.test),
                              '_validate_column skips the column metadata of some mapping kinds', file=F, line=guard_bad.lineno,
                              engine='E7')
            elif good:
                ctx.ob('C10.D2', '_validate_column checks every value of the stored column metadata', True,
                       '%s:%d' % (F, vc.lineno))
            else:
                ctx.violation('C10.D2', '%s::Grid._validate_column' % F, norm(vc),
                              'g.column["a"] = {"x": [1]} on a 2.0 grid is accepted',
                              '_validate_column does not pass every value to _detect_or_validate', file=F,
                              line=vc.lineno, engine='E7')
        except AnalysisError as e:
            ctx.error('C10.D2', str(e))
    # validating containers call the validator first
    sd = m.methods('sortabledict', 'SortableDict')
    ai = sd.get('add_item')
    if ai is not None:
        b = body_wo_doc(ai)
        first = b[0] if b else None
        s = ai.args.args[0].arg
        val = ai.args.args[2].arg
        if isinstance(first, ast.If) and norm(first.test) == '%s._validate_fn' % s and \
                [norm(x) for x in first.body] == ['%s._validate_fn(%s)' % (s, val)]:
            ctx.ob('C10.D2', 'SortableDict.add_item calls the validator on the value before anything else', True,
                   'hszinc/sortabledict.py:%d' % ai.lineno)
        else:
            ctx.violation('C10.D2', 'hszinc/sortabledict.py::SortableDict.add_item', norm(first) if first is not None else '',
                          'grid.metadata["x"] = NA on a 2.0 grid is stored without the version check',
                          'add_item does not start with `if self._validate_fn: self._validate_fn(value)`',
                          file='hszinc/sortabledict.py', line=ai.lineno, engine='E6')
    init_sd = sd.get('__init__')
    if init_sd is not None and 'self._validate_fn = validate_fn' in [norm(x) for x in walk_no_nested(init_sd)
                                                                      if isinstance(x, ast.Assign)]:
        ctx.ob('C10.D2', 'SortableDict keeps the validator it was given', True)
    else:
        ctx.violation('C10.D2', 'hszinc/sortabledict.py::SortableDict.__init__', 'self._validate_fn = validate_fn',
                      'the validator passed by Grid is dropped', 'SortableDict.__init__ does not store validate_fn',
                      file='hszinc/sortabledict.py', engine='E7')
    # ... and nothing takes it away later: a copy / pickle hook that clears it hands out containers that accept anything
    # (copy.deepcopy(grid) copies metadata and columns through these hooks)
    lost = []
    for cname_, meths_ in (('SortableDict', sd), ('MetadataObject', m.methods('metadata', 'MetadataObject'))):
        for mname_, fn_ in sorted(meths_.items()):
            if mname_ == '__init__':
                continue
            for n_ in ast.walk(fn_):
                if isinstance(n_, ast.Assign):
                    for t_ in n_.targets:
                        if (isinstance(t_, ast.Attribute) and t_.attr == '_validate_fn') or (
                                isinstance(t_, ast.Subscript) and isinstance(t_.slice, ast.Constant) and t_.slice.value == '_validate_fn'):
                            lost.append((cname_, mname_, n_))
                if isinstance(n_, ast.Call) and isinstance(n_.func, ast.Attribute) and n_.func.attr == 'pop' and n_.args \
                        and isinstance(n_.args[0], ast.Constant) and n_.args[0].value == '_validate_fn':
                    lost.append((cname_, mname_, n_))
    if lost:
        cname_, mname_, n_ = lost[0]
        ctx.violation('C10.D2', 'hszinc/%s.py::%s.%s' % ('sortabledict' if cname_ == 'SortableDict' else 'metadata', cname_, mname_),
                      norm(n_),
                      'g = Grid(version="2.0"); c = copy.deepcopy(g) (or pickle round trip); c.metadata["x"] = NA is accepted: the '
                      'copy of the metadata / column containers went through %s.%s, which drops the validate callback -- the copy '
                      'holds 3.0-only values under a 2.0 label, and a copy of an unversioned grid never upgrades' % (cname_, mname_),
                      '%s.%s rebinds / removes _validate_fn after construction' % (cname_, mname_),
                      file='hszinc/%s.py' % ('sortabledict' if cname_ == 'SortableDict' else 'metadata'), line=n_.lineno, engine='E7')
    else:
        ctx.ob('C10.D2', 'the validate callback of a container is set once, in __init__, and never rebound or removed', True)
    si = sd.get('__setitem__')
    if si is not None and any(isinstance(n, ast.Call) and norm(n.func) == 'self.add_item' for n in ast.walk(si)):
        ctx.ob('C10.D2', 'SortableDict.__setitem__ stores through add_item', True)
    else:
        ctx.violation('C10.D2', 'hszinc/sortabledict.py::SortableDict.__setitem__', norm(si) if si else '',
                      'm[k] = v bypasses the validator', '__setitem__ does not go through add_item',
                      file='hszinc/sortabledict.py', engine='E7')
    over = [x for x in ('update', 'setdefault') if x in sd]
    mo = m.methods('metadata', 'MetadataObject')
    over += [x for x in ('update', 'setdefault', '__setitem__', 'add_item') if x in mo]
    if over:
        ctx.error('C10.D2', 'validating containers override %s; entry paths not analysed' % over)
    else:
        ctx.ob('C10.D2', 'update/setdefault are the MutableMapping mixins (reduce to __setitem__)', True)
    # rows
    meths = _grid.grid_methods(ctx)
    _grid.refuse_before_write(ctx, meths, 'C10.D2')
    _grid.extend_own(ctx, meths, 'C10.D2', want=('validate',))
    # the validating containers of a grid are created in its own __init__ and never swapped for another grid's
    foreign = []
    for node in ast.walk(m.mod('grid').tree):
        if isinstance(node, ast.Assign):
            for t in node.targets:
                if isinstance(t, ast.Attribute) and t.attr in ('metadata', 'column'):
                    fn_ = node
                    while fn_ is not None and not isinstance(fn_, ast.FunctionDef):
                        fn_ = getattr(fn_, '_parent', None)
                    if fn_ is None or fn_.name != '__init__':
                        foreign.append((node, fn_))
    if foreign:
        node, fn_ = foreign[0]
        ctx.violation('C10.D2', 'hszinc/grid.py::Grid.%s' % (fn_.name if fn_ is not None else '?'), norm(node),
                      'g = Grid() (unversioned, still 2.0); s = g[0:1]; s.metadata["x"] = NA: the slice adopted the parent\'s metadata '
                      'container, whose validator is bound to the PARENT -- the parent upgrades to 3.0 while the slice keeps reporting '
                      '2.0 and holds the value (an explicit 2.0 slice would not refuse it either)',
                      'a grid\'s metadata/column container is replaced by another grid\'s (`%s`): its validate callback belongs to '
                      'the other grid' % norm(node), file='hszinc/grid.py', line=node.lineno, engine='E7')
    else:
        ctx.ob('C10.D2', 'metadata and column containers are only created in Grid.__init__, bound to the grid\'s own validator', True,
               'hszinc/grid.py')
    # a derived grid that is handed rows WITHOUT validation (result._row = ...) never re-detects: it must be created
    # with the version the parent has reached (self.version / self._version), not with the version the parent was given
    gm = m.methods('grid', 'Grid')
    n_derived = 0
    for name, fn_ in sorted(gm.items()):
        for st in walk_no_nested(fn_):
            if not (isinstance(st, ast.Assign) and len(st.targets) == 1 and isinstance(st.targets[0], ast.Name)
                    and isinstance(st.value, ast.Call)):
                continue
            rn = st.targets[0].id
            ctor = None
            if norm(st.value.func) == 'Grid':
                ctor = st.value
            elif isinstance(st.value.func, ast.Attribute) and norm(st.value.func.value) == 'self' and st.value.func.attr in gm \
                    and not st.value.args and not st.value.keywords:
                rets = [r.value for r in walk_no_nested(gm[st.value.func.attr]) if isinstance(r, ast.Return) and r.value is not None]
                if len(rets) == 1 and isinstance(rets[0], ast.Call) and norm(rets[0].func) == 'Grid':
                    ctor = rets[0]
            if ctor is None:
                continue
            raw = [x for x in walk_no_nested(fn_) if isinstance(x, ast.Assign) and any(norm(t) == '%s._row' % rn for t in x.targets)]
            if not raw:
                continue
            n_derived += 1
            kw = {kk.arg: norm(kk.value) for kk in ctor.keywords}
            ver = kw.get('version', norm(ctor.args[0]) if ctor.args else None)
            if ver in ('self.version', 'self._version'):
                ctx.ob('C10.D2', 'Grid.%s: the grid that receives rows unvalidated (`%s`) is created with the parent\'s current version'
                       % (name, norm(raw[0])), True, '%s:%d' % (F, st.lineno))
            else:
                ctx.violation('C10.D2', '%s::Grid.%s' % (F, name), norm(ctor),
                              'g = Grid(); g.append({"v": NA}) (g now reports 3.0); g[0:1] is created with version `%s` and its rows are '
                              'stored with `%s`, without detection: the slice reports 2.0 while holding the 3.0-only value' % (ver, norm(raw[0])),
                              'a derived grid whose rows bypass validation is not created with self.version', file=F, line=st.lineno,
                              engine='E7')
    ctx.count('derived grids filled without validation', n_derived)
    for name in ('insert', '__setitem__'):
        if ctx.facts.get('validates:%s' % name):
            ctx.ob('C10.D2', 'Grid.%s validates every value of the row before storing it' % name, True)
        else:
            ctx.violation('C10.D2', '%s::Grid.%s' % (F, name), 'for val in value.values(): self._detect_or_validate(val)',
                          'Grid(version="2.0").%s(…{"a": [1]}) is accepted' % name,
                          'Grid.%s does not pass every value of the row to _detect_or_validate before the store' % name,
                          file=F, line=meths[name].lineno if name in meths else None, engine='E6')
    # readers build grids only through the validating API
    for modname, fname in (('jsonparser', 'parse_grid'), ('zincparser', '_gen_grid')):
        try:
            fn = m.func(modname, fname)
        except AnalysisError as e:
            ctx.error('C10.D2', str(e))
            continue
        bad = [norm(n) for n in ast.walk(fn) if isinstance(n, ast.Attribute) and n.attr.startswith('_')
               and n.attr in ('_row', '_index', '_version', '_values', '_order')]
        if bad:
            ctx.violation('C10.D2', 'hszinc/%s.py::%s' % (modname, fname), bad[0],
                          'the reader writes grid internals directly, bypassing validation',
                          '%s touches private fields %s' % (fname, bad), file='hszinc/%s.py' % modname, line=fn.lineno,
                          engine='E7')
        else:
            ctx.ob('C10.D2', '%s.%s builds the grid through the public (validating) API only' % (modname, fname), True)
