"""A reference's display string is optional, and the EMPTY display string is a display string: Ref('a', '') is written
`@a ""` / "r:a " and must come back with has_value and value ''.  Three places decide presence and each must decide it
by `is None` / token count, never by truthiness:

  (A) Ref.__init__: has_value is true whenever a value other than None is given (decision table over value in
      {None, '', 'x'} x has_value in {False, True});
  (B) jsonparser: the display group of REF_RE may match the empty text (its minimum width is 0), so the branch that
      builds the Ref with a display string must be chosen by `group is not None`;
  (C) zincparser: the hs_ref action takes the display token when there IS a second token (len(toks) > 1)."""
from __future__ import annotations

import ast
import re

from ..model import AnalysisError, norm, walk_no_nested, body_wo_doc
from .. import minieval

FD = 'hszinc/datatypes.py'
FJ = 'hszinc/jsonparser.py'
FZ = 'hszinc/zincparser.py'

LOST = "Ref('a', '') -- a reference whose display string is empty, ZINC `@a \"\"`, JSON \"r:a \" -- "


def ref_init(ctx, rule):
    m = ctx.model
    try:
        fn = m.func('datatypes', 'Ref.__init__')
    except AnalysisError as e:
        ctx.error(rule, str(e))
        return
    a = [x.arg for x in fn.args.args]
    if len(a) != 4:
        ctx.error(rule, 'Ref.__init__ signature changed: %s' % a)
        return
    s_, _, v_, h_ = a
    stores = [st for st in walk_no_nested(fn) if isinstance(st, ast.Assign) and any(norm(t) == '%s.has_value' % s_ for t in st.targets)]
    straight = all(isinstance(x, ast.Assign) or (isinstance(x, ast.Expr) and isinstance(x.value, ast.Constant))
                   for x in body_wo_doc(fn))
    if len(stores) != 1 or not straight:
        ctx.error(rule, 'Ref.__init__: has_value is not set by one plain assignment; cannot decide')
        return
    st = stores[0]
    # earlier rebinding of the two parameters would change what the expression reads
    if any(isinstance(x, ast.Assign) and any(isinstance(t, ast.Name) and t.id in (v_, h_) for t in x.targets) for x in walk_no_nested(fn)):
        ctx.error(rule, 'Ref.__init__ rebinds its parameters; cannot decide')
        return
    try:
        tab = [((v, h), minieval.ev(st.value, {v_: v, h_: h, s_: {'value': v, 'name': 'a'}}))
               for v in (None, '', 'x') for h in (False, True)]
    except minieval.Undecided as e:
        ctx.error(rule, 'Ref.__init__: has_value = `%s` not decidable (%s)' % (norm(st.value)[:60], e))
        return
    bad = [(c, r) for c, r in tab if bool(r) != (c[1] or c[0] is not None)]
    where = '%s:%d' % (FD, st.lineno)
    if not bad:
        ctx.ob(rule, 'Ref.__init__: has_value is true exactly when it was asked for or a value other than None was given '
                     '(6 cases, the empty display string included)', True, where)
        return
    (v, h), r = bad[0]
    ctx.violation(rule, '%s::Ref.__init__' % FD, norm(st),
                  (LOST + 'gets has_value=%r: both writers branch on has_value and write the bare reference, which reads back '
                   'as Ref(\'a\') with value None -- the display string is lost' % bool(r)) if v == '' else
                  'Ref(\'a\', %r, has_value=%r) gets has_value=%r' % (v, h, bool(r)),
                  '`%s` decides presence of the display string by truthiness, not by `is not None` (%d of 6 cases differ)'
                  % (norm(st.value), len(bad)), file=FD, line=st.lineno, engine='E7')


def json_ref_branch(ctx, rule):
    m = ctx.model
    from .c17 import _guards
    try:
        fn = m.func('jsonparser', 'parse_embedded_scalar', 'nested')
        rx = m.const('jsonparser', 'REF_RE')
    except AnalysisError as e:
        ctx.error(rule, str(e))
        return
    rets = [r for r in ast.walk(fn) if isinstance(r, ast.Return) and isinstance(r.value, ast.Call) and norm(r.value.func) == 'Ref'
            and (len(r.value.args) > 1 or any(k.arg == 'value' for k in r.value.keywords))]
    if len(rets) != 1:
        ctx.error(rule, 'reference branch: %d returns of a Ref with a display string; cannot decide' % len(rets))
        return
    r = rets[0]
    disp = r.value.args[1] if len(r.value.args) > 1 else next(k.value for k in r.value.keywords if k.arg == 'value')
    dt = norm(disp)
    # the group that is read: matched[-1] / matched[1] / match.group(n)
    try:
        import re._parser as sre
    except ImportError:                      # pragma: no cover
        import sre_parse as sre
    try:
        parsed = sre.parse(rx.pattern, rx.flags)
        ngroups = parsed.state.groups - 1
    except Exception as e:
        ctx.error(rule, 'REF_RE not parsed: %s' % e)
        return
    mo = re.match(r'^\w+\[(-?\d+)\]$', dt) or re.match(r'^\w+\.group\((\d+)\)$', dt)
    if not mo:
        ctx.error(rule, 'reference branch: display argument `%s` is not a capture group; cannot decide' % dt[:40])
        return
    idx = int(mo.group(1))
    gi = idx if '.group(' in dt else (idx + 1 if idx >= 0 else ngroups + 1 + idx)

    def width(gid):
        def find(sub):
            for op, av in sub:
                if op is sre.SUBPATTERN and av[0] == gid:
                    return av[3].getwidth()[0]
                for child in _subs(op, av, sre):
                    w = find(child)
                    if w is not None:
                        return w
            return None
        return find(parsed)
    w = width(gi)
    if w is None:
        ctx.error(rule, 'REF_RE: group %d not found' % gi)
        return
    gs = [(norm(t), pol) for t, pol in _guards(fn, r)]
    gs = [(t, pol) for t, pol in gs if dt in t]
    if not gs:
        ctx.error(rule, 'reference branch: the Ref-with-display return is not guarded by its group; cannot decide')
        return
    t, pol = gs[0]
    where = '%s:%d' % (FJ, r.lineno)
    exact = (t == '%s is not None' % dt and pol) or (t == '%s is None' % dt and not pol)
    truthy = (t in (dt, 'bool(%s)' % dt, 'len(%s) > 0' % dt, '%s != \'\'' % dt) and pol) or (t in ('not %s' % dt,) and not pol)
    if exact:
        ctx.ob(rule, 'a Ref with display string is built exactly when the display group took part in the match (`%s`); the '
                     'group can match the empty text (minimum width %d)' % (t, w), True, where)
    elif truthy and w == 0:
        ctx.violation(rule, '%s::parse_embedded_scalar' % FJ, '%sif %s' % ('' if pol else 'else of ', t),
                      LOST + 'is read from "r:a " as Ref(\'a\') with value None: the display group matched the empty text, which '
                      'the truthiness test `%s` takes for "no display string"' % t,
                      'the reference branch decides presence of the display string by the truthiness of `%s`; the group can '
                      'match the empty text, so presence must be `is not None`' % dt, file=FJ, line=r.lineno, engine='E3')
    elif truthy:
        ctx.ob(rule, 'the display group cannot match the empty text (minimum width %d): truthiness and presence agree' % w, True, where)
    else:
        ctx.error(rule, 'reference branch: guard `%s` not tabled; cannot decide' % t[:60])


def _subs(op, av, sre):
    if op is sre.SUBPATTERN:
        return [av[3]]
    if op is sre.BRANCH:
        return list(av[1])
    if op in (sre.MAX_REPEAT, sre.MIN_REPEAT) or str(op) == 'POSSESSIVE_REPEAT':
        return [av[2]]
    if str(op) in ('ATOMIC_GROUP',):
        return [av]
    if op in (sre.ASSERT, sre.ASSERT_NOT):
        return [av[1]]
    return []


def zinc_ref_action(ctx, rule):
    """hs_ref's action: the display argument of Ref(...) is the second token, present by token COUNT"""
    m = ctx.model
    mod = m.mod('zincparser')
    hits = []
    for n in ast.walk(mod.tree):
        if isinstance(n, ast.Lambda):
            for c in ast.walk(n.body):
                if isinstance(c, ast.Call) and norm(c.func) == 'Ref':
                    hits.append((n, c))
    if not hits:
        ctx.error(rule, 'hs_ref action building a Ref not found in zincparser')
        return
    for lam, c in hits:
        tk = lam.args.args[0].arg if lam.args.args else 'toks'
        if len(c.args) < 2:
            continue
        d = c.args[1]
        where = '%s:%d' % (FZ, c.lineno)
        if isinstance(d, ast.IfExp):
            t = norm(d.test)
            by_count = t in ('len(%s) > 1' % tk, 'len(%s) >= 2' % tk, 'len(%s) == 2' % tk)
            if by_count and norm(d.body) == '%s[1]' % tk and norm(d.orelse) == 'None':
                ctx.ob(rule, 'hs_ref: the display string is the second token when there is one (`%s`)' % t, True, where)
            elif '%s[1]' % tk in [norm(v) for v in (d.test.values if isinstance(d.test, ast.BoolOp) else [d.test])] \
                    or t in ('%s[1:]' % tk,) and False:
                ctx.violation(rule, '%s::hs_ref' % FZ, norm(c),
                              LOST + 'is read from `@a ""` as Ref(\'a\') with value None: the empty display token is falsy',
                              'the hs_ref action decides presence of the display token by its truthiness (`%s`)' % t,
                              file=FZ, line=c.lineno, engine='E7')
            else:
                ctx.error(rule, 'hs_ref action: display argument `%s` not tabled; cannot decide' % norm(d)[:60])
        elif isinstance(d, ast.BoolOp) and any(norm(x) == '%s[1]' % tk for v in d.values for x in ast.walk(v)):
            ctx.violation(rule, '%s::hs_ref' % FZ, norm(c),
                          LOST + 'is read from `@a ""` as Ref(\'a\') with value None: `%s` turns the empty display token into '
                          'the alternative' % norm(d),
                          'the hs_ref action passes the display token through and/or, which tests its truthiness', file=FZ,
                          line=c.lineno, engine='E7')
        else:
            ctx.error(rule, 'hs_ref action: display argument `%s` not tabled; cannot decide' % norm(d)[:60])
