"""Shared JSON-side machinery (C02, C05, C06, C08.D2): the reader's decode cascade extracted from
jsonparser.parse_embedded_scalar, writer templates with payload markers, spec spellings."""
from __future__ import annotations

import ast

from .. import lang as L
from .. import ppgrammar as G
from .. import spec as S
from .. import templates as TP
from ..lang import Unsupported
from ..model import AnalysisError, Opaque, RegexConst, body_wo_doc, live_body, norm, walk_no_nested

FJ = 'hszinc/jsonparser.py'
FD = 'hszinc/jsondumper.py'

READ_AS = dict((k, v) for k, v in {
    'None': 'None', 'NA': 'NA', 'MARKER': 'MARKER', 'REMOVE': 'REMOVE', 'bool': 'bool', 'int': 'float', 'float': 'float',
    'str': 'str', 'Uri': 'Uri', 'Bin': 'Bin', 'XStr': 'XStr', 'Ref': 'Ref', 'Ref+dis': 'Ref', 'Coordinate': 'Coordinate',
    'Quantity': 'Quantity', 'Quantity-nounit': 'float', 'date': 'date', 'time': 'time', 'datetime': 'datetime',
    'list': 'list', 'dict': 'dict', 'Grid': 'Grid'}.items())
TEXT_PAYLOAD_KINDS = {'Ref+dis', 'Uri', 'Bin', 'Quantity', 'XStr', 'str', 'Ref', 'Coordinate'}


class Entry(object):
    def __init__(self, order, node, pred):
        self.order = order
        self.node = node
        self.pred = pred           # 'none' | 'pytype' | 'const' | 'regex' | 'prefix' | 'default'
        self.lang = None           # Rx of the strings for which the predicate is true
        self.pytypes = set()
        self.consts = []
        self.regex = None          # (name, RegexConst, PyRegex)
        self.prefix = None
        self.builds = set()
        self.gated = False
        self.returns = []          # (expr node, kind, [group indices])
        self.slice_from = None
        self.split = None          # (sep, maxsplit or None, arity)

    def label(self):
        if self.pred == 'regex':
            return '%s.match' % self.regex[0]
        if self.pred == 'const':
            return '== %s' % '|'.join(repr(c) for c in self.consts)
        if self.pred == 'prefix':
            return 'startswith(%r)' % self.prefix
        if self.pred == 'pytype':
            return 'isinstance(%s)' % '|'.join(sorted(self.pytypes))
        return self.pred


def _kind_of_return(e, local_defs, group_of):
    k = G.classify_expr(e, local_defs)
    return k


def extract_cascade(model):
    fn = model.func('jsonparser', 'parse_embedded_scalar', 'flat')
    p = fn.args.args[0].arg
    entries = []
    pending = {}      # match variable -> regex name
    order = [0]

    def classify_test(test):
        t = norm(test)
        if t == '%s is None' % p:
            return ('none', None)
        if isinstance(test, ast.Call) and norm(test.func) == 'isinstance' and norm(test.args[0]) == p:
            c = test.args[1]
            names = [norm(x) for x in c.elts] if isinstance(c, ast.Tuple) else [norm(c)]
            return ('pytype', set(names))
        if isinstance(test, ast.BoolOp) and isinstance(test.op, ast.Or):
            parts = [classify_test(v) for v in test.values]
            if all(x and x[0] == 'pytype' for x in parts):
                s_ = set()
                for x in parts:
                    s_ |= x[1]
                return ('pytype', s_)
            if all(x and x[0] == 'const' for x in parts):
                out = []
                for x in parts:
                    out.extend(x[1])
                return ('const', out)
            return None
        if isinstance(test, ast.Compare) and len(test.ops) == 1 and isinstance(test.ops[0], ast.Eq) \
                and norm(test.left) == p:
            v = model.fold('jsonparser', test.comparators[0])
            if isinstance(v, str):
                return ('const', [v])
            return None
        if isinstance(test, ast.Name) and test.id in pending:
            return ('regex', pending[test.id], test.id)
        if isinstance(test, ast.Compare) and isinstance(test.left, ast.Name) and test.left.id in pending \
                and isinstance(test.ops[0], ast.IsNot) and norm(test.comparators[0]) == 'None':
            return ('regex', pending[test.left.id], test.left.id)
        if isinstance(test, ast.Call) and isinstance(test.func, ast.Attribute) and test.func.attr == 'startswith' \
                and norm(test.func.value) == p and len(test.args) == 1:
            v = model.fold('jsonparser', test.args[0])
            if isinstance(v, str):
                return ('prefix', v)
        return None

    def analyse_body(entry, body, matchvar=None):
        stmts = list(body)
        if stmts and isinstance(stmts[0], ast.If) and 'VER_3_0' in norm(stmts[0].test) and stmts[0].body \
                and isinstance(stmts[0].body[0], ast.Raise):
            entry.gated = True
            entry.gate_node = stmts[0]
            stmts = stmts[1:]
        local_defs = {}
        group_of = {}
        ngroups = entry.regex[2].groups if entry.regex else 0
        for n in [x for st in stmts for x in ast.walk(st)]:
            if isinstance(n, ast.Assign) and len(n.targets) == 1:
                tg = n.targets[0]
                v = n.value
                if isinstance(tg, ast.Name):
                    local_defs.setdefault(tg.id, v)
                    if matchvar and norm(v) == '%s.groups()' % matchvar:
                        group_of[tg.id] = 'ALL'
                if isinstance(tg, ast.Tuple) and matchvar and norm(v) == '%s.groups()' % matchvar:
                    for i, e in enumerate(tg.elts):
                        if isinstance(e, ast.Name):
                            group_of[e.id] = i + 1

        def groups_in(e):
            out = []
            for x in _args_in_order(e):
                gi = group_index(x)
                if gi is not None:
                    out.append(gi)
            return out

        def group_index(x):
            # matched[0], matched[-1], match.group(1), a name bound to a group, float(<that>)
            if isinstance(x, ast.Call) and norm(x.func) in ('float', 'int', 'str') and len(x.args) == 1:
                return group_index(x.args[0])
            if isinstance(x, ast.Subscript) and isinstance(x.value, ast.Name) and group_of.get(x.value.id) == 'ALL':
                idx = x.slice
                if isinstance(idx, ast.Constant) and isinstance(idx.value, int):
                    return idx.value + 1 if idx.value >= 0 else ngroups + 1 + idx.value
                if isinstance(idx, ast.UnaryOp) and isinstance(idx.op, ast.USub) and isinstance(idx.operand, ast.Constant):
                    return ngroups + 1 - idx.operand.value
            if isinstance(x, ast.Call) and matchvar and norm(x.func) == '%s.group' % matchvar and len(x.args) == 1 \
                    and isinstance(x.args[0], ast.Constant):
                return x.args[0].value
            if isinstance(x, ast.Name):
                if isinstance(group_of.get(x.id), int):
                    return group_of[x.id]
                if x.id in local_defs and local_defs[x.id] is not x:
                    return group_index(local_defs[x.id])
            return None

        for st in stmts:
            for n in ast.walk(st):
                if isinstance(n, ast.Return) and n.value is not None:
                    k = G.classify_expr(n.value, local_defs)
                    if isinstance(n.value, ast.Name) and n.value.id == p:
                        k = 'itself'
                    if isinstance(n.value, ast.Subscript) and norm(n.value.value) == p and isinstance(n.value.slice, ast.Slice):
                        k = 'str'
                        lo = n.value.slice.lower
                        entry.slice_from = lo.value if isinstance(lo, ast.Constant) else None
                    if isinstance(n.value, ast.Call) and any(isinstance(a, ast.Starred) for a in n.value.args):
                        st_arg = [a for a in n.value.args if isinstance(a, ast.Starred)][0].value
                        if isinstance(st_arg, ast.Call) and isinstance(st_arg.func, ast.Attribute) \
                                and st_arg.func.attr == 'split':
                            sep = model.fold('jsonparser', st_arg.args[0]) if st_arg.args else None
                            mx = model.fold('jsonparser', st_arg.args[1]) if len(st_arg.args) > 1 else None
                            base = st_arg.func.value
                            frm = None
                            if isinstance(base, ast.Subscript) and isinstance(base.slice, ast.Slice) \
                                    and isinstance(base.slice.lower, ast.Constant):
                                frm = base.slice.lower.value
                            entry.split = (sep, mx, frm)
                    for kk in k.split('|'):
                        entry.builds.add(kk)
                    entry.returns.append((n, k, groups_in(n.value)))

    def _args_in_order(e):
        if isinstance(e, ast.Call):
            out = []
            for a in e.args:
                out.append(a)
            for kw in e.keywords:
                out.append(kw.value)
            return out
        return [e]

    def visit(stmts):
        for st in stmts:
            if isinstance(st, ast.Assign) and len(st.targets) == 1 and isinstance(st.targets[0], ast.Name) \
                    and isinstance(st.value, ast.Call) and isinstance(st.value.func, ast.Attribute) \
                    and st.value.func.attr in ('match', 'fullmatch', 'search') and st.value.args \
                    and norm(st.value.args[0]) == p:
                pending[st.targets[0].id] = (norm(st.value.func.value), st.value.func.attr, st)
                continue
            if isinstance(st, ast.If):
                node = st
                while True:
                    c = classify_test(node.test)
                    if c is None:
                        raise Unsupported('cascade test %r not recognised' % norm(node.test))
                    order[0] += 1
                    e = Entry(order[0], node, c[0])
                    if c[0] == 'pytype':
                        e.pytypes = c[1]
                    elif c[0] == 'const':
                        e.consts = c[1]
                        e.lang = L.ralt(*[L.rlit(x) for x in c[1]])
                    elif c[0] == 'prefix':
                        e.prefix = c[1]
                        e.lang = L.rcat(L.rlit(c[1]), L.rany_star())
                    elif c[0] == 'regex':
                        rname, how, asg = c[1]
                        rc = model.fold('jsonparser', ast.parse(rname, mode='eval').body)
                        if not isinstance(rc, RegexConst):
                            raise Unsupported('%s is not a constant regex' % rname)
                        pr = L.PyRegex(rc.pattern, rc.flags)
                        e.regex = (rname, rc, pr)
                        e.how = how
                        if how == 'match':
                            e.lang = pr.match_lang()
                        elif how == 'fullmatch':
                            e.lang = pr.full()
                        else:
                            raise Unsupported('%s.%s' % (rname, how))
                    analyse_body(e, node.body, c[2] if c[0] == 'regex' else None)
                    entries.append(e)
                    if len(node.orelse) == 1 and isinstance(node.orelse[0], ast.If):
                        node = node.orelse[0]
                    else:
                        if node.orelse:
                            visit(node.orelse)
                        break
                continue
            if isinstance(st, ast.Return):
                order[0] += 1
                e = Entry(order[0], st, 'default')
                e.lang = L.rany_star()
                k = 'itself' if norm(st.value) == p else G.classify_expr(st.value, None)
                e.builds = {k}
                e.returns = [(st, k, [])]
                entries.append(e)
                continue
            if isinstance(st, ast.Expr) and isinstance(st.value, ast.Constant):
                continue
            raise Unsupported('cascade statement %r' % norm(st).split('\n')[0])

    visit(body_wo_doc(fn))
    return fn, p, entries


def string_entries(entries):
    return [e for e in entries if e.lang is not None]


def dispatch(entries, rx):
    """Entries (in cascade order) that a string of L(rx) can reach first, with a sample string each:
    list of (entry, sample) where the sample is not matched by any earlier entry."""
    out = []
    remaining = rx
    earlier = []
    for e in string_entries(entries):
        w = L.find_common(remaining_minus(rx, earlier), e.lang) if earlier else L.find_common(rx, e.lang)
        if w is not None:
            out.append((e, w))
        earlier.append(e.lang)
    return out


def remaining_minus(rx, earlier):
    """L(rx) minus the union of earlier languages, as an on-the-fly check helper: we cannot complement
    cheaply, so emulate with an inclusion search: returns an Rx-like object usable by find_common."""
    return _Diff(rx, L.ralt(*earlier))


class _Diff(object):
    """Marker type: difference language handled by find_common_diff."""

    def __init__(self, a, b):
        self.a = a
        self.b = b


def first_hits(entries, rx, max_hits=4):
    """For the strings of L(rx): which entries can be the FIRST to accept one of them.
    Computed by successive inclusion searches: a string of L(rx) not accepted by entries[0..i-1]
    but accepted by entries[i]."""
    hits = []
    ents = string_entries(entries)
    for i, e in enumerate(ents):
        earlier = L.ralt(*[x.lang for x in ents[:i]]) if i else L.EMPTY
        # words of (rx ∩ e.lang) not in earlier
        w = _common_not_in(rx, e.lang, earlier)
        if w is not None:
            hits.append((e, w))
            if len(hits) >= max_hits:
                break
    return hits


def _common_not_in(a, b, c):
    """shortest word in L(a) ∩ L(b) \\ L(c) (product of two NFAs against a subset construction)."""
    from collections import deque
    A, B, C = L._as_nfa(a), L._as_nfa(b), L._as_nfa(c)
    c0 = C.closure([C.start])
    start = (A.start, B.start, c0)
    seen = {start}
    q = deque([start])
    parents = {}
    steps = 0
    while q:
        node = q.popleft()
        steps += 1
        if steps > 300000:
            raise Unsupported('cascade search exceeded its budget')
        a_s, b_s, cset = node
        acl, bcl = A.closure1(a_s), B.closure1(b_s)
        if A.accept in acl and B.accept in bcl and C.accept not in cset:
            return L._path(parents, node)
        ctr = []
        for cs in cset:
            ctr.extend(C.trans[cs])
        csets = [t[0] for t in ctr]
        for a1 in acl:
            for a_set, a_dst in A.trans[a1]:
                for b1 in bcl:
                    for b_set, b_dst in B.trans[b1]:
                        common = L.iv_inter(a_set, b_set)
                        if not common:
                            continue
                        for rep, lo, hi in L._minterms(common, csets):
                            nxt = set()
                            for ivs, dst in ctr:
                                if L.iv_contains(ivs, rep):
                                    nxt.add(dst)
                            nn = (a_dst, b_dst, C.closure(nxt))
                            if nn not in seen:
                                seen.add(nn)
                                parents[nn] = (node, rep)
                                q.append(nn)
    return None


# ------------------------------------------------------------------ writer templates with payload markers

def writer_value(ctx, rule, kind, version, mark=False):
    """Abstract JSON value the writer produces for a kind: ('str', Tmpl) | ('const', None) | ('obj','bool') | ..."""
    m = ctx.model
    interp = TP.Interp(m, 'jsondumper', 'json')
    interp.version = version
    interp.grid_as_nt = True
    interp.mark = mark
    fn = m.func('jsondumper', 'dump_scalar', 'nested')
    p = fn.args.args[0].arg
    idx, lad = TP.branch_of(interp, fn, kind)
    if idx is None:
        return None, None, lad
    test, body, node = lad[idx]
    val = ('obj', kind)
    if kind == 'float':
        val = ('num', 'float', TP.NF_ALL)
    elif kind == 'int':
        val = ('num', 'int', frozenset())
    env = {p: val, 'version': ('ver',)}
    returns = []
    interp.block(body, env, returns)
    return returns, node, lad


def show(w):
    return L.render(w, S.NAMES)


# ---------------------------------------------------------------- the json.dumps call of dump_grid

DUMPS_NEUTRAL = ('indent', 'ensure_ascii', 'allow_nan', 'check_circular', 'skipkeys')


def dumps_call(ctx, rule):
    """dump_grid returns json.dumps(<grid object>) with options that keep key order and JSON syntax.

    same      -> obligation; sort_keys / non-JSON separators / str()-repr() of the object -> VIOLATION;
    any other shape (custom encoder, another serializer) -> ANALYSIS-ERROR."""
    m = ctx.model
    try:
        dg = m.func('jsondumper', 'dump_grid')
    except AnalysisError as e:
        ctx.error(rule, str(e))
        return
    con = '%s::dump_grid' % FD
    rets = [n for n in walk_no_nested(dg) if isinstance(n, ast.Return)]
    if len(rets) != 1 or rets[0].value is None:
        ctx.error(rule, 'dump_grid: %d return statements' % len(rets))
        return
    val = rets[0].value
    local = {}
    for st in body_wo_doc(dg):
        if isinstance(st, ast.Assign) and len(st.targets) == 1 and isinstance(st.targets[0], ast.Name):
            local[st.targets[0].id] = st.value
    seen = 0
    while isinstance(val, ast.Name) and val.id in local and seen < 4:
        val = local[val.id]
        seen += 1
    where = '%s:%d' % (FD, val.lineno)
    if isinstance(val, ast.Call) and norm(val.func) in ('str', 'repr', 'six.text_type'):
        ctx.violation(rule, con, norm(val), 'dump(g, MODE_JSON) is the Python repr of the grid object (single quotes, None/True): '
                      'json.loads rejects it', 'the document text is not produced by a JSON serializer', file=FD,
                      line=val.lineno, engine='E9')
        return
    if not (isinstance(val, ast.Call) and norm(val.func) == 'json.dumps' and len(val.args) == 1):
        ctx.error(rule, 'dump_grid returns `%s`, not a json.dumps call; cannot decide' % norm(val)[:80])
        return
    arg = val.args[0]
    while isinstance(arg, ast.Name) and arg.id in local:
        arg = local[arg.id]
    if not (isinstance(arg, ast.Call) and norm(arg.func) == '_dump_grid_to_json' and len(arg.args) >= 1
            and norm(arg.args[0]) == dg.args.args[0].arg):
        ctx.error(rule, 'dump_grid serializes `%s`, not _dump_grid_to_json(grid); cannot decide' % norm(arg)[:80])
        return
    ok = True
    for k in val.keywords:
        v = m.fold('jsondumper', k.value) if k.arg else None
        if k.arg == 'sort_keys':
            if isinstance(v, Opaque):
                ctx.error(rule, 'json.dumps(sort_keys=%s): not a constant' % norm(k.value))
                ok = False
            elif v:
                ok = False
                ctx.violation(rule, con, norm(val),
                              "grid metadata written in the order site, dis: the document has the keys sorted (dis, site), "
                              "and any reader rebuilds the metadata (and column metadata) in alphabetical order",
                              'json.dumps(sort_keys=True): key order is the only carrier of metadata order in JSON', file=FD,
                              line=val.lineno, engine='E9')
        elif k.arg == 'separators':
            good = isinstance(v, (tuple, list)) and len(v) == 2 and all(isinstance(x, str) for x in v) \
                and v[0].strip() == ',' and v[1].strip() == ':'
            if isinstance(v, Opaque):
                ctx.error(rule, 'json.dumps(separators=%s): not a constant' % norm(k.value))
                ok = False
            elif not good:
                ok = False
                ctx.violation(rule, con, norm(val), 'every dumped document uses %r as separators: not JSON' % (v,),
                              'json.dumps separators are not the JSON ones', file=FD, line=val.lineno, engine='E9')
        elif k.arg in DUMPS_NEUTRAL:
            continue
        else:
            ctx.error(rule, 'json.dumps option `%s` is not modelled; cannot decide' % norm(k))
            ok = False
    if ok:
        ctx.ob(rule, 'the document text is json.dumps of the grid object; no option reorders keys or changes the syntax '
                     '(options: %s)' % ([k.arg for k in val.keywords] or 'none'), True, where)


def loads_calls(ctx, rule, floor=3):
    """every json.loads call of the readers keeps the document's key order and plain dict/list/str decoding:
    no object_hook / object_pairs_hook / parse_* option.  Unknown option -> ANALYSIS-ERROR."""
    m = ctx.model
    n = 0
    for modname, f in (('jsonparser', FJ), ('parser', 'hszinc/parser.py')):
        for node in ast.walk(m.mod(modname).tree):
            if not (isinstance(node, ast.Call) and norm(node.func) in ('json.loads', 'json.load')):
                continue
            n += 1
            bad = [k for k in node.keywords if k.arg in ('object_hook', 'object_pairs_hook', 'parse_float', 'parse_int',
                                                            'parse_constant', 'cls')]
            other = [k for k in node.keywords if k not in bad and k.arg not in ('strict',)]
            if other:
                ctx.error(rule, '%s: json.loads option `%s` not modelled' % (f, norm(other[0])))
            elif bad:
                ctx.error(rule, '%s:%d json.loads with a decoding hook (`%s`): the decoded document is no longer plain '
                                'dict/list/str in document order; cannot decide' % (f, node.lineno, norm(bad[0])))
            else:
                ctx.ob(rule, 'json.loads without decoding hooks: objects become dicts in document order', True,
                       '%s:%d' % (f, node.lineno))
    ctx.floor('json.loads call sites', n, floor)


# ---------------------------------------------------------------- text payloads reach the constructor verbatim

TEXT_REWRITERS = ('sub', 'subn', 'replace', 'strip', 'lstrip', 'rstrip', 'lower', 'upper', 'translate', 'casefold', 'title',
                  'swapcase', 'capitalize', 'expandtabs', 'encode', 'decode', 'unescape', 'unquote', 'normalize', 'format')
TEXT_ARGS = {'Uri': [0], 'Bin': [0], 'Ref': [0, 1], 'XStr': None, 'Quantity': [1]}


def verbatim_payload(ctx, rule, entries, fn, floor=6):
    """JSON strings carry no escaping of their own (json.loads did it all): the text captured for a Uri, Bin, Ref,
    str, XStr or a unit must reach the constructor unchanged.  A rewrite on the way (regex substitution, strip,
    case, normalisation) maps different payloads to one value."""
    scalar = fn.args.args[0].arg
    n = 0

    def defs_in(block, name):
        return [st for st in ast.walk(block) if isinstance(st, ast.Assign) and len(st.targets) == 1
                and isinstance(st.targets[0], ast.Name) and st.targets[0].id == name]

    def is_source(e, block):
        """payload source expressions"""
        if isinstance(e, ast.Call) and isinstance(e.func, ast.Attribute) and e.func.attr in ('group', 'groups') \
                and isinstance(e.func.value, ast.Name):
            return True
        if isinstance(e, ast.Subscript) and isinstance(e.value, ast.Name) and e.value.id == scalar and isinstance(e.slice, ast.Slice):
            return True
        if isinstance(e, ast.Subscript) and isinstance(e.value, ast.Name):
            ds = defs_in(block, e.value.id)
            if len(ds) == 1 and is_source(ds[0].value, block):
                return True
        return False

    def verdict(e, block, depth=0):
        """'ok' | ('rewrite', node, name) | ('unknown', node)"""
        if depth > 6:
            return ('unknown', e)
        if isinstance(e, ast.Starred):
            return verdict(e.value, block, depth + 1)
        if is_source(e, block):
            return 'ok'
        if isinstance(e, ast.Name):
            ds = defs_in(block, e.id)
            if len(ds) == 1:
                return verdict(ds[0].value, block, depth + 1)
            return ('unknown', e)
        if isinstance(e, ast.Call):
            f = e.func
            fname = f.attr if isinstance(f, ast.Attribute) else norm(f)
            if fname in ('str', 'six.text_type') and len(e.args) == 1:
                return verdict(e.args[0], block, depth + 1)
            if isinstance(f, ast.Attribute) and f.attr == 'split' and is_source(f.value, block):
                return 'ok'
            has_src = any(is_source(x, block) or (isinstance(x, ast.Name) and defs_in(block, x.id)
                                                  and any(is_source(y, block) for d in defs_in(block, x.id) for y in ast.walk(d.value)))
                          for x in ast.walk(e) if x is not e)
            if has_src and fname in TEXT_REWRITERS:
                return ('rewrite', e, fname)
            return ('unknown', e)
        return ('unknown', e)

    for ent in entries:
        for node, kind, groups in ent.returns:
            kinds = set((kind or '').split('|'))
            v = node.value if isinstance(node, ast.Return) else node
            block = ent.node
            args = None
            if 'str' in kinds and ent.pred == 'prefix':
                args = [v]
            elif isinstance(v, ast.Call) and norm(v.func) in TEXT_ARGS and norm(v.func) in kinds:
                idx = TEXT_ARGS[norm(v.func)]
                args = list(v.args) if idx is None else [v.args[i] for i in idx if i < len(v.args)]
            if not args:
                continue
            for a in args:
                n += 1
                r = verdict(a, block)
                where = '%s:%d' % (FJ, node.lineno)
                what = norm(v.func) if isinstance(v, ast.Call) else 'str'
                if r == 'ok':
                    ctx.ob(rule, '%s: the captured text `%s` reaches the value unchanged' % (what, norm(a)[:50]), True, where)
                elif r[0] == 'rewrite':
                    ctx.violation(rule, '%s::parse_embedded_scalar' % FJ, norm(node),
                                  'the JSON string for %s whose payload is a backslash followed by `:` (or carries blanks / '
                                  'upper case, depending on the rewrite): the reader applies `%s` to the captured text, so it '
                                  'comes back changed and two different payloads decode to the same value'
                                  % (what, norm(r[1])[:70]),
                                  'the text payload of %s is rewritten (%s) between the regex capture and the constructor; '
                                  'the JSON writer emits payloads raw' % (what, r[2]), file=FJ, line=node.lineno, engine='E7')
                else:
                    ctx.error(rule, '%s:%d payload argument `%s` of %s: not a verbatim capture and not a tabled rewrite; '
                                    'cannot decide' % (FJ, node.lineno, norm(a)[:60], what))
    ctx.floor('text payload arguments', n, floor)


# ---------------------------------------------------------------- time of day: exact integer conversion of the fields

USEC_OK = ("int({f}[:6].ljust(6, '0'))", "int(({f} + '000000')[:6])", "int({f}.ljust(6, '0')[:6])", "int(({f} + '0' * 6)[:6])")


def time_fields_exact(ctx, rule, entries, fn):
    """The h: branch builds datetime.time from the captured digit groups.  A time of day is not a float payload: every
    field must be converted with int() on text; the fraction is cut/padded to six digits as TEXT.  float()/math.* on
    a field loses a microsecond for about 1% of values; arithmetic on the unsliced length breaks for >= 7 digits."""
    ent = [e for e in entries if e.pred == 'regex' and e.regex[0] == 'TIME_RE']
    if len(ent) != 1:
        ctx.error(rule, 'time branch of the decode cascade not found (%d candidates)' % len(ent))
        return
    block = ent[0].node
    calls = [c for c in ast.walk(block) if isinstance(c, ast.Call) and norm(c.func) in ('datetime.time', 'time')]
    if len(calls) != 1:
        ctx.error(rule, 'time branch: %d datetime.time(...) calls; cannot decide' % len(calls))
        return
    call = calls[0]
    where = '%s:%d' % (FJ, call.lineno)
    # float arithmetic anywhere in the branch
    for c in ast.walk(block):
        if isinstance(c, ast.Call) and (norm(c.func) == 'float' or norm(c.func).startswith('math.') or norm(c.func) in ('round', 'Decimal')):
            ctx.violation(rule, '%s::parse_embedded_scalar' % FJ, norm(c)[:120],
                          'the well-formed value "h:06:30:00.000251" decodes to 06:30:00.000250: the seconds field goes through '
                          'binary floating point (`%s`) and is truncated, which loses one microsecond for about 1%% of all '
                          'microsecond values' % norm(c)[:50],
                          'a field of a time of day is converted through float arithmetic instead of int() on its digits',
                          file=FJ, line=c.lineno, engine='E7')
            return
    kw = {k.arg: k.value for k in call.keywords}
    if 'microsecond' not in kw:
        if len(call.args) >= 4:
            kw['microsecond'] = call.args[3]
        else:
            ctx.error(rule, 'time branch: no microsecond argument; cannot decide')
            return
    usec = kw['microsecond']
    exprs = [usec]
    if isinstance(usec, ast.Name):
        exprs = [d.value for d in ast.walk(block) if isinstance(d, ast.Assign) and len(d.targets) == 1
                 and norm(d.targets[0]) == usec.id]
    n_ok = 0
    for e in exprs:
        t = norm(e)
        if isinstance(e, ast.Constant) and e.value == 0:
            n_ok += 1
            continue
        # which name holds the fraction text?
        names = sorted({x.id for x in ast.walk(e) if isinstance(x, ast.Name) and x.id not in ('int', 'len', 'str')})
        good = any(t == form.format(f=nm) for nm in names for form in USEC_OK)
        if good:
            n_ok += 1
            ctx.ob(rule, 'microseconds = first six fraction digits, zero-padded as text, then int() (`%s`)' % t, True, where)
            continue
        import re as _re
        mw = None
        for nm in names:
            mw = _re.match(r"^int\(%s\[:(\d+)\]\.ljust\((\d+), '0'\)\)$" % _re.escape(nm), t)
            if mw:
                break
        if mw:
            a_, b_ = int(mw.group(1)), int(mw.group(2))
            ctx.violation(rule, '%s::parse_embedded_scalar' % FJ, t,
                          'the well-formed value "h:08:12:05.123456" decodes to %s: the fraction is cut to %d digits and padded to '
                          '%d, a time has exactly six (microseconds)' % (
                              '08:12:05.123450' if a_ < 6 else ('a TypeError/ValueError or a wrong microsecond' if b_ != 6 or a_ > 6 else '?'),
                              a_, b_),
                          'the fraction of a time is cut/padded to %d/%d digits instead of 6/6' % (a_, b_), file=FJ,
                          line=e.lineno, engine='E7')
            continue
        mo = None
        for nm in names:
            mo = _re.match(r'^int\(%s\[:6\]\) \* 10 \*\* \(6 - len\((.+)\)\)$' % _re.escape(nm), t)
            if mo:
                if mo.group(1) in ('%s[:6]' % nm,):
                    n_ok += 1
                    ctx.ob(rule, 'microseconds scaled by the length of the SLICED fraction (`%s`)' % t, True, where)
                else:
                    ctx.violation(rule, '%s::parse_embedded_scalar' % FJ, t,
                                  'the well-formed value "h:08:12:05.1234567" (seven fraction digits): 10 ** (6 - 7) is the float '
                                  '0.1, the microsecond becomes a float and datetime.time raises TypeError',
                                  'the fraction is cut to six digits but scaled by its unsliced length', file=FJ,
                                  line=e.lineno, engine='E7')
                break
        if mo:
            continue
        ctx.error(rule, 'time branch: microsecond expression `%s` not tabled; cannot decide' % t[:80])
    for fld in ('hour', 'minute', 'second'):
        v = kw.get(fld)
        if v is None:
            continue
        vs = [v]
        if isinstance(v, ast.Name):
            vs = [d.value for d in ast.walk(block) if isinstance(d, ast.Assign) and len(d.targets) == 1 and norm(d.targets[0]) == v.id]
        for e in vs:
            if (isinstance(e, ast.Constant) and e.value == 0) or (isinstance(e, ast.Call) and norm(e.func) == 'int' and len(e.args) == 1):
                continue
            ctx.error(rule, 'time branch: %s = `%s` is not int(<digits>); cannot decide' % (fld, norm(e)[:60]))
    ctx.count('time-of-day microsecond expressions', len(exprs))


def number_branch(ctx, rule, entries, fn):
    """n: values: a Quantity is built exactly when the unit group (the last one) captured something; otherwise the bare
    float is returned.  Testing another group turns every plain number into a Quantity without unit (another kind)."""
    from .c17 import _guards
    try:
        fn = ctx.model.func('jsonparser', 'parse_embedded_scalar', 'nested')     # if/else spelling: guards are explicit
    except AnalysisError as e:
        ctx.error(rule, str(e))
        return
    qrets = [r for r in ast.walk(fn) if isinstance(r, ast.Return) and isinstance(r.value, ast.Call) and norm(r.value.func) == 'Quantity']
    if len(qrets) != 1:
        ctx.error(rule, 'number branch: %d returns of a Quantity; cannot decide' % len(qrets))
        return
    q = qrets[0]
    unit_arg = q.value.args[1] if len(q.value.args) > 1 else next((k.value for k in q.value.keywords if k.arg == 'unit'), None)
    if unit_arg is None:
        ctx.error(rule, 'number branch: Quantity built without a unit argument')
        return
    ut = norm(unit_arg)
    gs = [(norm(t), pol) for t, pol in _guards(fn, q)]
    gs = [(t, pol) for t, pol in gs if '[' in t or ' is ' in t]
    pos = ('%s is not None' % ut, ut, 'bool(%s)' % ut)
    neg = ('%s is None' % ut, 'not %s' % ut)
    ok = any((t in pos and pol) or (t in neg and not pol) for t, pol in gs)
    where = '%s:%d' % (FJ, q.lineno)
    if ok:
        ctx.ob(rule, 'a Quantity is returned exactly when the unit group `%s` captured a unit' % ut, True, where)
    elif gs:
        t, pol = gs[0]
        ctx.violation(rule, '%s::parse_embedded_scalar' % FJ, '%sif %s' % ('' if pol else 'else of ', t),
                      'the JSON value "n:5" (a plain number) decodes to Quantity(5.0, None) instead of 5.0 -- or "n:5 kW" to the '
                      'bare number: the Quantity branch is chosen by `%s`, not by the presence of the unit `%s`' % (t, ut),
                      'the number branch decides between number and quantity on `%s` instead of on the unit group' % t,
                      file=FJ, line=q.lineno, engine='E7')
    else:
        ctx.error(rule, 'number branch: the Quantity return is not guarded; cannot decide')


# ---------------------------------------------------------------- jsonparser.parse_scalar: when is text decoded as JSON?

def parse_scalar_entry(ctx, rule):
    """parse_scalar is the public scalar entry AND the element decoder of nested lists/dicts (whose members are already
    decoded strings).  So: (a) the value handed on to parse_embedded_scalar is the argument itself or json.loads(argument)
    -- never a stripped / otherwise rewritten text; (b) json.loads is attempted only for text that looks like a JSON
    string/array/object (first and last character), not for every text: "42", "true", "null" inside a list are
    strings."""
    m = ctx.model
    try:
        fn = m.func('jsonparser', 'parse_scalar', 'nested')
    except AnalysisError as e:
        ctx.error(rule, str(e))
        return
    p = fn.args.args[0].arg
    con = '%s::parse_scalar' % FJ
    n = 0
    for st in ast.walk(fn):
        if isinstance(st, (ast.Assign, ast.AugAssign)):
            tg = st.targets[0] if isinstance(st, ast.Assign) else st.target
            if not (isinstance(tg, ast.Name) and tg.id == p):
                continue
            n += 1
            v = st.value
            where = '%s:%d' % (FJ, st.lineno)
            if isinstance(v, ast.Call) and norm(v.func) == 'json.loads' and v.args and norm(v.args[0]) == p:
                # guard: first/last character tests on the way, not a bare try
                from .c17 import _guards
                gs = [norm(t) for t, pol in _guards(fn, st) if pol]
                looks = [g for g in gs if '%s[0]' % p in g and '%s[-1]' % p in g]
                in_try = any(isinstance(a, ast.Try) for a in _ancestors(st, fn))
                if looks:
                    ctx.ob(rule, 'text is decoded with json.loads only when its first and last character say it is a JSON '
                                 'string, array or object', True, where)
                elif in_try or not gs or all('isinstance' in g for g in gs):
                    ctx.violation(rule, con, norm(st),
                                  'the 3.0 list ["42", "true", "null"] (three un-prefixed strings) decodes to [42, True, None]: every '
                                  'text is tried as JSON, and list/dict members pass through parse_scalar a second time after the '
                                  'document itself was decoded', 'json.loads is applied to any text, not only to text that looks '
                                  'like JSON', file=FJ, line=st.lineno, engine='E7')
                else:
                    ctx.error(rule, 'parse_scalar: json.loads guarded by %s; cannot decide' % gs)
                continue
            used = [x.func.attr for x in ast.walk(v) if isinstance(x, ast.Call) and isinstance(x.func, ast.Attribute)]
            if any(u in TEXT_REWRITERS for u in used) and any(isinstance(x, ast.Name) and x.id == p for x in ast.walk(v)):
                ctx.violation(rule, con, norm(st),
                              'the dict {"k": "x "} (or the list ["a", " ", "b"]) in JSON mode: members are decoded strings that go '
                              'through parse_scalar again, where `%s` rewrites them -- "x " comes back as "x"' % norm(v)[:50],
                              'parse_scalar rewrites its text argument (%s) before decoding' % ', '.join(u for u in used if u in TEXT_REWRITERS),
                              file=FJ, line=st.lineno, engine='E7')
            else:
                ctx.error(rule, 'parse_scalar rebinds its argument with `%s`; cannot decide' % norm(v)[:60])
    calls = [c for c in ast.walk(fn) if isinstance(c, ast.Call) and norm(c.func) == 'parse_embedded_scalar']
    if len(calls) == 1 and calls[0].args and norm(calls[0].args[0]) == p:
        ctx.ob(rule, 'the (possibly decoded) argument is handed to parse_embedded_scalar as it is', True, '%s:%d' % (FJ, calls[0].lineno))
    else:
        ctx.error(rule, 'parse_scalar: hand-over to parse_embedded_scalar not recognised')
    ctx.floor('rebindings in parse_scalar', n, 1)


def _ancestors(node, stop):
    out = []
    p = getattr(node, '_parent', None)
    while p is not None and p is not stop:
        out.append(p)
        p = getattr(p, '_parent', None)
    return out


def greedy_group_splits(ctx, rule, entries):
    """A decode branch that cuts "p:<a><sep><b>" with ONE regex: when the first group is greedy and can itself match the
    separator, the engine cuts at the LAST separator.  The writers put the free text last (x:<type>:<data>, type names
    have no colon, the data may), so such a regex moves part of the payload into the first field."""
    try:
        import re._parser as sre
        import re._constants as sre_c
    except ImportError:                      # pragma: no cover
        import sre_parse as sre
        import sre_constants as sre_c
    n = 0
    for e in entries:
        if e.pred != 'regex' or 'XStr' not in e.builds:
            continue
        name, rc, pr = e.regex
        try:
            items = list(sre.parse(rc.pattern, rc.flags))
        except Exception as ex:
            ctx.error(rule, '%s: %s' % (name, ex))
            continue
        groups = [(i, av) for i, (op, av) in enumerate(items) if op is sre_c.SUBPATTERN]
        if len(groups) < 2:
            continue
        (i1, g1), (i2, g2) = groups[0], groups[1]
        between = items[i1 + 1:i2]
        if not (len(between) == 1 and between[0][0] is sre_c.LITERAL):
            continue
        n += 1
        sep = between[0][1]
        sub = list(g1[3])
        greedy_any = len(sub) == 1 and sub[0][0] is sre_c.MAX_REPEAT and sub[0][1][1] == sre_c.MAXREPEAT
        try:
            body = pr._seq(sub, ())
            has_sep = L.find_common(body, L.rcat(L.rany_star(), L.rlit(chr(sep)), L.rany_star())) is not None
        except Exception as ex:
            ctx.error(rule, '%s: first group not modelled (%s)' % (name, ex))
            continue
        where = '%s:%d' % (FJ, e.node.lineno)
        if greedy_any and has_sep:
            ctx.violation(rule, '%s::%s' % (FJ, name), rc.pattern,
                          'the JSON value "x:text:a%sb" (an extended string whose DATA contains %r -- a URL, a time, "n:1"): the greedy '
                          'first group runs to the LAST %r, so the value decodes to XStr(\'text:a\', \'b\') instead of '
                          'XStr(\'text\', \'a%sb\')' % (chr(sep), chr(sep), chr(sep), chr(sep)),
                          '%s cuts type and data at the last %r: its first group is greedy and can match %r itself'
                          % (name, chr(sep), chr(sep)), file=FJ, line=e.node.lineno, engine='E3')
        else:
            ctx.ob(rule, '%s: the first field cannot swallow the separator %r' % (name, chr(sep)), True, where)
    ctx.count('regex-split XStr decode branches', n)
