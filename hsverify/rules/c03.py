"""C03 -- the ZINC reader accepts the whole surface syntax and decodes it correctly."""
from __future__ import annotations

import ast

from .. import lang as L
from .. import ppgrammar as G
from .. import spec as S
from .. import templates as TP
from .. import transducer as T
from ..lang import Unsupported
from ..model import AnalysisError, RegexConst, body_wo_doc, norm, walk_no_nested
from . import _zinc

META = {
    'level': 'other',
    'explanation': (
        'Static inclusion of the published ZINC grammar (spec/zinc_spec.json, independent of hszinc\'s writer) in the '
        'grammar extracted from zincparser.py, per version.  (D1) for every value kind the specification language of '
        'all its legal spellings (blanks around commas, `_` digit separators, exponents, INF/-INF/NaN, every backslash '
        'and \\uXXXX escape, T/t and Z/z, optional zone name, fractional seconds, trailing commas and blanks in lists/'
        'dicts, nested grids) is included in the union of the reader alternatives that build that kind; the grid '
        'rule (header, metadata, column line, rows, CRLF) includes the specification\'s grid language; constant-valued '
        'parse actions build the right singleton/boolean; the digit action strips `_`; the _unescape table maps every '
        'escape of the grammar to the character it denotes; lexical languages fit the library call of their action '
        '(fraction digits vs %f).  (D2) no alternative of another kind wins a longest-match tie on a legal spelling.  '
        '(D3) document framing in parser.parse: final newline optional, LF and CRLF blank lines separate grids, empty '
        'input yields None/[], single selects the first grid, bytes are decoded with the given charset before any '
        'regex.  (D4) the version sniffing regex accepts every header the grammar accepts and the grammar is selected '
        'through Version.nearest.  (D5) a timestamp with a zone name is converted with astimezone (the written instant is kept; clause shared with C17.D2); (D3) also: every rebinding of the document text in parser.parse is the decode or a tabled framing step, never a rewrite of the text (normalisation, replace, splitlines).  Not decided: values computed by float/strptime/iso8601/tz conversion; PEG '
        'commitment effects beyond D2 (the regular abstraction can miss, never invent, a spec-vs-reader failure).'
        ' Also (D5): the handler around the zone look-up catches what zoneinfo.timezone raises for a name this host cannot map (the stamp is kept, the document is not rejected).'
        ' Also (D1): quantity split (number token vs unit start).  (D3) parse entries compare the mode only after _parse_mode.'
        ' Also (D1): the time literal is converted exactly (strptime %f on six digits, or zero-padded text then int()).  (D5) astimezone() sits in a handler that catches OverflowError.'
        ' Round 9: (D5) the zone tables are published complete (bound by assignment, never filled in place); (D3) no second lexer over the raw text; lazy first-or-None result forms are classified.'),
    'rule_text': 'obligations = spec kinds x versions (inclusion + tie hazards), structure inclusion, action facts, '
                 'escape table rows, framing facts',
    'trusted_base': ['spec/zinc_spec.json transcribes the published grammar; pyparsing Or = longest match'],
}

FP = 'hszinc/zincparser.py'
FR = 'hszinc/parser.py'
BUILDS = {'null': 'None', 'marker': 'MARKER', 'remove': 'REMOVE', 'na': 'NA', 'bool': 'bool', 'number': 'float',
          'quantity': 'Quantity', 'str': 'str', 'uri': 'Uri', 'ref': 'Ref', 'bin': 'Bin', 'bin3': 'Bin', 'date': 'date',
          'time': 'time', 'datetime': 'datetime', 'coord': 'Coordinate', 'xstr': 'XStr', 'list': 'list', 'dict': 'dict',
          'grid': 'Grid'}
ESCAPES_STR = {'b': '\b', 'f': '\f', 'n': '\n', 'r': '\r', 't': '\t', '\\': '\\', '"': '"', '$': '$'}
ESCAPES_URI = {':': ':', '/': '/', '?': '?', '#': '#', '[': '[', ']': ']', '@': '@', '`': '`', '\\': '\\', '&': '&',
               '=': '=', ';': ';'}


def run(ctx):
    for version in ('3.0', '2.0'):
        _kinds(ctx, version)
        _structure(ctx, version)
    _actions(ctx)
    _zinc.token_use_rule(ctx, 'C03.D2', 'zincparser')
    _escape_table(ctx)
    _framing(ctx)
    from . import _parse
    _parse.text_flow(ctx, 'C03.D3', what='parsing a well-formed document')
    _version_sniff(ctx)
    # timestamps with a zone name denote the written instant (clause shared with C17.D2)
    from . import c17
    c17._api(ctx, ctx.model, rule='C03.D5', only=('zincparser',))
    c17.zone_applied(ctx, ctx.model, 'C03.D5', 'zincparser', '_parse_datetime', 'zinc', catches=True)
    c17.map_publication(ctx, ctx.model, 'C03.D5')
    _zinc.quantity_split(ctx, 'C03.D1')
    _zinc.time_literal_exact(ctx, 'C03.D1', 'zincparser')
    from . import _dump
    _dump.mode_sanitised(ctx, 'C03.D3', 'parser')


def _kinds(ctx, version):
    try:
        kind_of_or, alts, g, nts = _zinc.reader_alts(ctx, version)
    except (Unsupported, AnalysisError) as e:
        ctx.error('C03.D1', 'reader alternatives (%s): %s' % (version, e))
        return
    ctx.count('scalar alternatives (%s)' % version, len(alts))
    ctx.floor('scalar alternatives (%s)' % version, len(alts), 13 if version == '2.0' else 17)
    spec_templates = {}
    for sk in S.zinc_kinds(version):
        want = BUILDS[sk]
        rx = S.zinc('kinds', sk)
        own = [a for a in alts if want in a['kinds'] or (want == 'Grid' and any(k.startswith('forward:hs_grid') for k in a['kinds']))]
        if not own:
            ctx.violation('C03.D1', '%s::hs_scalar_%s' % (FP, version.replace('.', '_')), 'no alternative builds %s' % want,
                          'the well-formed %s literal %r cannot be parsed under version %s' % (sk, _zinc.show(L.shortest(rx) or []), version),
                          'the %s scalar alternation has no alternative that builds %s' % (version, want), file=FP,
                          engine='E2')
            continue
        try:
            w = L.find_not_included(rx, L.ralt(*[a['rx'] for a in own]), max_witnesses=3)
        except Unsupported as e:
            ctx.error('C03.D1', 'spec inclusion of %s: %s' % (sk, e))
            continue
        labels = '|'.join(a['node'].label() for a in own)
        if w:
            ctx.violation('C03.D1', '%s::%s' % (FP, labels), 'spec(%s) ⊆ %s' % (sk, labels),
                          'the well-formed %s spelling(s) %s are not accepted by the reader rule %s (version %s)' % (
                              sk, ' / '.join(repr(_zinc.show(x)) for x in w), labels, version),
                          'the specification language of %s is not included in the reader alternative(s) that build %s'
                          % (sk, want), file=FP, line=own[0]['node'].lineno, engine='E3')
        else:
            ctx.ob('C03.D1', 'v%s: every legal spelling of %s is accepted by %s' % (version, sk, labels), True,
                   '%s:%s' % (FP, own[0]['node'].lineno))
        # D2 hazards: reuse the pairing rule with the spec language in the writer's place
        wk = {v: k for k, v in _zinc.SPEC_KIND.items()}.get(sk if sk != 'bin3' else 'bin')
    # tie hazards (D2)
    for sk in S.zinc_kinds(version):
        want = BUILDS[sk]
        rx = S.zinc('kinds', sk)
        own = [a for a in alts if want in a['kinds'] or (want == 'Grid' and any(k.startswith('forward:hs_grid') for k in a['kinds']))]
        if not own:
            continue
        first_own = min(a['index'] for a in own)
        for a in alts:
            if a in own or want in a['kinds']:
                continue
            try:
                c = L.find_common(rx, a['rx'])
            except Unsupported as e:
                ctx.error('C03.D2', str(e))
                continue
            if c is None:
                ctx.ob('C03.D2', 'v%s: no spelling of %s is also a full match of %s' % (version, sk, a['node'].label()), True)
            elif kind_of_or == 'Or' and a['index'] > first_own:
                ctx.ob('C03.D2', 'v%s: %r (a %s) also matches the later alternative %s; the earlier one wins the tie'
                       % (version, _zinc.show(c), sk, a['node'].label()), True)
            else:
                w_real, n_val, win = _zinc.real_tie(kind_of_or, alts, want, rx, a['rx'])
                if w_real is None:
                    ctx.ob('C03.D2', 'v%s: %r (a %s) is in the regular language of %s, but under pyparsing\'s commitment '
                                     'semantics the alternative for %s wins (%d witnesses validated on the grammar model)'
                           % (version, _zinc.show(c), sk, a['node'].label(), sk, n_val), True)
                    continue
                c = w_real
                ctx.violation('C03.D2', '%s::hs_scalar_%s' % (FP, version.replace('.', '_')),
                              '%s before %s' % (a['node'].label(), own[0]['node'].label()),
                              'the well-formed %s %r is read as %s: the earlier alternative %s matches it in full and wins '
                              'the longest-match tie' % (sk, _zinc.show(c), sorted(a['kinds']), a['node'].label()),
                              'an alternative of another kind shadows the one for %s' % sk, file=FP,
                              line=a['node'].lineno, engine='E3')


def _structure(ctx, version):
    try:
        reader, g = _zinc.reader_grid_rx(ctx, version)
        spec = _zinc.spec_grid_rx()
        w = L.find_not_included(spec, reader, max_witnesses=3)
    except (Unsupported, AnalysisError) as e:
        ctx.error('C03.D1', 'grid structure (%s): %s' % (version, e))
        return
    if w:
        ctx.violation('C03.D1', '%s::hs_grid_%s' % (FP, version.replace('.', '_')), 'spec grid ⊆ hs_grid',
                      'the well-formed document(s) %s are rejected by the grid rule' % ' / '.join(repr(_zinc.show(x)) for x in w),
                      'the specification\'s grid language (header, metadata, column line, rows, optional blanks, LF or CRLF) '
                      'is not included in the reader\'s grid rule (version %s)' % version, file=FP, engine='E3')
    else:
        ctx.ob('C03.D1', 'v%s: header / metadata / column line / rows with optional blanks, empty cells and LF or CRLF '
                         'line ends are accepted by the grid rule' % version, True, FP)


def _actions(ctx):
    m = ctx.model
    g = G.grammar_of(m, 'zincparser')

    def returns(name):
        n = g.get(name)
        return n, ([norm(r) for r in G.action_returns(n.action)] if n.action is not None else [])

    facts = [
        ('hs_bool', ["[toks[0] == 'T']"], "T parses to %s", 'booleans'),
        ('hs_null', ['[None]'], 'N', 'null'), ('hs_marker', ['[MARKER]'], 'M', 'marker'),
        ('hs_remove', ['[REMOVE]'], 'R', 'remove'), ('hs_na', ['[NA]'], 'NA', 'NA'),
        ('hs_decimal', ['[float(toks[0])]'], '1.5e3', 'numbers'),
        ('hs_quantity', ['[Quantity(toks[0], unit=toks[1])]', '[Quantity(toks[0], toks[1])]'], '5kW', 'quantities'),
        ('hs_coord', ['[Coordinate(toks[0], toks[1])]'], 'C(1,2)', 'coordinates (latitude first)'),
        ('hs_date', ["[datetime.datetime.strptime(toks[0], '%Y-%m-%d').date()]"], '2020-01-02', 'dates'),
        ('hs_isoDateTime', ['[iso8601.parse_date(toks[0].upper())]'], '2020-01-02t03:04:05z', 'ISO stamps (case-folded)'),
        ('hs_ref', ['[Ref(toks[0], toks[1] if len(toks) > 1 else None)]'], '@a "b"', 'references'),
        ('hs_bin', ['[Bin(toks[0])]'], 'Bin(text/plain)', 'bins'),
        ('hs_coordDeg', ["[float(toks[0] or '0')]"], 'C(1,2)', 'coordinate degrees'),
    ]
    for name, want, ex, what in facts:
        try:
            n, got = returns(name)
        except AnalysisError as e:
            ctx.error('C03.D1', str(e))
            continue
        if got and got[0] in want:
            ctx.ob('C03.D1', '%s builds %s' % (name, got[0]), True, '%s:%s' % (FP, n.lineno))
        else:
            ctx.violation('C03.D1', '%s::%s' % (FP, name), '; '.join(got) or 'no action',
                          'the literal %s does not parse to the value it denotes (%s)' % (ex, what),
                          'parse action of %s is %s, expected %s' % (name, got, want[0]), file=FP, line=n.lineno, engine='E2')
    # INF / -INF / NaN
    try:
        num = g.get('hs_number')
        kids = num.children
        inf = [k for k in kids if k.kind in ('Or', 'MatchFirst') and all(c.kind == 'Literal' for c in k.children)]
        lits = sorted(c.data['s'] for k in inf for c in k.children)
        acts = [norm(r) for k in inf for r in (G.action_returns(k.action) if k.action is not None else [])]
        if lits == ['-INF', 'INF', 'NaN'] and acts == ['[float(toks[0])]']:
            ctx.ob('C03.D1', 'INF, -INF and NaN are numbers built with float()', True, '%s:%s' % (FP, num.lineno))
        else:
            ctx.violation('C03.D1', '%s::hs_number' % FP, '%s -> %s' % (lits, acts),
                          'one of INF / -INF / NaN is rejected or not parsed to a float',
                          'non-finite literals are %s with action %s' % (lits, acts), file=FP, line=num.lineno, engine='E2')
        dg = g.get('hs_digits')
        got = [norm(r) for r in G.action_returns(dg.action)] if dg.action is not None else []
        if got == ["[''.join([t.replace('_', '') for t in toks[0]])]"]:
            ctx.ob('C03.D1', 'the digits action removes the `_` separators', True, '%s:%s' % (FP, dg.lineno))
        else:
            ctx.violation('C03.D1', '%s::hs_digits' % FP, '; '.join(got) or 'no action',
                          'the number 1_000 raises ValueError in float() / is not 1000',
                          'hs_digits does not strip `_` before the text reaches float()', file=FP, line=dg.lineno, engine='E2')
    except AnalysisError as e:
        ctx.error('C03.D1', str(e))
    # lexical language vs library call: fraction digits of a time vs strptime('%f')
    try:
        pt = m.func('zincparser', '_parse_time')
        text = norm(pt)
        uses_f = "'.%f'" in text
        trunc = '[:6]' in text
        if uses_f and not trunc:
            ctx.violation('C03.D1', '%s::_parse_time' % FP, "time_fmt += '.%f'",
                          'the well-formed time 12:00:00.1234567 (seven fraction digits; the format allows nanoseconds) '
                          'raises ValueError: strptime %f takes at most six digits, the grammar admits any number',
                          'the token language of hs_time_str (\\.\\d+) exceeds what the action\'s strptime(\'%f\') accepts',
                          file=FP, line=pt.lineno, engine='E8')
        else:
            ctx.ob('C03.D1', 'time fractions are cut to the six digits strptime(%f) accepts', True, '%s:%d' % (FP, pt.lineno))
        ht = g.get('hs_time')
        if isinstance(ht.action, G.FuncRef) and ht.action.name == '_parse_time':
            ctx.ob('C03.D1', 'hs_time is decoded by _parse_time', True, '%s:%s' % (FP, ht.lineno))
        else:
            ctx.error('C03.D1', 'hs_time action changed')
    except AnalysisError as e:
        ctx.error('C03.D1', str(e))
    # hs_cell: empty cell is null
    for ver in ('2.0', '3.0'):
        try:
            cell = g.fam('hs_cell', ver)
            kind, alts = G.alternatives(cell)
            emp = [a for a in alts if a.kind == 'Empty']
            if emp and [norm(r) for r in G.action_returns(emp[0].action)] == ['[None]']:
                ctx.ob('C03.D1', 'v%s: an empty cell is null' % ver, True, '%s:%s' % (FP, cell.lineno))
            else:
                ctx.violation('C03.D1', '%s::hs_cell' % FP, 'Empty alternative', 'the row `1,,3` is rejected or its middle '
                              'cell is not null', 'hs_cell has no Empty alternative yielding None', file=FP,
                              line=cell.lineno, engine='E2')
        except AnalysisError as e:
            ctx.error('C03.D1', str(e))


def _escape_table(ctx):
    try:
        sp = T.extract_unescape(ctx.model)
    except T.MultiPass as e:
        from . import _zinc
        _zinc.multipass(ctx, 'C03.D1', e, 'reading a string literal')
        return
    except (Unsupported, AnalysisError) as e:
        ctx.error('C03.D1', '_unescape: %s' % e)
        return
    where = '%s:%d' % (FP, sp.fn.lineno)
    if getattr(sp, 'loop_exits', None):
        ex = sp.loop_exits[0]
        ctx.violation('C03.D1', '%s::_unescape' % FP, norm(ex),
                      'the well-formed string "a\\u00e9b" is read as "a\u00e9": the scanning loop leaves with `%s` after an escape '
                      'and drops the rest of the literal' % norm(ex),
                      'a branch of the escape decoder ends the scan instead of going on with the rest of the text', file=FP,
                      line=ex.lineno, engine='E5')
        return
    for uri, table in ((False, ESCAPES_STR), (True, ESCAPES_URI)):
        for esc, want in sorted(table.items()):
            text = sp.bs + esc
            try:
                out, steps = T.decode_char(sp, text, uri)
            except ValueError as e:
                out = 'error %s' % e
            if out == want:
                ctx.ob('C03.D1', '%s escape \\%s denotes %r' % ('URI' if uri else 'string', esc, want), True, where)
            else:
                ctx.violation('C03.D1', '%s::_unescape' % FP, 'escape \\%s (uri=%s)' % (esc, uri),
                              'the %s literal containing \\%s decodes to %r; the grammar says %r' % (
                                  'URI' if uri else 'string', esc, out, want),
                              '_unescape maps the %s escape \\%s to %r instead of %r' % ('URI' if uri else 'string', esc, out, want),
                              file=FP, line=sp.fn.lineno, engine='E5')
    # \uXXXX
    for cp in (0x41, 0xe9, 0xffff, 0x0):
        for intro in ('u',):
            text = '%s%s%04x' % (sp.bs, intro, cp)
            try:
                out, _ = T.decode_char(sp, text, False)
            except ValueError as e:
                out = 'error %s' % e
            try:
                ctxout, _ = T.decode_char(sp, 'a' + text + '0Z', False)
            except ValueError as e:
                ctxout = 'error %s' % e
            if out == chr(cp) and ctxout != 'a' + chr(cp) + '0Z':
                ctx.violation('C03.D1', '%s::_unescape' % FP, '\\uXXXX in context',
                              'the string "a\\u%04x0Z" decodes to %r instead of %r: the decoder does not take exactly four hex '
                              'digits / six characters for the escape' % (cp, ctxout, 'a' + chr(cp) + '0Z'),
                              '_unescape does not consume exactly \\uXXXX', file=FP, line=sp.fn.lineno, engine='E5')
            elif out == chr(cp):
                ctx.ob('C03.D1', '\\u%04x denotes U+%04X' % (cp, cp), True, where)
            else:
                ctx.violation('C03.D1', '%s::_unescape' % FP, '\\uXXXX', 'the string "\\u%04x" decodes to %r' % (cp, out),
                              '_unescape does not decode \\uXXXX as four hexadecimal digits', file=FP,
                              line=sp.fn.lineno, engine='E5')


class _Probe(object):
    """context stand-in for optional pattern probes"""

    def ob(self, *a, **k):
        return True

    def violation(self, *a, **k):
        return None

    def error(self, *a, **k):
        return None


def _framing(ctx):
    m = ctx.model
    # known over-splitter: str.splitlines() also breaks at VT, FF, FS, GS, RS, NEL (U+0085), LS, PS, all of which
    # are legal raw characters inside ZINC strings, URIs and units
    try:
        pp0 = m.func('parser', 'parse')
        for n in ast.walk(pp0):
            if isinstance(n, ast.Call) and isinstance(n.func, ast.Attribute) and n.func.attr == 'splitlines':
                ctx.violation('C03.D3', '%s::parse' % FR, norm(n),
                              'the well-formed document \'ver:"3.0"\\na\\n"x\\u2028y"\\n\' with the character U+2028 (or '
                              'U+0085, U+001C..1E, VT, FF) written raw inside the string is cut in the middle of the token '
                              'and rejected: str.splitlines() treats those characters as line ends, ZINC only LF / CRLF',
                              'the document is split with str.splitlines(), which recognises more line boundaries than '
                              'the ZINC grammar', file=FR, line=n.lineno, engine='E3')
    except AnalysisError:
        pass
    try:
        pp = m.func('parser', 'parse')
        tnl = m.const('parser', 'TRAILING_NL_RE')
        sep = m.const('parser', 'GRID_SEP')
    except AnalysisError as e:
        ctx.error('C03.D3', str(e))
        return
    text = norm(pp)
    where = '%s:%d' % (FR, pp.lineno)
    if not isinstance(tnl, RegexConst) or not isinstance(sep, RegexConst):
        ctx.error('C03.D3', 'TRAILING_NL_RE / GRID_SEP do not fold to constant regexes')
        return
    # (0) bytes decoded first
    stmts = body_wo_doc(pp)
    idx_decode = [i for i, st in enumerate(stmts) if 'decode(encoding=charset)' in norm(st)]
    idx_regex = [i for i, st in enumerate(stmts) if 'GRID_SEP' in norm(st) or 'TRAILING_NL_RE' in norm(st) or 'json.loads' in norm(st)]
    if idx_decode and idx_regex and idx_decode[0] < min(idx_regex):
        ctx.ob('C03.D3', 'bytes input is decoded with the caller\'s charset before any regex is applied', True, where)
    else:
        ctx.violation('C03.D3', '%s::parse' % FR, 'decode(encoding=charset)', 'parse(b"...", charset="latin-1") fails or '
                      'mis-decodes', 'bytes are not decoded (with the given charset) before splitting', file=FR,
                      line=pp.lineno, engine='E6')
    # (i) final newline optional
    try:
        pr_t = L.PyRegex(tnl.pattern, tnl.flags)
        from .. import match
        probe = match.Script(_Probe(), 'C03.D3', [pp], FR, '%s::parse' % FR)
        strips_all = probe.need(["_R_text = TRAILING_NL_RE.sub('', _R_src)"], '', '', optional=True) is not None
        appends = probe.need(["_R_text += '\\n'", "_R_text = _R_text + '\\n'"], '', '', optional=True) is not None
        squeezes = probe.need(["_R_t2 = TRAILING_NL_RE.sub('\\n', _R_src)"], '', '', optional=True) is not None \
            or "TRAILING_NL_RE.sub('\\n', grid_str)" in text
        crlf_trailing = L.accepts(pr_t.body, '\r\n') and L.accepts(pr_t.body, '\n') and L.accepts(pr_t.body, '\r\n\r\n')
    except Unsupported as e:
        ctx.error('C03.D3', 'TRAILING_NL_RE: %s' % e)
        return
    if strips_all and appends:
        ctx.ob('C03.D3', 'trailing line ends are stripped and exactly one newline is appended: the final newline is '
                         'optional', True, where)
    elif strips_all and not appends:
        ctx.violation('C03.D3', '%s::parse' % FR, "TRAILING_NL_RE.sub('', grid_str)",
                      'every document loses its final newline and the last row is rejected',
                      'trailing line ends are stripped but no newline is appended for the last row', file=FR,
                      line=pp.lineno, engine='E3')
    elif squeezes:
        ctx.violation('C03.D3', '%s::parse' % FR, "TRAILING_NL_RE.sub('\\n', grid_str)",
                      'the well-formed document \'ver:"3.0"\\na\\n1\' (no final newline) is rejected: the normaliser only '
                      'squeezes existing trailing newlines and every row rule requires a line end',
                      'a document without a final newline never gets one', file=FR, line=pp.lineno, engine='E3')
    else:
        ctx.error('C03.D3', 'trailing-newline normalisation not recognised')
    if crlf_trailing:
        ctx.ob('C03.D3', 'trailing CRLF blank lines are stripped like LF ones', True, where)
    else:
        ctx.violation('C03.D3', '%s::TRAILING_NL_RE' % FR, tnl.pattern,
                      'a CRLF document ending in a blank line (…\\r\\n\\r\\n) keeps it: the grid gets a phantom all-null row',
                      'TRAILING_NL_RE does not match CRLF line ends', file=FR, engine='E3')
    # (ii) separator matches LF and CRLF blank lines
    try:
        pr_s = L.PyRegex(sep.pattern, sep.flags)
        lb_ok = pr_s.lookbehind is not None and L.accepts(pr_s.lookbehind, '\n')
        lf = L.accepts(pr_s.body, '\n')
        crlf = L.accepts(pr_s.body, '\r\n')
        many = L.accepts(pr_s.body, '\n\n\n')
    except Unsupported as e:
        ctx.error('C03.D3', 'GRID_SEP: %s' % e)
        return
    if lb_ok and lf and many:
        ctx.ob('C03.D3', 'grids are split at one or more LF blank lines', True, where)
    else:
        ctx.violation('C03.D3', '%s::GRID_SEP' % FR, sep.pattern, 'a two-grid document is not split at its blank line',
                      'GRID_SEP does not match an LF blank line after a line end', file=FR, engine='E3')
    if crlf:
        ctx.ob('C03.D3', 'grids are split at CRLF blank lines too', True, where)
    else:
        ctx.violation('C03.D3', '%s::GRID_SEP' % FR, sep.pattern,
                      'a two-grid CRLF document (…\\r\\n\\r\\nver:…) is handed to the grid grammar in one piece and rejected',
                      'GRID_SEP does not match a CRLF blank line', file=FR, engine='E3')
    # (iii) empty input
    comps = [n for n in ast.walk(pp) if isinstance(n, ast.ListComp) and 'GRID_SEP.split(' in norm(n)]
    filtered = any(len(c.generators) == 1 and c.generators[0].ifs and norm(c.generators[0].ifs[0]) in (
        norm(c.generators[0].target), '%s.strip()' % norm(c.generators[0].target), 'len(%s) > 0' % norm(c.generators[0].target))
        and norm(c.elt) == norm(c.generators[0].target) for c in comps)
    if not filtered:
        # the same filter spelled as a loop: for g in GRID_SEP.split(..): if g: pieces.append(g)
        for lp in [n for n in ast.walk(pp) if isinstance(n, ast.For) and 'GRID_SEP.split(' in norm(n.iter) and isinstance(n.target, ast.Name)]:
            v_ = lp.target.id
            if len(lp.body) == 1 and isinstance(lp.body[0], ast.If) and not lp.body[0].orelse \
                    and norm(lp.body[0].test) in (v_, '%s.strip()' % v_, 'len(%s) > 0' % v_) and len(lp.body[0].body) == 1 \
                    and isinstance(lp.body[0].body[0], ast.Expr) and isinstance(lp.body[0].body[0].value, ast.Call) \
                    and isinstance(lp.body[0].body[0].value.func, ast.Attribute) and lp.body[0].body[0].value.func.attr == 'append' \
                    and [norm(a) for a in lp.body[0].body[0].value.args] == [v_]:
                filtered = True
    if filtered:
        ctx.ob('C03.D3', 'empty pieces are dropped: empty input holds no grid', True, where)
    elif 'GRID_SEP.split' in text:
        ctx.violation('C03.D3', '%s::parse' % FR, 'GRID_SEP.split(...)',
                      'parse("") raises ZincParseException instead of returning None / []: the empty string is handed '
                      'to the grid grammar', 'empty input is not filtered out before grid parsing', file=FR,
                      line=pp.lineno, engine='E6')
    # (iv) single / multiple (path-based; shared with C09.D5 / C05.D2)
    from . import _parse
    try:
        args_ = pp.args
        names_ = [a.arg for a in args_.args]
        defs_ = dict(zip(names_[len(names_) - len(args_.defaults):], args_.defaults))
        if 'single' in defs_ and norm(defs_['single']) == 'True':
            ctx.ob('C03.D3', 'parse(..., single=True) is the default: one grid is returned unless asked otherwise', True, where)
        elif 'single' in defs_:
            ctx.violation('C03.D3', '%s::parse' % FR, 'single=%s' % norm(defs_['single']),
                          'hszinc.parse(doc) on a one-grid document returns a list instead of the grid',
                          'the default of `single` is %s, documented True' % norm(defs_['single']), file=FR,
                          line=pp.lineno, engine='E9')
        r = _parse.result_shaping(m)
        good = r['single_nonempty'] <= {'FIRST', 'FIRST1'} and r['single_nonempty'] and r['single_empty'] == {'NONE'} \
            and r['multi'] == {'ALL'}
        if good:
            ctx.ob('C03.D3', 'single=True gives the first grid (None when there is none), single=False the list of all '
                             'grids in document order (%d returning paths)' % r['n_paths'], True, where)
        else:
            bad = [(k, f) for k in ('single_nonempty', 'single_empty', 'multi') for f in r[k]
                   if f not in {'single_nonempty': ('FIRST', 'FIRST1'), 'single_empty': ('NONE',), 'multi': ('ALL',)}[k]]
            node = r['nodes'][bad[0]] if bad else pp
            ctx.violation('C03.D3', '%s::parse' % FR, norm(node),
                          'parse(doc, single=%s) on %s returns %s' % ('False' if bad and bad[0][0] == 'multi' else 'True',
                                                                      'an empty document' if bad and bad[0][0] == 'single_empty'
                                                                      else 'a well-formed document',
                                                                      {'ALL': 'the list of grids', 'NONE': 'None',
                                                                       'OTHER-ELEMENT': 'another grid than the first',
                                                                       'FIRST': 'the first grid', 'FIRST1': 'the first grid'}.get(
                                                                          bad[0][1] if bad else '', '?')),
                          'result shaping for `single` is %s' % {k: sorted(r[k]) for k in ('single_nonempty', 'single_empty', 'multi')},
                          file=FR, line=node.lineno, engine='E6')
    except (AnalysisError, Unsupported) as e:
        ctx.error('C03.D3', 'result shaping: %s' % e)


def _version_sniff(ctx):
    m = ctx.model
    try:
        vr = m.const('zincparser', 'VERSION_RE')
        pr = L.PyRegex(vr.pattern, vr.flags)
        head = L.rcat(L.rlit('ver:"'), S.rx_of(r'[0-9][0-9.]*[a-zA-Z0-9.\-+ ]*'), L.rlit('"'), L.rany_star())
        w = L.find_not_included(head, pr.match_lang())
    except (Unsupported, AnalysisError, AttributeError) as e:
        ctx.error('C03.D4', 'VERSION_RE: %s' % e)
        return
    if w:
        ctx.violation('C03.D4', '%s::VERSION_RE' % FP, vr.pattern, 'a document starting %r is rejected before the grammar '
                      'is even selected' % _zinc.show(w[0]), 'VERSION_RE does not accept every version header', file=FP,
                      engine='E3')
    else:
        ctx.ob('C03.D4', 'VERSION_RE accepts every header ver:"<version>"', True, FP)
    try:
        pg = m.func('zincparser', 'parse_grid')
        from .. import match
        # (a) the grammar of a grid is chosen by ITS OWN header: no caller hands a version in from outside
        extra = [a.arg for a in pg.args.args[1:] if a.arg not in ('parseAll', 'parse_all')]
        handed = []
        for node in ast.walk(m.mod('parser').tree):
            if isinstance(node, ast.Call):
                fnm = norm(node.func)
                tgt = None
                if fnm in ('parse_zinc_grid', 'zincparser.parse_grid', 'parse_grid'):
                    tgt = node
                elif fnm in ('functools.partial', 'partial') and node.args and norm(node.args[0]) in ('_parse', 'parse_grid', 'parse_zinc_grid'):
                    tgt = node
                if tgt is not None and any(k.arg == 'version' for k in tgt.keywords):
                    handed.append(tgt)
        if extra and 'version' in extra and handed:
            h0 = handed[0]
            ctx.violation('C03.D4', 'hszinc/parser.py::parse', norm(h0)[:160],
                          'a two-grid document whose first grid says ver:"2.0" and whose second says ver:"3.0" and holds a list (or '
                          'NA): every grid is parsed with the version handed in by `%s` -- the version of the FIRST grid -- so the '
                          'well-formed second grid is rejected' % norm(h0)[:60],
                          'the ZINC grid parser takes the version from its caller instead of from the header of the grid it parses',
                          file='hszinc/parser.py', line=h0.lineno, engine='E7')
        elif extra and 'version' in extra:
            ctx.ob('C03.D4', 'parse_grid has a version parameter but no caller in parser.py passes one', True, '%s:%d' % (FP, pg.lineno))
        else:
            ctx.ob('C03.D4', 'the ZINC grid parser takes no version from its caller: each grid is parsed by its own header', True,
                   '%s:%d' % (FP, pg.lineno))
        fns_ = match.with_local_callees(m, 'zincparser', pg)
        sg = match.Script(ctx, 'C03.D4', fns_, FP, '%s::parse_grid' % FP)
        sg.need(['_R_vm = VERSION_RE.match(_R_data)'], 'the version header is sniffed from the start of the text',
                'the version is taken from somewhere else than the header')
        sg.need(['_R_version = Version(_R_vm.group(1))', 'return Version(_R_vm.group(1))'], 'the sniffed text becomes the version',
                'another group of the header than the version text selects the grammar')
        sg.need(['return hs_grid[_R_version].parseString(_R_data, parseAll=_R_pa)[0]',
                 'return hs_grid[_R_version].parse_string(_R_data, parse_all=_R_pa)[0]'],
                'the grammar is selected by the sniffed version (NearestMatch -> Version.nearest)',
                'the document is parsed with the grammar of another version')
    except AnalysisError as e:
        ctx.error('C03.D4', str(e))
