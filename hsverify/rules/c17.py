"""C17 -- date-times keep instant, offset and zone through every zone and DST transition."""
from __future__ import annotations

import ast

from .. import exceptions as X
from ..model import AnalysisError, body_wo_doc, norm, walk_no_nested

META = {
    'level': 'other',
    'explanation': (
        'Narrow static analysis; the arithmetic itself (offsets at zone x transition points, ambiguous and skipped '
        'local times, microseconds) lives in pytz/iso8601 and the host\'s tz database and is NOT decided.  Decided: '
        '(D1) the zone-name map is one-to-one by construction: in _map_timezones every store is tz_map[K] = <loop '
        'variable> under `K in todo`, followed by todo.discard(K) and `continue` (one store per Olson zone, unique '
        'keys), the reverse map is the comprehension that swaps the pairs, both are assigned only in _gen_map.  '
        '(D2) instant-preserving API: both readers convert the aware ISO stamp with astimezone(named zone), never '
        'replace(tzinfo=...)/localize on an aware value; both writers emit isoformat() of the value itself plus the '
        'zone name and never convert it.  (D3) failure discipline of timezone_name: only ValueError can leave (tabled '
        'may-raise facts), every zone returned by the fallback scan is dominated by the test "offset of the candidate at '
        'that instant == offset of the value", the UTC shortcut by offset == 0 and only after the mapped-zone lookup, the last statement raises ValueError; '
        'timezone_name is not memoised (aware datetimes compare by instant); every zone name the writer can emit is a token the ZINC reader accepts (date-time row of the writer/reader pairing).'
        ' Also (D2): the zone conversion is not conditioned on the truthiness of utcoffset() (timedelta(0) is falsy); every binding of the written zone label is timezone_name(value).'
        " Round 9: (D1) the zone tables are bound by assignment only, never changed in place; (D3) the zone name is taken from pytz's own `zone` attribute only (a `key` of a foreign tzinfo is not justified without the offset test)."),
    'rule_text': 'obligations = map-construction facts, reader/writer API sites, timezone_name paths',
    'trusted_base': ['pytz.all_timezones lists each zone once; astimezone() preserves the instant; spec/may_raise.json'],
}

FZ = 'hszinc/zoneinfo.py'


def run(ctx):
    m = ctx.model
    _map(ctx, m)
    map_publication(ctx, m, 'C17.D1')
    _api(ctx, m)
    _timezone_name(ctx, m)
    zone_applied(ctx, m, 'C17.D2', 'zincparser', '_parse_datetime', 'zinc')
    zone_applied(ctx, m, 'C17.D2', 'jsonparser', 'parse_embedded_scalar', 'json')
    # every zone name the writer can emit is a token the ZINC reader accepts as a date-time (D2; the date-time row of
    # C01.D2's writer-template vs reader-alternative inclusion)
    from . import _zinc
    for version in ('3.0', '2.0'):
        t = _zinc.writer_templates(ctx, 'C17.D2', 'zincdumper', 'zinc', version)
        _zinc.pairing(ctx, 'C17.D2', version, {k: v for k, v in t.items() if k == 'datetime'})


def _map(ctx, m):
    try:
        fn = m.func('zoneinfo', '_map_timezones')
        gm = m.func('zoneinfo', '_gen_map')
    except AnalysisError as e:
        ctx.error('C17.D1', str(e))
        return
    loops = [n for n in body_wo_doc(fn) if isinstance(n, ast.For)]
    if len(loops) != 1 or not isinstance(loops[0].target, ast.Name):
        ctx.error('C17.D1', '_map_timezones: loop over pytz.all_timezones not recognised')
        return
    lp = loops[0]
    var = lp.target.id
    if norm(lp.iter) != 'pytz.all_timezones':
        ctx.violation('C17.D1', '%s::_map_timezones' % FZ, norm(lp.iter), 'zones are mapped from another source than pytz\'s list',
                      'the map is not built from pytz.all_timezones', file=FZ, line=lp.lineno, engine='E6')
    # the map is the value returned; the work list is the copy of the official name set
    rets = [norm(x.value) for x in body_wo_doc(fn) if isinstance(x, ast.Return) and x.value is not None]
    mapvar = rets[-1] if rets else 'tz_map'
    todos = [norm(x.targets[0]) for x in body_wo_doc(fn) if isinstance(x, ast.Assign) and len(x.targets) == 1
             and norm(x.value) in ('HAYSTACK_TIMEZONES_SET.copy()', 'set(HAYSTACK_TIMEZONES_SET)', 'set(HAYSTACK_TIMEZONES)')]
    todo = todos[0] if todos else 'todo'
    stores = []
    for n in ast.walk(lp):
        if isinstance(n, ast.Assign) and isinstance(n.targets[0], ast.Subscript) and norm(n.targets[0].value) == mapvar:
            stores.append(n)
    ctx.count('stores into the zone map', len(stores))
    ctx.floor('stores into the zone map', len(stores), 2)
    for st in stores:
        key = norm(st.targets[0].slice)
        val = norm(st.value)
        parent = getattr(st, '_parent', None)
        guard = norm(parent.test) if isinstance(parent, ast.If) else None
        sibs = [norm(x) for x in parent.body] if isinstance(parent, ast.If) else []
        ok = val == var and guard == '%s in %s' % (key, todo) and ('%s.discard(%s)' % (todo, key) in sibs
                                                                   or '%s.remove(%s)' % (todo, key) in sibs) \
            and sibs and sibs[-1] == 'continue'
        if ok:
            ctx.ob('C17.D1', 'tz_map[%s] = %s only while %s is still unmapped; then it is discarded and the zone is done'
                   % (key, var, key), True, '%s:%d' % (FZ, st.lineno))
        else:
            ctx.violation('C17.D1', '%s::_map_timezones' % FZ, norm(st),
                          'two Haystack names map to one Olson zone, or one name is re-mapped: timezone(timezone_name(dt)) '
                          'is no longer the zone of dt',
                          'store `%s` is not of the form tz_map[K] = <zone> under `K in todo` + todo.discard(K) + continue '
                          '(guard %s)' % (norm(st), guard), file=FZ, line=st.lineno, engine='E6')
    texts = [norm(x) for x in walk_no_nested(gm) if isinstance(x, ast.Assign)]
    if '_TZ_MAP = _map_timezones()' in texts and any(t_ in texts for t_ in ('_TZ_RMAP = dict([(z, n) for (n, z) in list(_TZ_MAP.items())])', '_TZ_RMAP = dict([(z, n) for n, z in list(_TZ_MAP.items())])')):
        ctx.ob('C17.D1', 'the reverse map swaps the pairs of the forward map', True, '%s:%d' % (FZ, gm.lineno))
    else:
        ctx.violation('C17.D1', '%s::_gen_map' % FZ, '; '.join(texts),
                      'timezone_name(timezone(n)) != n for some zone', 'the reverse map is not the pair-swap of _TZ_MAP',
                      file=FZ, line=gm.lineno, engine='E9')
    writers = set()
    for n in ast.walk(m.mod('zoneinfo').tree):
        if isinstance(n, ast.Assign):
            for t in n.targets:
                if isinstance(t, ast.Name) and t.id in ('_TZ_MAP', '_TZ_RMAP'):
                    p = n
                    while p is not None and not isinstance(p, ast.FunctionDef):
                        p = getattr(p, '_parent', None)
                    writers.add(p.name if p is not None else '<module>')
    if writers <= {'_gen_map', '<module>'}:
        ctx.ob('C17.D1', 'the maps are assigned only at module level (None) and in _gen_map', True)
    else:
        ctx.violation('C17.D1', '%s::%s' % (FZ, sorted(writers)), 'writers of _TZ_MAP/_TZ_RMAP',
                      'the maps can change after they were built', 'unexpected writer(s): %s' % sorted(writers - {'_gen_map', '<module>'}),
                      file=FZ, engine='E7')
    # the accessors build the maps before handing them out
    for acc, var in (('get_tz_map', '_TZ_MAP'), ('get_tz_rmap', '_TZ_RMAP')):
        try:
            af = m.func('zoneinfo', acc)
        except AnalysisError as e:
            ctx.error('C17.D1', str(e))
            continue
        b_ = body_wo_doc(af)
        calls_gen = [i for i, st in enumerate(b_) if isinstance(st, ast.Expr) and norm(st.value) == '_gen_map()']
        rets_ = [i for i, st in enumerate(b_) if isinstance(st, ast.Return)]
        if calls_gen and rets_ and calls_gen[0] < rets_[0] and norm(b_[rets_[0]].value) == var:
            ctx.ob('C17.D1', '%s() builds the maps (_gen_map) before returning %s' % (acc, var), True, '%s:%d' % (FZ, af.lineno))
        elif rets_ and norm(b_[rets_[0]].value) == var and not calls_gen:
            ctx.violation('C17.D1', '%s::%s' % (FZ, acc), norm(b_[rets_[0]]),
                          'in a fresh process timezone("UTC") (or the first dump of a date-time) fails with TypeError: %s is still '
                          'None because %s() does not call _gen_map()' % (var, acc),
                          '%s returns %s without building it first' % (acc, var), file=FZ, line=af.lineno, engine='E7')
        else:
            ctx.error('C17.D1', '%s(): shape not recognised' % acc)
    # timezone(): unknown name -> ValueError
    try:
        tz = m.func('zoneinfo', 'timezone')
        t = norm(tz)
        hp = tz.args.args[0].arg
        lookups = [x for x in ast.walk(tz) if isinstance(x, ast.Assign) and len(x.targets) == 1 and isinstance(x.targets[0], ast.Name)
                   and isinstance(x.value, ast.Subscript) and norm(x.value.slice) == hp]
        zv = lookups[0].targets[0].id if lookups else None
        in_try = bool(lookups) and isinstance(getattr(lookups[0], '_parent', None), ast.Try) and any(
            h.type is not None and norm(h.type) == 'KeyError' and h.body and isinstance(h.body[-1], ast.Raise)
            and norm(h.body[-1].exc).startswith('ValueError') for h in lookups[0]._parent.handlers)
        if in_try and zv and 'return pytz.timezone(%s)' % zv in t:
            ctx.ob('C17.D1', 'timezone(name) looks the name up in the map; unknown names raise ValueError', True,
                   '%s:%d' % (FZ, tz.lineno))
        else:
            ctx.error('C17.D1', 'timezone() not recognised')
    except AnalysisError as e:
        ctx.error('C17.D1', str(e))


def map_publication(ctx, m, rule):
    """The name<->zone tables are read without a lock by every reader and writer thread (timezone(), timezone_name()).
    Decides: the module-level tables the accessors hand out are never changed in place -- no subscript store, no
    update()/setdefault()/pop()/clear() on them anywhere in zoneinfo.py; they are built aside and bound by assignment.
    A table filled in place is visible half-built: a second thread's timezone('Berlin') raises ValueError while the
    first thread is still at 'Asia/...', the readers' handler swallows it and the date-time keeps a fixed offset
    instead of its zone."""
    try:
        mod = m.mod('zoneinfo')
    except AnalysisError as e:
        ctx.error(rule, str(e))
        return
    tables = set()
    for acc in ('get_tz_map', 'get_tz_rmap'):
        try:
            af = m.func('zoneinfo', acc)
        except AnalysisError as e:
            ctx.error(rule, str(e))
            return
        for n in walk_no_nested(af):
            if isinstance(n, ast.Return) and isinstance(n.value, ast.Name):
                tables.add(n.value.id)
    if not tables:
        ctx.error(rule, 'accessors of the zone tables not recognised')
        return
    hits = []
    for n in ast.walk(mod.tree):
        tgt = []
        if isinstance(n, ast.Assign):
            tgt = n.targets
        elif isinstance(n, ast.AugAssign):
            tgt = [n.target]
        elif isinstance(n, ast.Delete):
            tgt = n.targets
        for t in tgt:
            for x in (t.elts if isinstance(t, (ast.Tuple, ast.List)) else [t]):
                if isinstance(x, ast.Subscript) and isinstance(x.value, ast.Name) and x.value.id in tables:
                    hits.append(n)
        if isinstance(n, ast.AugAssign) and isinstance(n.target, ast.Name) and n.target.id in tables:
            hits.append(n)
        if isinstance(n, ast.Call) and isinstance(n.func, ast.Attribute) and isinstance(n.func.value, ast.Name) \
                and n.func.value.id in tables and n.func.attr in ('update', 'setdefault', 'pop', 'popitem', 'clear', '__setitem__',
                                                                  '__delitem__'):
            hits.append(n)
    if not hits:
        ctx.ob(rule, 'the zone tables %s are bound by assignment only, never changed in place: a reader sees no table or a '
                     'complete one' % ', '.join(sorted(tables)), True, FZ)
        return
    n = hits[0]
    p = n
    while p is not None and not isinstance(p, ast.FunctionDef):
        p = getattr(p, '_parent', None)
    ctx.violation(rule, '%s::%s' % (FZ, p.name if p is not None else '<module>'), norm(n),
                  'thread A triggers the first build of the zone tables and has filled them up to "Asia/..."; thread B parses '
                  '"t:2020-06-01T12:00:00+02:00 Berlin": the table is no longer empty, so it is not rebuilt, "Berlin" is not in it '
                  'yet, timezone() raises ValueError, the reader\'s handler keeps the fixed +02:00 offset and the zone name is lost '
                  '(a writer thread gets ValueError from timezone_name for a mapped zone)',
                  'the table is changed in place by `%s` (%d site(s)): it is visible to other threads while half built or half '
                  'updated' % (norm(n)[:70], len(hits)), file=FZ, line=n.lineno, engine='E7')


def _api(ctx, m, rule='C17.D2', only=None, conversions_only=False):
    sites = 0
    for modname, fname in (('zincparser', '_parse_datetime'), ('jsonparser', 'parse_embedded_scalar'), ('grid_filter', '_parse_datetime')):
        if only and modname not in only:
            continue
        try:
            fn = m.func(modname, fname)
        except AnalysisError as e:
            ctx.error(rule, str(e))
            continue
        F = 'hszinc/%s.py' % modname
        conv = [n for n in ast.walk(fn) if isinstance(n, ast.Call) and isinstance(n.func, ast.Attribute)
                and n.func.attr in ('astimezone', 'replace', 'localize', 'localise')]
        for c in conv:
            sites += 1
            if c.func.attr == 'astimezone':
                ctx.ob(rule, '%s.%s converts the aware stamp with astimezone (instant preserved)' % (modname, fname), True,
                       '%s:%d' % (F, c.lineno))
            elif c.func.attr == 'replace' and any(k.arg == 'tzinfo' for k in c.keywords):
                ctx.violation(rule, '%s::%s' % (F, fname), norm(c),
                              '2021-07-01T12:00:00+02:00 Paris read in winter-offset zones: replace(tzinfo=...) keeps the wall '
                              'clock and changes the instant', 'the reader attaches the zone with replace(tzinfo=) instead of '
                              'converting the instant', file=F, line=c.lineno, engine='E9')
            elif c.func.attr in ('localize', 'localise'):
                # only on the branch for naive stamps
                p = c
                guarded = False
                while p is not None and p is not fn:
                    if isinstance(p, ast.If) and 'tzinfo is None' in norm(p.test):
                        guarded = True
                    p = getattr(p, '_parent', None)
                if guarded:
                    ctx.ob(rule, '%s.%s: localize only on the (unreachable) naive-stamp branch' % (modname, fname), True,
                           '%s:%d' % (F, c.lineno))
                else:
                    ctx.violation(rule, '%s::%s' % (F, fname), norm(c), 'an aware stamp is re-interpreted as wall time',
                                  'localize() applied outside the naive-stamp branch', file=F, line=c.lineno, engine='E9')
    readers = [x for x in ('zincparser', 'jsonparser', 'grid_filter') if not only or x in only]
    if readers:
        ctx.floor('reader conversion sites', sites, len(readers))
    for modname in ('zincdumper', 'jsondumper'):
        if only and modname not in only:
            continue
        try:
            fn = m.func(modname, 'dump_date_time')
        except AnalysisError as e:
            ctx.error(rule, str(e))
            continue
        F = 'hszinc/%s.py' % modname
        a = fn.args.args[0].arg
        bad = [n for n in ast.walk(fn) if isinstance(n, ast.Call) and isinstance(n.func, ast.Attribute)
               and n.func.attr in ('astimezone', 'replace', 'localize', 'utcnow', 'normalize')]
        rets = [norm(n.value) for n in walk_no_nested(fn) if isinstance(n, ast.Return)]
        okret = any('%s.isoformat()' % a in r and 'tz_name' in r for r in rets)
        tzn = [norm(n) for n in ast.walk(fn) if isinstance(n, ast.Call) and norm(n.func) == 'timezone_name']
        # every binding of the name that is written as the zone label is timezone_name(<the value>)
        other = []
        if not bad and okret and tzn:
            labels = {x.id for r_ in walk_no_nested(fn) if isinstance(r_, ast.Return) and r_.value is not None
                      for x in ast.walk(r_.value) if isinstance(x, ast.Name) and x.id not in (a, 'version')}
            for st_ in walk_no_nested(fn):
                if isinstance(st_, ast.Assign) and len(st_.targets) == 1 and isinstance(st_.targets[0], ast.Name) \
                        and st_.targets[0].id in labels:
                    v_ = st_.value
                    if not (isinstance(v_, ast.Call) and norm(v_.func) == 'timezone_name' and v_.args and norm(v_.args[0]) == a):
                        other.append(st_)
        if other:
            st_ = other[0]
            ctx.violation(rule, '%s::dump_date_time' % F, norm(st_),
                          'a date-time in London in winter (2021-01-15T12:00:00+00:00 London), or in Reykjavik / Accra / GMT at any '
                          'time: the zone label is taken from `%s`, not from timezone_name(value), and the value is read back in '
                          'another zone than it was written from' % norm(st_.value)[:40],
                          'dump_date_time writes a zone label that does not come from timezone_name(value) on every path', file=F,
                          line=st_.lineno, engine='E9')
        elif not bad and okret and tzn and tzn[0].startswith('timezone_name(%s' % a):
            ctx.ob(rule, '%s.dump_date_time emits isoformat() of the value itself plus timezone_name(value)' % modname,
                   True, '%s:%d' % (F, fn.lineno))
        elif bad:
            ctx.violation(rule, '%s::dump_date_time' % F, norm(bad[0]),
                          'the written stamp denotes another instant/offset than the value: the value is converted with '
                          '`%s` before it is written' % norm(bad[0])[:60],
                          'dump_date_time converts the value instead of emitting isoformat() of the value itself', file=F,
                          line=bad[0].lineno, engine='E9')
        elif conversions_only:
            pass            # (the caller only asks whether the value is converted before it is written)
        elif tzn and not any('%s.isoformat()' % a in r for r in rets) and any('isoformat' not in r for r in rets):
            ctx.violation(rule, '%s::dump_date_time' % F, '; '.join(rets),
                          'the written stamp is not isoformat() of the value (or lacks its zone name)',
                          'dump_date_time does not emit isoformat() + zone name', file=F, line=fn.lineno, engine='E9')
        else:
            ctx.error(rule, '%s.dump_date_time: shape `%s` not recognised; cannot decide' % (modname, '; '.join(rets)[:100]))


def _timezone_name(ctx, m, rule='C17.D3'):
    try:
        fn = m.func('zoneinfo', 'timezone_name', 'flat')
    except AnalysisError as e:
        ctx.error(rule, str(e))
        return
    dt = fn.args.args[0].arg
    body = body_wo_doc(fn)
    where = '%s:%d' % (FZ, fn.lineno)
    # memoisation: aware datetimes compare (and hash) by INSTANT, so a cache keyed by the argument conflates the same
    # instant in two zones
    orig = m.func('zoneinfo', 'timezone_name')
    for d in orig.decorator_list:
        dn = norm(d.func) if isinstance(d, ast.Call) else norm(d)
        if dn.split('.')[-1] in ('lru_cache', 'cache', 'memoize', 'memoized', 'cached', 'cached_property'):
            ctx.violation(rule, '%s::timezone_name' % FZ, '@' + norm(d),
                          'one grid with the columns tsUtc = 2021-06-01T00:00:00Z (UTC) and tsSite = 2021-06-01T10:00:00+10:00 '
                          '(Brisbane): the two values are == and hash alike (same instant), so the second look-up returns the '
                          'cached name of the first -- it is written `...+10:00 UTC` and reads back in another zone',
                          'timezone_name is memoised on its argument; equality of aware date-times ignores the zone', file=FZ,
                          line=orig.lineno, engine='E7')
        else:
            ctx.error(rule, 'timezone_name carries the decorator @%s: effect not tabled; cannot decide' % norm(d))
    if not orig.decorator_list:
        ctx.ob(rule, 'timezone_name is not memoised (its answer depends on zone AND instant, not on datetime equality)', True, where)
    rmaps = [norm(x.targets[0]) for x in body if isinstance(x, ast.Assign) and len(x.targets) == 1
             and isinstance(x.value, ast.Call) and norm(x.value.func) == 'get_tz_rmap']
    rmap = rmaps[0] if rmaps else 'tz_rmap'
    bad, unknown, nc = X.escaping(fn)
    if bad:
        call, exc = bad[0]
        ctx.violation(rule, '%s::timezone_name' % FZ, norm(call),
                      'a fixed-offset date-time such as 2021-03-28T02:30+05:45: `%s` raises %s (the wall time falls into a '
                      'DST gap/overlap of a scanned zone) instead of the writer answering with a zone or ValueError'
                      % (norm(call)[:70], exc),
                      'timezone_name may let %s escape; only ValueError is allowed' % exc, file=FZ, line=call.lineno,
                      engine='E8')
    else:
        ctx.ob(rule, 'no tabled call of timezone_name can raise anything but ValueError (%d calls, untabled: %s)'
               % (nc, sorted(set(unknown))[:6]), True, where)
    if isinstance(body[-1], ast.Raise) and norm(body[-1].exc).startswith('ValueError'):
        ctx.ob(rule, 'when no zone fits, timezone_name raises ValueError', True, '%s:%d' % (FZ, body[-1].lineno))
    else:
        ctx.violation(rule, '%s::timezone_name' % FZ, norm(body[-1]), 'an unmappable tzinfo yields None / another exception',
                      'the last statement is not `raise ValueError`', file=FZ, line=body[-1].lineno, engine='E8')
    # naive values refused
    first_if = [x for x in body if isinstance(x, ast.If) and norm(x.test) == '%s.tzinfo is None' % dt]
    if first_if and isinstance(first_if[0].body[0], ast.Raise) and norm(first_if[0].body[0].exc).startswith('ValueError'):
        ctx.ob(rule, 'a naive date-time is refused with ValueError', True, '%s:%d' % (FZ, first_if[0].lineno))
    # UTC shortcut
    offs = [x for x in body if isinstance(x, ast.Assign) and norm(x.value) == '%s.utcoffset()' % dt]
    off = norm(offs[0].targets[0]) if offs else None
    for n in walk_no_nested(fn):
        if isinstance(n, ast.Return) and isinstance(n.value, ast.Constant) and n.value.value == 'UTC':
            p = getattr(n, '_parent', None)
            if isinstance(p, ast.If) and off and norm(p.test) in ('%s == datetime.timedelta(0)' % off, 'not %s' % off):
                ctx.ob(rule, 'the UTC shortcut is taken only when the offset is zero', True, '%s:%d' % (FZ, n.lineno))
                # ... and only for a tzinfo that is not a mapped zone: the fast path must have been tried before
                fast = [x for x in body if isinstance(x, ast.Try)
                        and any(isinstance(y, ast.Attribute) and y.attr == 'zone' for y in ast.walk(x))]
                top = p
                while getattr(top, '_parent', None) is not fn and getattr(top, '_parent', None) is not None:
                    top = top._parent
                if not fast:
                    ctx.error(rule, 'timezone_name: mapped-zone fast path not recognised')
                elif top in body and body.index(top) > body.index(fast[0]):
                    ctx.ob(rule, 'the UTC shortcut is reached only after the mapped-zone lookup failed', True,
                           '%s:%d' % (FZ, n.lineno))
                elif top in body:
                    ctx.violation(rule, '%s::timezone_name' % FZ, norm(p),
                                  'a date-time in Europe/London in January (offset +00:00) is written with the zone name UTC '
                                  'instead of London: it reads back as a UTC value, another Haystack DateTime (GMT, Lisbon, '
                                  'Reykjavik, Accra likewise)',
                                  'the zero-offset shortcut `return \'UTC\'` is taken before the zone of a mapped tzinfo is '
                                  'looked up', file=FZ, line=n.lineno, engine='E6')
                else:
                    ctx.error(rule, 'timezone_name: position of the UTC shortcut not recognised')
            else:
                ctx.violation(rule, '%s::timezone_name' % FZ, norm(p) if p is not None else norm(n),
                              'a +05:00 fixed-offset value is written with the zone UTC', 'return "UTC" is not guarded by '
                              'offset == timedelta(0)', file=FZ, line=n.lineno, engine='E6')
    # the name of a tzinfo is its pytz zone name and nothing else: the readers re-apply the name through pytz, so only a
    # pytz tzinfo (attribute `zone`) guarantees that the named zone has the value's offset at that instant
    foreign = []
    for n in walk_no_nested(fn):
        if not (isinstance(n, ast.Return) and isinstance(n.value, ast.Subscript) and norm(n.value.value) == rmap):
            continue
        key = n.value.slice
        srcs = [key]
        if isinstance(key, ast.Name):
            srcs = [x.value for x in walk_no_nested(fn) if isinstance(x, ast.Assign) and len(x.targets) == 1
                    and norm(x.targets[0]) == key.id]
        for src in srcs:
            attrs = None
            if isinstance(src, ast.Attribute) and norm(src.value) == '%s.tzinfo' % dt:
                attrs = [src.attr]
            elif isinstance(src, ast.Call) and norm(src.func) == 'getattr' and len(src.args) >= 2 \
                    and norm(src.args[0]) == '%s.tzinfo' % dt:
                a = src.args[1]
                if isinstance(a, ast.Constant) and isinstance(a.value, str):
                    attrs = [a.value]
                elif isinstance(a, ast.Name):
                    for lp_ in walk_no_nested(fn):
                        if isinstance(lp_, ast.For) and isinstance(lp_.target, ast.Name) and lp_.target.id == a.id \
                                and isinstance(lp_.iter, (ast.Tuple, ast.List)) \
                                and all(isinstance(e, ast.Constant) and isinstance(e.value, str) for e in lp_.iter.elts):
                            attrs = [e.value for e in lp_.iter.elts]
            if attrs is None:
                continue
            for a in attrs:
                if a != 'zone':
                    foreign.append((n, a))
    if foreign:
        n, a = foreign[0]
        ctx.violation(rule, '%s::timezone_name' % FZ, norm(n),
                      'a date-time whose tzinfo is the standard library\'s zoneinfo.ZoneInfo("America/New_York") at '
                      '2040-07-15T08:30:15-04:00 (pytz\'s tables end in 2037, the system database goes on): the name New_York is '
                      'written without comparing offsets, the reader applies pytz\'s New_York (-05:00 at that instant) and '
                      'returns 07:30:15-05:00 -- neither a zone with the value\'s offset nor ValueError',
                      'the zone name is taken from the attribute `%s` of the tzinfo and looked up in the name table without the '
                      'offset test; only pytz\'s own `zone` attribute names a zone of the database the readers use' % a,
                      file=FZ, line=n.lineno, engine='E6')
    # scan
    loops = [x for x in body if isinstance(x, ast.For) and rmap in norm(x.iter)] or [x for x in body if isinstance(x, ast.For)]
    if len(loops) != 1:
        ctx.error(rule, 'fallback scan loop not found')
        return
    lp = loops[0]
    names = [norm(e) for e in lp.target.elts] if isinstance(lp.target, ast.Tuple) else []
    rets = [n for n in ast.walk(lp) if isinstance(n, ast.Return)]
    for r in rets:
        p = getattr(r, '_parent', None)
        t = norm(p.test) if isinstance(p, ast.If) else ''
        ok = False
        if len(names) == 2 and off:
            olson, hay = names
            good = {'%s.astimezone(pytz.timezone(%s)).utcoffset() == %s' % (dt, olson, off),
                    '%s == %s.astimezone(pytz.timezone(%s)).utcoffset()' % (off, dt, olson),
                    'pytz.timezone(%s).utcoffset(dt_notz) == %s' % (olson, off)}
            ok = t in good and norm(r.value) == hay
        if ok:
            ctx.ob(rule, 'a zone is returned by the scan only if its offset at that instant equals the value\'s offset',
                   True, '%s:%d' % (FZ, r.lineno))
        else:
            ctx.violation(rule, '%s::timezone_name' % FZ, norm(p) if p is not None else norm(r),
                          'a +05:45 fixed-offset value is written with the first scanned zone, whatever its offset',
                          'a return inside the fallback scan is not dominated by the offset-equality test (guard: %r)' % t,
                          file=FZ, line=r.lineno, engine='E6')
    if norm(lp.iter) in ('list(%s.items())' % rmap, '%s.items()' % rmap):
        ctx.ob(rule, 'the scan ranges over the mapped zones only', True, '%s:%d' % (FZ, lp.lineno))
    # every return of a zone must be one of the three justified ones (fast path, UTC shortcut, guarded scan)
    justified = set()
    for r in rets:
        justified.add(id(r))
    for n in walk_no_nested(fn):
        if isinstance(n, ast.Return) and isinstance(n.value, ast.Constant) and n.value.value == 'UTC':
            justified.add(id(n))
    tries0 = [x for x in body if isinstance(x, ast.Try)]
    zone_var = None
    if tries0:
        for st in tries0[0].body:
            if isinstance(st, ast.Assign) and len(st.targets) == 1 and norm(st.value) == '%s.tzinfo.zone' % dt:
                zone_var = norm(st.targets[0])
        for n in ast.walk(tries0[0]):
            if isinstance(n, ast.Return) and norm(n.value) in ('%s[%s]' % (rmap, zone_var), '%s[%s.tzinfo.zone]' % (rmap, dt)):
                justified.add(id(n))
    for n in walk_no_nested(fn):
        if isinstance(n, ast.Return) and id(n) not in justified and n.value is not None:
            ctx.violation(rule, '%s::timezone_name' % FZ, norm(n),
                          'two fixed-offset values with the same offset on either side of a DST change of the first matching '
                          'zone (e.g. -10:00 in January, then -10:00 in July): the second is written with the zone found for '
                          'the first (`%s`), whose offset at that instant differs -- the written stamp denotes another '
                          'offset/zone than the value' % norm(n.value),
                          'timezone_name returns `%s` without the test that the zone\'s offset at this instant equals the '
                          'value\'s offset (a remembered/looked-up zone is only valid for the instant it was found at)'
                          % norm(n.value), file=FZ, line=n.lineno, engine='E6')
    # fast path
    tries = [x for x in body if isinstance(x, ast.Try)]
    if tries and [norm(x) for x in tries[0].body] in (['%s = %s.tzinfo.zone' % (zone_var, dt), 'return %s[%s]' % (rmap, zone_var)],
                                                       ['return %s[%s.tzinfo.zone]' % (rmap, dt)]):
        hk = sorted(norm(h.type) for h in tries[0].handlers if h.type is not None)
        if hk == ['AttributeError', 'KeyError']:
            ctx.ob(rule, 'the pytz fast path falls through on KeyError/AttributeError', True, '%s:%d' % (FZ, tries[0].lineno))
        else:
            ctx.violation(rule, '%s::timezone_name' % FZ, 'handlers %s' % hk, 'a non-pytz tzinfo raises AttributeError out of '
                          'timezone_name', 'fast path does not catch KeyError and AttributeError', file=FZ,
                          line=tries[0].lineno, engine='E8')


# ---------------------------------------------------------------- the readers apply the zone name that was written

def _guards(fn, st):
    """[(test text, polarity)] of the ifs that enclose statement st inside fn"""
    out = []
    child = st
    p = getattr(st, '_parent', None)
    while p is not None and p is not fn:
        if isinstance(p, ast.If):
            if child in p.body:
                out.append((p.test, True))
            elif child in p.orelse:
                out.append((p.test, False))
        child = p
        p = getattr(p, '_parent', None)
    return out


def zone_applied(ctx, m, rule, modname, fname, style, catches=False):
    """The reader takes the zone label from the right token / capture group, looks it up with timezone() and converts the
    stamp into it -- and does so exactly when a label is present.  The conversion sits in a `try` whose bare `except`
    returns the unconverted stamp, so taking the wrong token, dropping the look-up or inverting the guard does not
    fail: it silently ignores the zone."""
    from .. import match
    F_ = 'hszinc/%s.py' % modname
    try:
        fn = m.func(modname, fname, 'nested')      # if/else spelling: every guard is explicit on the path to a statement
    except AnalysisError as e:
        ctx.error(rule, str(e))
        return
    con = '%s::%s' % (F_, fname)
    sc = match.Script(ctx, rule, [fn], F_, con, engine='E7')
    lost = 'a stamp written with a zone name (2021-07-01T12:00:00+02:00 Paris) is read back without it: the value keeps a bare ' \
           'UTC offset instead of the named zone'
    if style == 'zinc':
        sc.seed('toks', fn.args.args[0].arg)
        sc.need(['_R_iso = _R_toks[0]'], 'the ISO stamp is the first token', 'the zone label is parsed as the stamp')
        tzs = sc.need(['_R_tzname = _R_toks[1]'], 'the zone label is the second token', lost)
        src_guard_ok = ('len({t}) > 1', 'len({t}) >= 2', 'len({t}) == 2')
    else:
        # (bad forms are only meaningful for the name that is later handed to timezone())
        tzarg = [c.args[0].id for c in ast.walk(fn) if isinstance(c, ast.Call) and norm(c.func) == 'timezone' and c.args
                 and isinstance(c.args[0], ast.Name)]
        if tzarg:
            sc.seed('tzname', tzarg[0])
        tzs = sc.need(['_R_tzname = _R_groups[-1]'], 'the zone label is the last capture group', lost,
                      bad=['_R_tzname = _R_groups[0]', '_R_tzname = _R_groups[1]', '_R_tzname = _R_groups[-2]'])
        src_guard_ok = ()
    look = sc.need(['_R_tz = timezone(_R_tzname)'], 'the label is looked up with timezone()', lost, optional=True)
    if look is not None:
        conv = sc.need(['return [_R_iso.astimezone(_R_tz)]', 'return _R_iso.astimezone(_R_tz)'],
                       'the stamp is converted into the named zone', lost)
    else:
        conv = sc.need(['return [_R_iso.astimezone(timezone(_R_tzname))]', 'return _R_iso.astimezone(timezone(_R_tzname))'],
                       'the stamp is converted into the zone looked up with timezone(label)', lost, optional=True)
        if conv is None:
            dangling = sc.need(['return [_R_iso.astimezone(_R_tz)]', 'return _R_iso.astimezone(_R_tz)'],
                               'the stamp is converted into a zone object', lost)
            if dangling is not None:
                tzv = sc.bind.get('tz')
                assigned = [x for x in ast.walk(fn) if isinstance(x, ast.Name) and x.id == tzv and isinstance(x.ctx, ast.Store)]
                if not assigned:
                    ctx.violation(rule, con, norm(dangling), lost + ' (`%s` is never assigned: the NameError is swallowed by the '
                                  'bare except, which returns the unconverted stamp)' % tzv,
                                  'the zone object `%s` used for the conversion is never looked up' % tzv, file=F_,
                                  line=dangling.lineno, engine='E7')
                else:
                    ctx.error(rule, '%s: zone object `%s` is not the result of timezone(label); cannot decide' % (fname, tzv))
            conv = None
    # an official zone name this host cannot map makes timezone() raise; the reader then keeps the stamp as written
    # instead of rejecting the whole document -- the handler around the look-up must catch what timezone() raises
    site = look if look is not None else conv
    if site is not None and catches:
        raised = set()
        try:
            for r_ in ast.walk(m.func('zoneinfo', 'timezone')):
                if isinstance(r_, ast.Raise) and r_.exc is not None:
                    raised.add(norm(r_.exc.func) if isinstance(r_.exc, ast.Call) else norm(r_.exc))
        except AnalysisError as e:
            ctx.error(rule, str(e))
        tr_ = None
        p_ = getattr(site, '_parent', None)
        ch_ = site
        while p_ is not None and p_ is not fn:
            if isinstance(p_, ast.Try) and ch_ in p_.body:
                tr_ = p_
                break
            ch_, p_ = p_, getattr(p_, '_parent', None)
        fam = {'ValueError': {'ValueError', 'Exception', 'BaseException'}, 'KeyError': {'KeyError', 'LookupError', 'Exception', 'BaseException'}}
        if raised:
            caught = set()
            bare = False
            if tr_ is not None:
                for h in tr_.handlers:
                    if h.type is None:
                        bare = True
                    else:
                        caught |= {x.strip() for x in norm(h.type).strip('()').split(',')}
            missing = sorted(r_ for r_ in raised if not bare and not (fam.get(r_, {r_, 'Exception', 'BaseException'}) & caught))
            if not missing:
                ctx.ob(rule, '%s: the handler around the zone look-up catches what timezone() raises (%s)' % (fname, ', '.join(sorted(raised))),
                       True, '%s:%d' % (F_, site.lineno))
            else:
                ctx.violation(rule, con, 'except %s' % (sorted(caught) or 'nothing'),
                              'a well-formed stamp whose zone name is in the official list but not mapped on this host (for example '
                              '2020-01-01T00:00:00-06:00 Beulah where pytz lacks America/North_Dakota/Beulah): timezone() raises %s, '
                              'nothing catches it, and the whole document is rejected instead of the stamp being kept as written'
                              % missing[0],
                              'timezone() raises %s for a name this host cannot map; the handler around the look-up catches only %s'
                              % (missing[0], sorted(caught) or 'nothing'), file=F_, line=(tr_ or site).lineno, engine='E7')
    # astimezone() goes through UTC: for a stamp on 0001-01-01 (positive offset) or 9999-12-31 (negative offset) the UTC
    # value is out of range and it raises OverflowError; the reader then keeps the stamp as written
    if conv is not None and catches:
        tr2 = None
        p_, ch_ = getattr(conv, '_parent', None), conv
        while p_ is not None and p_ is not fn:
            if isinstance(p_, ast.Try) and ch_ in p_.body:
                tr2 = p_
                break
            ch_, p_ = p_, getattr(p_, '_parent', None)
        caught2, bare2 = set(), False
        if tr2 is not None:
            for h in tr2.handlers:
                if h.type is None:
                    bare2 = True
                else:
                    caught2 |= {x.strip() for x in norm(h.type).strip('()').split(',')}
        if bare2 or caught2 & {'OverflowError', 'ArithmeticError', 'Exception', 'BaseException'}:
            ctx.ob(rule, '%s: the conversion sits in a handler that also catches the OverflowError of astimezone() at the ends of '
                         'the calendar' % fname, True, '%s:%d' % (F_, conv.lineno))
        else:
            ctx.violation(rule, con, norm(conv),
                          'the well-formed stamp 0001-01-01T00:00:00+10:05 Sydney (or 9999-12-31T20:00:00-10:00 Honolulu): '
                          'astimezone() converts through UTC, the UTC value is outside datetime\'s range, OverflowError is raised '
                          '-- and nothing catches it here, so the whole document is rejected instead of the stamp being kept',
                          'the zone conversion `%s` is not inside a handler that catches OverflowError (handlers: %s)'
                          % (norm(conv)[:50], sorted(caught2) or 'none'), file=F_, line=conv.lineno, engine='E7')
    tzname = sc.bind.get('tzname')
    if tzs is not None and src_guard_ok:
        gs = _guards(fn, tzs)
        toks = sc.bind.get('toks')
        okg = [t for t, pol in gs if pol and norm(t) in [f.format(t=toks) for f in src_guard_ok]]
        if okg:
            ctx.ob(rule, '%s: the label is taken when a second token exists' % fname, True, '%s:%d' % (F_, tzs.lineno))
        elif gs:
            t, pol = gs[0]
            ctx.violation(rule, con, norm(t), lost,
                          'the zone label is only taken under `%s%s`, not whenever a second token exists' % (
                              '' if pol else 'not ', norm(t)), file=F_, line=tzs.lineno, engine='E7')
        else:
            ctx.error(rule, '%s: `%s` is not guarded by a token count; cannot decide' % (fname, norm(tzs)))
    if conv is not None and tzname:
        gs = _guards(fn, conv)
        pos = ('bool(%s)' % tzname, tzname, '%s is not None' % tzname)
        neg = ('not bool(%s)' % tzname, 'not %s' % tzname, '%s is None' % tzname)
        verdict = None
        extra = None
        for t, pol in gs:
            tt = norm(t)
            if (tt in pos and pol) or (tt in neg and not pol):
                verdict = verdict or 'ok'
            elif (tt in pos and not pol) or (tt in neg and pol):
                verdict = 'inverted'
            elif pol and isinstance(t, ast.BoolOp) and isinstance(t.op, ast.And) and any(norm(v) in pos for v in t.values):
                # `label and <something about the stamp>`: the conversion no longer happens for every labelled stamp
                rest = [v for v in t.values if norm(v) not in pos]
                falsy_zero = [v for v in rest if isinstance(v, ast.Call) and isinstance(v.func, ast.Attribute)
                              and v.func.attr in ('utcoffset', 'dst') and not v.args]
                if falsy_zero and len(rest) == len(falsy_zero):
                    extra = falsy_zero[0]
                    verdict = 'zero-offset'
        if verdict == 'zero-offset':
            ctx.violation(rule, con, norm(conv),
                          'the stamp 2021-01-15T12:00:00+00:00 London (any zone that sits at offset 0: London, Lisbon and Dublin in '
                          'winter, Reykjavik, Accra, GMT): `%s` is timedelta(0), which is FALSY, so the zone label is ignored and '
                          'the value comes back as plain UTC -- re-dumped as "... UTC"' % norm(extra),
                          'the zone conversion is skipped when `%s` is falsy, i.e. for every stamp whose offset is zero'
                          % norm(extra), file=F_, line=conv.lineno, engine='E7')
            return
        if verdict == 'ok':
            ctx.ob(rule, '%s: the conversion is done exactly when a label is present' % fname, True, '%s:%d' % (F_, conv.lineno))
        elif verdict == 'inverted':
            ctx.violation(rule, con, norm(conv), lost, 'the conversion into the named zone is reached only when NO label is '
                          'present (guard inverted); with a label the stamp is returned unconverted', file=F_,
                          line=conv.lineno, engine='E7')
        else:
            ctx.error(rule, '%s: guard of the zone conversion not recognised (%s); cannot decide'
                      % (fname, [norm(t) for t, _ in gs]))
