"""Shared facts about hszinc.dumper.dump: how several grids are assembled into one document.  Path-based (E6),
name-agnostic: every returning path of dump() is classified by the conditions it fixed (single Grid or not,
ZINC or JSON) and by the normal form of the returned expression after resolving locals.

    ONE      dump_grid(G, mode=M)                       one grid document
    ZJOIN    '\\n'.join(<every grid dumped, in order>)   ZINC multi-grid document
    JARR     '[%s]' % ','.join(<every grid dumped>)      JSON array
    ELEM     <dumped list>[k]                            one element of the dumped list
"""
from __future__ import annotations

import ast
import re

from .. import flow
from ..model import AnalysisError, body_wo_doc, norm, walk_no_nested

FD = 'hszinc/dumper.py'


def _resolve(text, env, depth=6):
    for _ in range(depth):
        changed = False
        for name, val in env.items():
            pat = r'(?<![\w.\'"])%s(?![\w(\'"])' % re.escape(name)
            if re.search(pat, text):
                new = re.sub(pat, lambda mo: val, text)
                if new != text:
                    text = new
                    changed = True
        if not changed:
            break
    return text


def classify(text, gparam, dumpers):
    P = '(?:%s)' % '|'.join(re.escape(p) for p in sorted(dumpers, key=len, reverse=True))
    G = re.escape(gparam)
    EACH = r'(?:map\(%s, %s\)|list\(map\(%s, %s\)\)|\[%s\((\w+)\) for \1 in %s\]|\(%s\((\w+)\) for \2 in %s\))' % (
        P, G, P, G, P, G, P, G)
    if re.match(r'^dump_grid\(%s, mode=\w+\)$' % G, text) or re.match(r'^%s\(%s\)$' % (P, G), text):
        return 'ONE'
    if re.match(r"^'\\n'\.join\(%s\)$" % EACH, text):
        return 'ZJOIN'
    if re.match(r"^'\[%%s\]' %% ','\.join\(%s\)$" % EACH, text) or re.match(r"^'\[' \+ ','\.join\(%s\) \+ '\]'$" % EACH, text) \
            or re.match(r"^'\[\{\}\]'\.format\(','\.join\(%s\)\)$" % EACH, text):
        return 'JARR'
    if re.match(r'^%s\[-?\d+\]$' % EACH, text):
        return 'ELEM'
    mo = re.match(r"^(.+)\.join\(%s\)$" % EACH, text)
    if mo:
        return 'JOIN:%s' % mo.group(1)
    mo = re.match(r"^(.+) %% ','\.join\(%s\)$" % EACH, text)
    if mo:
        return 'WRAP:%s' % mo.group(1)
    return None


def document_shaping(model):
    fn = model.func('dumper', 'dump')
    params = [a.arg for a in fn.args.args]
    if len(params) < 2:
        raise AnalysisError('dump() signature changed: %s' % params)
    gparam, mparam = params[0], params[1]
    dumpers = set()
    for n in ast.walk(fn):
        if isinstance(n, ast.Assign) and len(n.targets) == 1 and isinstance(n.targets[0], ast.Name):
            t = norm(n.value)
            if t.startswith(('functools.partial(dump_grid, mode=', 'partial(dump_grid, mode=')):
                dumpers.add(n.targets[0].id)
    dumpers.add('__none__')
    out = {'single': set(), 'zinc_multi': set(), 'json_multi': set(), 'nodes': {}, 'n_paths': 0, 'extra': {}}
    for p in flow.enumerate_paths(body_wo_doc(fn)):
        if p.end != 'return':
            continue
        out['n_paths'] += 1
        env = {}
        wrapped = False
        for e in p.effects:
            if isinstance(e, ast.Assign) and len(e.targets) == 1 and isinstance(e.targets[0], ast.Name):
                name = e.targets[0].id
                if name in dumpers or name == mparam:
                    continue
                if name == gparam:
                    if norm(e.value) in ('[%s]' % gparam, '(%s,)' % gparam, 'list((%s,))' % gparam):
                        wrapped = True      # a single grid wrapped into a one-element sequence
                        continue
                    v_ = norm(e.value)
                    if v_ in ('list(%s)' % gparam, 'tuple(%s)' % gparam):
                        continue            # the iterable is materialised: same grids, same order
                    if re.match(r'^(list\()?filter\(None, %s\)\)?$' % re.escape(gparam), v_) or \
                            re.match(r'^[\[(](\w+) for \1 in %s if \1[\])]$' % re.escape(gparam), v_) or \
                            re.match(r'^(list\()?filter\(bool, %s\)\)?$' % re.escape(gparam), v_):
                        out['truthiness_filter'] = e      # grids tested for truth: a grid without rows is falsy
                        continue
                    raise AnalysisError('dump(): parameter %s is rebound (`%s`)' % (gparam, norm(e)[:60]))
                env[name] = _resolve(norm(e.value), env)
        rv = p.end_node.value if isinstance(p.end_node, ast.Return) else None
        text = 'None' if rv is None else _resolve(norm(rv), env)
        form = classify(text, gparam, dumpers)
        if form is None:
            raise AnalysisError('dump(): return value `%s` (line %d) not classified' % (text[:80], p.end_node.lineno))
        single = None
        mode = None
        extra = []
        for t, v in p.conds:
            base = t.split(' @before')[0]
            if base == 'isinstance(%s, Grid)' % gparam:
                single = v
            elif base in ('%s == MODE_ZINC' % mparam, 'MODE_ZINC == %s' % mparam):
                if v:
                    mode = 'zinc'
                elif mode is None:
                    mode = 'not-zinc'
            elif base in ('%s == MODE_JSON' % mparam, 'MODE_JSON == %s' % mparam):
                if v:
                    mode = 'json'
                elif mode is None:
                    mode = 'not-json'
            else:
                extra.append((_resolve(base, env), v))
        if wrapped:
            # one-element sequence: a test `len(<dumped>) == 1` is true, `'\\n'.join` of one element is that element
            if any(re.match(r'^len\(.*\) == 1$', c) and not v for c, v in extra):
                continue
            if any(re.match(r'^len\(.*\) (!=|>) 1$', c) and v for c, v in extra):
                continue
            if form in ('ZJOIN', 'ELEM'):
                form = 'ONE'
            single = True
        if single:
            key = 'single'
        elif single is None and form == 'ONE':
            key = 'single'
        elif mode == 'zinc' or mode == 'not-json':
            key = 'zinc_multi'
        elif mode == 'json' or mode == 'not-zinc':
            key = 'json_multi'
        else:
            raise AnalysisError('dump(): a return (line %d) is not guarded by the mode' % p.end_node.lineno)
        out[key].add(form)
        out['nodes'].setdefault((key, form), p.end_node)
        if extra:
            out['extra'].setdefault((key, form), extra)
    return out


def mode_sanitised(ctx, rule, modname):
    """Every public entry accepts the loose mode spellings `_parse_mode` maps ('json', 'JSON', 'zinc', ...).  A function
    that compares its `mode` argument with MODE_ZINC / MODE_JSON itself must have passed it through `_parse_mode`
    first: compared raw, 'json' is neither constant and the ZINC (default) arm runs."""
    m = ctx.model
    F_ = 'hszinc/%s.py' % modname
    try:
        mod = m.mod(modname)
    except AnalysisError as e:
        ctx.error(rule, str(e))
        return
    n = 0
    for fn in [x for x in mod.tree.body if isinstance(x, ast.FunctionDef)]:
        params = [a.arg for a in fn.args.args]
        if 'mode' not in params or fn.name.startswith('_'):
            continue
        cmps = [c for c in walk_no_nested(fn) if isinstance(c, ast.Compare) and isinstance(c.left, ast.Name) and c.left.id == 'mode'
                and any(norm(x) in ('MODE_ZINC', 'MODE_JSON') or (isinstance(x, (ast.Tuple, ast.List, ast.Set))
                                                                 and any(norm(e) in ('MODE_ZINC', 'MODE_JSON') for e in x.elts))
                        for x in c.comparators)]
        if not cmps:
            continue
        n += 1
        san = [st for st in body_wo_doc(fn) if isinstance(st, ast.Assign) and len(st.targets) == 1 and norm(st.targets[0]) == 'mode'
               and isinstance(st.value, ast.Call) and norm(st.value.func) == '_parse_mode' and st.value.args
               and norm(st.value.args[0]) == 'mode']
        first = min(cmps, key=lambda c: c._seq)
        if san and san[0]._seq < first._seq:
            ctx.ob(rule, '%s.%s compares the mode only after _parse_mode' % (modname, fn.name), True, '%s:%d' % (F_, fn.lineno))
        else:
            ctx.violation(rule, '%s::%s' % (F_, fn.name), norm(first),
                          "%s(..., mode='json') (a spelling _parse_mode accepts): `%s` is decided on the raw argument, 'json' is not "
                          "the constant, and the other format's arm runs -- e.g. a list of grids dumped as JSON objects joined by "
                          "newlines, which is not a JSON document" % (fn.name, norm(first)),
                          '%s compares `mode` with the MODE constants before / without mode = _parse_mode(mode)' % fn.name,
                          file=F_, line=first.lineno, engine='E7')
    ctx.count('functions of %s that branch on the mode' % modname, n)


_TRAVERSERS = ('map', 'filter', 'zip', 'enumerate', 'list', 'tuple', 'sorted', 'any', 'all', 'sum', 'max', 'min', 'set', 'dict',
               'iter', 'next', 'reversed', 'frozenset')


def _traversals(node, name):
    out = []
    for x in ast.walk(node):
        if isinstance(x, ast.comprehension) and isinstance(x.iter, ast.Name) and x.iter.id == name:
            out.append(x.iter)
        elif isinstance(x, ast.For) and isinstance(x.iter, ast.Name) and x.iter.id == name:
            out.append(x.iter)
        elif isinstance(x, ast.Call):
            f = norm(x.func)
            if (f in _TRAVERSERS or f.endswith('.join') or f.endswith('.extend')) \
                    and any(isinstance(a, ast.Name) and a.id == name for a in x.args):
                out.append(x)
    return out


def single_traversal(ctx, rule):
    """dump() accepts any iterable of grids (a generator, map(), a filter): on every path through dump() the argument
    is traversed at most once, unless it was first bound to a list/tuple of itself.  A second traversal of a one-shot
    iterable sees nothing: the document comes out as `[]` / the empty text and every grid is lost, silently."""
    model = ctx.model
    try:
        fn = model.func('dumper', 'dump')
    except AnalysisError as e:
        ctx.error(rule, str(e))
        return
    g = fn.args.args[0].arg
    F = 'hszinc/dumper.py'
    worst = None
    npaths = 0
    # every traversal site of the function, with its position in the text
    all_sites = _traversals(fn, g)
    tests = {}
    for n in ast.walk(fn):
        if isinstance(n, (ast.If, ast.While, ast.IfExp)):
            for x in ast.walk(n.test):
                tests.setdefault(norm(x), x)

    def pos(node):
        return getattr(node, '_seq', None) if getattr(node, '_seq', None) is not None else (getattr(node, 'lineno', 0) * 1000 + getattr(node, 'col_offset', 0))

    def inside(site, container):
        return any(x is site for x in ast.walk(container))
    for p in flow.enumerate_paths(body_wo_doc(fn)):
        npaths += 1
        on_path = []
        for e in list(p.effects) + ([p.end_node] if p.end_node is not None else []):
            on_path.append(e)
        for t, v in p.conds:
            node = tests.get(t.split(' @before')[0])
            if node is not None:
                on_path.append(node)
        material = None
        for e in p.effects:
            if isinstance(e, ast.Assign) and len(e.targets) == 1 and norm(e.targets[0]) == g \
                    and norm(e.value) in ('list(%s)' % g, 'tuple(%s)' % g, '[%s]' % g, '(%s,)' % g):
                if material is None or pos(e) < pos(material):
                    material = e
        sites = []
        for s_ in all_sites:
            if material is not None and inside(s_, material):
                continue
            if any(inside(s_, c) for c in on_path) and s_ not in sites:
                sites.append(s_)
        sites.sort(key=pos)
        if material is not None:
            before = [s_ for s_ in sites if pos(s_) < pos(material)]
            sites = before + ([material.value] if before else [])      # after list(g) the argument is re-iterable
        if len(sites) >= 2 and p.end == 'return':
            if worst is None:
                worst = sites
    if worst:
        a, b = worst[0], worst[1]
        ctx.violation(rule, '%s::dump' % F, 'traversals of `%s`: `%s` and `%s`' % (g, norm(a)[:50], norm(b)[:50]),
                      'hszinc.dump((g for g in grids), mode=MODE_JSON) (or map(...), filter(...), iter(list)): the first traversal '
                      '`%s` uses the iterator up, the one that writes the grids sees nothing and the result is the well-formed but '
                      'empty document `[]` (ZINC: the empty text) -- every grid is lost without an error' % norm(a)[:60],
                      'dump() walks its argument twice on one path; it is only known to be iterable, not re-iterable',
                      file=F, line=getattr(b, 'lineno', fn.lineno), engine='E6')
    else:
        ctx.ob(rule, 'dump() traverses its argument at most once on each of its %d paths (one-shot iterables of grids are written '
                     'in full)' % npaths, True, '%s:%d' % (F, fn.lineno))
