"""C01 -- ZINC round trip: parse(dump(g)) is g, for every valid grid."""
from __future__ import annotations

import ast

from .. import lang as L
from .. import ppgrammar as G
from .. import spec as S
from ..lang import Unsupported
from ..model import AnalysisError, body_wo_doc, norm, walk_no_nested
from . import _zinc

META = {
    'level': 'other',
    'explanation': (
        'Static agreement between the ZINC writer and hszinc\'s ZINC reader, decided for all inputs at once on models '
        'read from the source.  (D1) dispatch: the isinstance ladder of dump_scalar sends every value kind to its own '
        'writer (no supertype branch first).  (D2) kind pairing: the text a writer can emit for kind k (a regular '
        'language obtained by abstract interpretation of the dump_* functions over payload domains and library lexical '
        'forms) is included in the language of a reader alternative whose parse action builds k, and meets no '
        'alternative of another kind that would win a longest-match tie; both grammar versions.  (D3) escaping is an '
        'inverse pair over all 1 114 112 code points (writer homomorphism vs reader regex + _unescape transducer): this '
        'is the one place where the round trip itself is decided, for strings of any length.  (D4) numbers, dates, times '
        'and date-times use exact conversions; only coordinates use %f.  (D5) framing: the grid template (header, column '
        'line, rows, final newline) is included in the reader\'s grid rule, no scalar text is empty or contains a raw '
        'line break, grids are joined by the separator the reader splits on.  (D6) assembly: _gen_grid rebuilds version, '
        'ordered metadata, ordered columns and rows by zipping cells onto column names.  (D7) date-time payloads: the reader converts the written instant into the named zone with astimezone, the writer emits isoformat() of the value itself plus the zone name.  Also: the version reaches every nested writer (version threading, locals resolved), the header carries the grid\'s own version, the document text is not rewritten before parsing, the zone name written is justified for that instant (shared with C17.D3).  Not decided: equality of the '
        'reconstructed objects (float parsing, tz arithmetic: see C17).'
        ' Also (D2): Ref.__init__ sets has_value for every value other than None (decision table incl. the empty display string); the hs_ref action decides presence of the display token by token count.'
        " Also (D2): the reader's number token matches no <written number><start of a unit> (quantity split).  (D6) tag / column order is not built by walking a set expression."
        ' Also (D4): time literals denote exactly the time they spell (no float, fraction padded as text); number texts are not trimmed in exponent form.'
        ' Round 9: (D7) the ZINC writer keeps no table of texts keyed by the value it writes (Python == is coarser than `same Haystack value`); (D3) an _unescape made of several whole-text passes is refused with a derived witness, also when a look-behind guards the pass; (D5) the document is cut into grids by GRID_SEP.split and by no second lexer over the raw text; dump() traverses its argument once per path.'),
    'rule_text': 'obligations = ladder rows, kinds x (inclusion + pairwise disjointness) x 2 versions, code-point classes, '
                 'exactness per kind, framing/assembly facts',
    'trusted_base': ['pyparsing Or = longest match with list-order ties; the regular abstraction of the reader can miss, '
                     'never invent, a writer-vs-reader failure'],
}

FZ = 'hszinc/zincdumper.py'
FP = 'hszinc/zincparser.py'
EXACT_KINDS = ['int', 'float', 'Quantity', 'Quantity-nounit', 'date', 'time', 'datetime']


def run(ctx):
    _zinc.ladder_check(ctx, 'C01.D1', 'zincdumper', 'zinc')
    for which in ('str', 'uri'):
        _zinc.escape_pair(ctx, 'C01.D3', which)
    for version in ('3.0', '2.0'):
        t = _zinc.writer_templates(ctx, 'C01.D2', 'zincdumper', 'zinc', version)
        _zinc.pairing(ctx, 'C01.D2', version, t)
        if version == '3.0':
            _exactness(ctx, t)
            _cells(ctx, t)
        _framing(ctx, version)
    _document(ctx)
    _zinc.quantity_split(ctx, 'C01.D2')
    _zinc.number_text_edits(ctx, 'C01.D4', 'zincdumper')
    _zinc.time_literal_exact(ctx, 'C01.D4', 'zincparser')
    from . import _parse as _p
    _p.set_iteration(ctx, 'C01.D6', ('zincparser', 'zincdumper'))
    from . import _parse
    _parse.text_flow(ctx, 'C01.D5')
    _assembly(ctx)
    # the grid's version reaches every nested writer (a 2.0 grid is never written with 3.0 spellings)
    _zinc.version_threading(ctx, 'C01.D2', 'zincdumper')
    _zinc.header_version(ctx, 'C01.D5', 'zincdumper')
    from . import c16
    c16.mapping_overrides(ctx, ctx.model, rule='C01.D6')
    from . import c17
    c17._api(ctx, ctx.model, rule='C01.D7', only=('zincparser', 'zincdumper'))
    c17._timezone_name(ctx, ctx.model, rule='C01.D7')
    from . import c07
    c07.writer_memo(ctx, 'C01.D7', 'zincdumper')
    from . import _dump as _d9
    _d9.single_traversal(ctx, 'C01.D5')
    # the empty display string of a reference is a display string (Ref.__init__, hs_ref action)
    from . import _ref
    _ref.ref_init(ctx, 'C01.D2')
    _ref.zinc_ref_action(ctx, 'C01.D2')


def _exactness(ctx, templates):
    for kind, info in templates.items():
        t = info['tmpl']
        if t is None:
            continue
        node = info['node']
        where = '%s:%s' % (FZ, node.lineno if node is not None else '?')
        if kind in EXACT_KINDS:
            if t.lossy:
                wit = {'time': 'the time 01:02:03.000004 is written without its microseconds',
                       'datetime': 'a date-time with microseconds is written without them'}.get(
                    kind, 'the number 0.1 + 0.2 (0.30000000000000004) is written as 0.300000')
                ctx.violation('C01.D4', '%s::dump_scalar[%s]' % (FZ, kind), 'lossy conversion %s' % (t.lossy,),
                              'dump then parse: %s' % wit,
                              'the ZINC writer of %s uses the lossy conversion %s; the property requires numbers, dates, '
                              'times and date-times to be exact' % (kind, ', '.join(t.lossy)), file=FZ,
                              line=node.lineno if node is not None else None, engine='E4')
            else:
                ctx.ob('C01.D4', 'the ZINC writer of %s uses exact conversions only' % kind, True, where)
        elif kind == 'Coordinate':
            ctx.ob('C01.D4', 'coordinates use %s (documented six decimals)' % (t.lossy or 'exact conversions',), True, where)


def _cells(ctx, templates):
    nl = L.rcat(L.rany_star(), L.rset(L.iv((10, 10), (13, 13))), L.rany_star())
    for kind, info in templates.items():
        t = info['tmpl']
        if t is None:
            continue
        node = info['node']
        where = '%s:%s' % (FZ, node.lineno if node is not None else '?')
        try:
            ml = L.min_length(t.rx)
        except Unsupported as e:
            ctx.error('C01.D5', str(e))
            continue
        if ml is None or ml < 1:
            ctx.violation('C01.D5', '%s::dump_scalar[%s]' % (FZ, kind), 'min length %s' % ml,
                          'a %s value can be written as the empty string: the cell reads back as null' % kind,
                          'the text of a %s may be empty' % kind, file=FZ, line=node.lineno if node is not None else None,
                          engine='E3')
        else:
            ctx.ob('C01.D5', 'the text of a %s is never empty (min length %d)' % (kind, ml), True, where)
        if kind == 'Grid':
            continue
        w = L.find_common(t.rx, nl)
        if w is not None:
            ctx.violation('C01.D5', '%s::dump_scalar[%s]' % (FZ, kind), 'raw line break',
                          'a %s can be written as %r: the raw line break ends the row (a blank line even splits the '
                          'document)' % (kind, _zinc.show(w)), 'the text of a %s may contain a raw CR/LF' % kind, file=FZ,
                          line=node.lineno if node is not None else None, engine='E3')
        else:
            ctx.ob('C01.D5', 'the text of a %s never contains a raw CR/LF' % kind, True, where)


def _framing(ctx, version):
    t = _zinc.grid_template(ctx, 'C01.D5', version)
    if t is None:
        return
    try:
        reader, g = _zinc.reader_grid_rx(ctx, version)
        w = L.find_not_included(t.rx, reader, max_witnesses=2)
    except (Unsupported, AnalysisError) as e:
        ctx.error('C01.D5', 'grid template vs reader grid rule: %s' % e)
        return
    if w:
        ctx.violation('C01.D5', '%s::dump_grid' % FZ, 'grid template ⊆ hs_grid_%s' % version.replace('.', '_'),
                      'the writer lays a grid out as %r, which the reader\'s grid rule does not accept'
                      % _zinc.show(w[0]), 'the layout produced by dump_grid/dump_meta/dump_columns/dump_row is not '
                      'included in the reader\'s grid grammar (version %s)' % version, file=FZ, engine='E3')
    else:
        ctx.ob('C01.D5', 'v%s: the grid layout (header, metadata, column line, rows, newlines) ⊆ L(hs_grid)' % version,
               True, '%s:dump_grid' % FZ)
    # the header is what the version sniffing regex expects
    try:
        vr = ctx.model.const('zincparser', 'VERSION_RE')
        pr = L.PyRegex(vr.pattern, vr.flags)
        head = L.rcat(L.rlit('ver:"'), S.lexform('version'), L.rlit('"'))
        w2 = L.find_not_included(L.rcat(head, L.rany_star()), pr.match_lang())
        if w2:
            ctx.violation('C01.D5', '%s::VERSION_RE' % FP, vr.pattern,
                          'a dumped grid starting %r is not recognised by the version sniffer' % _zinc.show(w2[0]),
                          'the header the writer emits does not match VERSION_RE', file=FP, engine='E3')
        else:
            ctx.ob('C01.D5', 'the header the writer emits is matched by VERSION_RE', True, FP)
    except (Unsupported, AttributeError) as e:
        ctx.error('C01.D5', 'VERSION_RE: %s' % e)
    # ends with newline, no blank line
    ends = L.rcat(L.rstar(L.rset(((0, L.SYM_BASE + 0xFFF),))), L.rlit('\n'))
    w3 = L.find_not_included(t.rx, ends)
    if w3:
        ctx.violation('C01.D5', '%s::dump_grid' % FZ, 'final newline', 'a dumped grid can end without a newline: %r'
                      % _zinc.show(w3[0]), 'the grid text does not always end with a newline (the reader requires one '
                      'after every row and the document separator relies on it)', file=FZ, engine='E3')
    else:
        ctx.ob('C01.D5', 'v%s: every dumped grid ends with a newline' % version, True, '%s:dump_grid' % FZ)
    anysym = L.rstar(L.rset(((0, L.SYM_BASE + 0xFFF),)))
    blank = L.rcat(anysym, L.rlit('\n\n'), anysym)
    w4 = L.find_common(t.rx, blank)
    if w4 is not None:
        ctx.violation('C01.D5', '%s::dump_grid' % FZ, 'blank line', 'a dumped grid can contain a blank line: %r; '
                      'parse() splits the document there' % _zinc.show(w4), 'the grid text may contain a blank line',
                      file=FZ, engine='E3')
    else:
        ctx.ob('C01.D5', 'v%s: a dumped grid never contains a blank line' % version, True, '%s:dump_grid' % FZ)


def _document(ctx):
    m = ctx.model
    FD = 'hszinc/dumper.py'
    try:
        fn = m.func('dumper', 'dump')
    except AnalysisError as e:
        ctx.error('C01.D5', str(e))
        return
    from . import _dump
    try:
        r = _dump.document_shaping(m)
    except (AnalysisError, Unsupported) as e:
        ctx.error('C01.D5', 'dump(): %s' % e)
        return
    forms = r['zinc_multi']
    if r.get('truthiness_filter') is not None:
        tf = r['truthiness_filter']
        ctx.violation('C01.D5', '%s::dump' % FD, norm(tf),
                      'dump([g1, Grid(columns=["a"]), g3]) (the middle grid has columns but no rows): a Grid is a sequence, so a '
                      'grid without rows is falsy and `%s` drops it -- 3 grids are dumped, 2 come back' % norm(tf.value)[:50],
                      'the list of grids is filtered by truthiness before dumping; an empty grid is a valid grid', file=FD,
                      line=tf.lineno, engine='E6')
    if forms == {'ZJOIN'} and not [c for c in r['extra'].get(('zinc_multi', 'ZJOIN'), []) if 'len(' in c[0]]:
        ctx.ob('C01.D5', 'several grids are joined with one newline (each grid ends with a newline: a blank line); '
                         '%d returning paths of dump()' % r['n_paths'], True, '%s:%d' % (FD, fn.lineno))
        try:
            sep = m.const('parser', 'GRID_SEP')
            pr = L.PyRegex(sep.pattern, sep.flags)
            # the separator must match the newline that follows a grid's final newline
            lb = pr.lookbehind
            ok = lb is not None and L.accepts(lb, '\n') and L.accepts(pr.body, '\n')
            if ok:
                ctx.ob('C01.D5', 'GRID_SEP %r matches the blank line between two dumped grids' % sep.pattern, True,
                       'hszinc/parser.py')
            else:
                ctx.violation('C01.D5', 'hszinc/parser.py::GRID_SEP', sep.pattern,
                              'dump([g1, g2]) is not split back into two grids', 'GRID_SEP does not match the writer\'s '
                              'grid separator', file='hszinc/parser.py', engine='E3')
        except (Unsupported, AttributeError) as e:
            ctx.error('C01.D5', 'GRID_SEP: %s' % e)
    else:
        bad = sorted(f for f in forms if f != 'ZJOIN') or sorted(forms)
        node = r['nodes'].get(('zinc_multi', bad[0]), fn) if bad else fn
        if bad and bad[0].startswith('JOIN:') or (bad and bad[0] in ('ELEM', 'ONE', 'JARR')):
            ctx.violation('C01.D5', '%s::dump' % FD, norm(node)[:200],
                          'dump([g1, g2], MODE_ZINC) does not separate the grids by exactly one blank line (form %s)' % bad[0],
                          'the ZINC multi-grid join is not `\\n`.join(<all grids>)', file=FD, line=node.lineno, engine='E6')
        else:
            ctx.error('C01.D5', 'dump(): ZINC multi-grid result has forms %s under extra conditions %s; cannot decide'
                      % (sorted(forms), r['extra'].get(('zinc_multi', 'ZJOIN'))))


def _assembly(ctx):
    m = ctx.model
    try:
        fn = m.func('zincparser', '_gen_grid')
        av = m.func('zincparser', '_assign_ver')
    except AnalysisError as e:
        ctx.error('C01.D6', str(e))
        return
    from .. import match
    sc = match.Script(ctx, 'C01.D6', [fn], FP, '%s::_gen_grid' % FP)
    sc.need(['(_R_gmeta, _R_cmeta, _R_rows) = _R_toks'], '_gen_grid receives (grid metadata, columns, rows) in grammar order',
            'metadata/columns/rows are mixed up')
    sc.need(["_R_g = Grid(version=_R_gmeta.pop('ver'), metadata=_R_gmeta, columns=list(_R_cmeta.items()))"],
            'the grid is built from the parsed version, the remaining ordered metadata and the ordered column pairs',
            'parse(dump(g)) has another version / metadata / column order than g')
    sc.need(['_R_g.extend(map(lambda _R_row: dict(zip(_R_cmeta.keys(), _R_row)), _R_rows))',
             '_R_g.extend([dict(zip(_R_cmeta.keys(), _R_row)) for _R_row in _R_rows])'],
            'rows are rebuilt by zipping each cell list onto the column names in order',
            'cells come back under the wrong column names')
    sc.need(['return _R_g'], 'the assembled grid is the parse result', 'the parse result is not the assembled grid')
    sv = match.Script(ctx, 'C01.D6', [av], FP, '%s::_assign_ver' % FP)
    sv.seed('toks', av.args.args[0].arg)
    sv.need(['_R_ver = _R_toks[0]'], '_assign_ver takes the version from the first token', 'the parsed grid gets another version')
    sv.need(["_R_meta.add_item('ver', _R_ver, index=0)", "_R_meta['ver'] = _R_ver"],
            '_assign_ver stores the version under "ver" (popped again by _gen_grid)', 'the parsed grid loses its version')
    sv.need(['return _R_meta'], '_assign_ver returns the metadata carrying the version', 'the parsed grid loses its version')
    # column line: each column is (id, meta or {})
    g = G.grammar_of(m, 'zincparser')
    for ver in ('2.0', '3.0'):
        try:
            col = g.fam('hs_col', ver)
            rets = [norm(r) for r in G.action_returns(col.action)] if col.action else []
            if rets == ['[(toks[0], toks[1] if len(toks) > 1 else {})]']:
                ctx.ob('C01.D6', 'v%s: a column is (name, metadata or {})' % ver, True, '%s:%s' % (FP, col.lineno))
            else:
                ctx.violation('C01.D6', '%s::hs_col' % FP, '; '.join(rets), 'column metadata is lost or attached to the '
                              'wrong column', 'hs_col action is %s' % rets, file=FP, line=col.lineno, engine='E2')
        except AnalysisError as e:
            ctx.error('C01.D6', str(e))
