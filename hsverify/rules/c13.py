"""C13 -- a filter's result is independent of other filters, earlier or concurrent (E11 lockset)."""
from __future__ import annotations

import ast

from ..model import AnalysisError, body_wo_doc, norm, walk_no_nested

META = {
    'level': 'other',
    'explanation': (
        'Static lockset / atomicity analysis of hszinc/grid_filter.py.  Decides: (D1) on every path of the '
        'compile function the module-global name counter is read and incremented inside one critical section '
        '(a `with` on a module-level threading.Lock/RLock) or by one atomic expression (next() of a module-level '
        'itertools.count()), the generated function name is derived from the value read inside that section, and '
        'no other function writes the counter; (D2) name lifetime: a generated name is written only by exec in the '
        'wrapper that owns it and deleted only by that wrapper, and the wrapper hands out the function object, so '
        'evicting a cache entry cannot remove another entry\'s function and earlier results keep working; (D3) the '
        'cache key is the filter text itself (the lru_cache\'d function has the text as its only parameter) and '
        'every caller goes through it; (D4) no module-level mutable container is mutated and read back outside one critical section by the filter functions.  Also (D1): nothing that can fail runs between deriving the generated name from the counter and advancing the counter (a failed compilation consumes its id); (D5) Grid.filter keeps no filter state on the grid.  Not decided: exhaustive interleaving exploration; CPython lru_cache '
        'internals (trusted thread-safe); the 1500-filter history as an execution.'
        ' Also (D5): Grid.reindex publishes a complete id index (built aside, one assignment): threads evaluating a->b on the same grid read the index without a lock.  (D3) what _filter_function returns is the wrapper it just built or an entry stored under the filter text itself, never under a rendering of the parsed tree.'),
    'rule_text': 'obligations = reads/writes of shared module globals on the filter path x lockset, name derivation, '
                 'shared-namespace writes, cache-key facts',
    'trusted_base': ['threading.Lock gives mutual exclusion; functools.lru_cache is thread-safe and keys on its arguments; '
                     'CPython executes `with lock:` bodies atomically with respect to other holders of the lock'],
}

MOD = 'grid_filter'
F = 'hszinc/grid_filter.py'


MUTATORS = ('append', 'extend', 'insert', 'pop', 'remove', 'clear', 'update', 'setdefault', 'add', 'discard',
            'popitem', 'sort', 'reverse', 'appendleft', 'popleft')


def _containers(ctx, m, mod, funcs, locks):
    """(D4) module-level mutable containers (lists, dicts, sets, deques) reached by the filter functions: a
    mutation combined with a position/size/content read of the same container in the same function is a
    compound action; outside one `with <module lock>` section another thread's mutation can fall between the
    two halves.  A lone mutation outside a lock is not decided (it may be an idempotent memo)."""
    containers = {}
    for name, defs in mod.bindings.items():
        for d in defs:
            if isinstance(d, ast.Assign) and getattr(d, '_parent', None) is mod.tree:
                v = d.value
                if isinstance(v, (ast.List, ast.Dict, ast.Set, ast.ListComp, ast.DictComp, ast.SetComp)) or (
                        isinstance(v, ast.Call) and norm(v.func) in ('list', 'dict', 'set', 'collections.deque', 'deque',
                                                                     'collections.OrderedDict', 'OrderedDict',
                                                                     'collections.defaultdict', 'defaultdict',
                                                                     'weakref.WeakValueDictionary', 'WeakValueDictionary',
                                                                     'weakref.WeakKeyDictionary', 'WeakKeyDictionary',
                                                                     'weakref.WeakSet', 'WeakSet', 'collections.Counter',
                                                                     'Counter', 'collections.ChainMap', 'ChainMap')):
                    containers[name] = d
    ctx.count('module-level mutable containers', len(containers))

    def section(node):
        p = getattr(node, '_parent', None)
        while p is not None and not isinstance(p, ast.FunctionDef):
            if isinstance(p, ast.With) and any(norm(i.context_expr) in locks for i in p.items):
                return p
            p = getattr(p, '_parent', None)
        return None

    n_mut = 0
    for fn in funcs:
        local = {a.arg for a in fn.args.args} | {a.arg for a in fn.args.kwonlyargs}
        for n in walk_no_nested(fn):
            if isinstance(n, ast.Name) and isinstance(n.ctx, ast.Store):
                local.add(n.id)
        declared = set()
        for n in walk_no_nested(fn):
            if isinstance(n, ast.Global):
                declared |= set(n.names)
        local -= declared
        muts, reads = {}, {}
        for n in walk_no_nested(fn):
            if isinstance(n, ast.Call) and isinstance(n.func, ast.Attribute) and isinstance(n.func.value, ast.Name) \
                    and n.func.value.id in containers and n.func.value.id not in local and n.func.attr in MUTATORS:
                muts.setdefault(n.func.value.id, []).append(n)
            elif isinstance(n, ast.Subscript) and isinstance(n.value, ast.Name) and n.value.id in containers \
                    and n.value.id not in local:
                if isinstance(n.ctx, (ast.Store, ast.Del)):
                    muts.setdefault(n.value.id, []).append(n)
                else:
                    reads.setdefault(n.value.id, []).append(n)
            elif isinstance(n, ast.Name) and n.id in containers and n.id not in local and isinstance(n.ctx, ast.Load):
                p = getattr(n, '_parent', None)
                if isinstance(p, ast.Attribute) and isinstance(getattr(p, '_parent', None), ast.Call) \
                        and p._parent.func is p and p.attr in MUTATORS:
                    continue
                if isinstance(p, ast.Subscript) and p.value is n:
                    continue
                reads.setdefault(n.id, []).append(n)
        for name, ms in muts.items():
            n_mut += len(ms)
            rs = reads.get(name, [])
            secs = {id(section(x)) if section(x) is not None else None for x in ms + rs}
            if secs == {None} or None in secs or len(secs) > 1:
                if rs:
                    mu, rd = ms[0], rs[0]
                    st = rd
                    while not isinstance(st, ast.stmt):
                        st = st._parent
                    ctx.violation('C13.D4', '%s::%s' % (F, fn.name), norm(st),
                                  'schedule: thread A (compiling filter 1) runs `%s` at line %d; thread B (compiling filter 2) '
                                  'mutates %s as well; thread A then evaluates `%s` at line %d and obtains B\'s position/'
                                  'content -- the code generated for filter 1 refers to filter 2\'s entry, and that wrong '
                                  'function stays cached' % (norm(mu)[:50], mu.lineno, name, norm(st)[:60], rd.lineno),
                                  'the module-level container %s is mutated and then read back in %s outside one `with '
                                  '<module lock>` section: the compound action is not atomic' % (name, fn.name),
                                  file=F, line=mu.lineno, engine='E11')
                else:
                    ctx.error('C13.D4', '%s:%d %s mutates the module-level container %s outside a lock; whether the order of '
                                        'mutations matters is not decided' % (F, ms[0].lineno, fn.name, name))
            else:
                ctx.ob('C13.D4', '%s: %d mutation(s) and %d read(s) of %s inside one critical section'
                       % (fn.name, len(ms), len(rs), name), True, '%s:%d' % (F, ms[0].lineno))
    if not n_mut:
        ctx.ob('C13.D4', 'no function of grid_filter mutates a module-level container (%d containers: %s)'
               % (len(containers), sorted(containers)), True, F)


TOTAL_CALLS = ('str', 'repr', 'len', 'int')


def _id_consumed(ctx, compile_fn, enclosing_with):
    """(D1) once a name was derived from the counter, the counter is advanced before anything that can fail runs.
    Otherwise a filter that parses but does not compile (e.g. > 200 `and` terms: SyntaxError) leaves its id unused;
    the next filter gets the same name, and when the failed wrapper is finalised its __del__ removes the function of
    that next, still cached, filter."""
    incs = [n for n in walk_no_nested(compile_fn) if isinstance(n, ast.AugAssign) and isinstance(n.target, ast.Name)]
    if len(incs) != 1:
        return      # the increment rule of D1 reports this
    inc = incs[0]
    w = enclosing_with(inc)
    if w is None:
        return
    g = inc.target.id
    body = w.body
    if inc not in body:
        ctx.error('C13.D1', 'the counter increment is nested inside another statement of the critical section; cannot decide')
        return
    reads = [i for i, st in enumerate(body) if st is not inc and any(isinstance(x, ast.Name) and x.id == g for x in ast.walk(st))]
    if not reads:
        return
    first = reads[0]
    k = body.index(inc)
    if k < first:
        ctx.violation('C13.D1', '%s::_filter_function' % F, norm(inc), 'the name is derived from the counter after it was advanced',
                      'increment precedes the read', file=F, line=inc.lineno, engine='E11')
        return
    risky = []
    for st in body[first:k]:
        for c in ast.walk(st):
            if isinstance(c, ast.Call) and norm(c.func) not in TOTAL_CALLS and not (
                    isinstance(c.func, ast.Attribute) and c.func.attr == 'join'):
                risky.append((st, c))
    if risky:
        st, c = risky[0]
        ctx.violation('C13.D1', '%s::_filter_function' % F, norm(st)[:160],
                      'history: compile a filter that parses but is not valid Python (a chain of 250 `and` terms: SyntaxError in '
                      'exec) and keep the exception; compile filter B -- it receives the SAME generated name, because `%s` raised '
                      'before the counter was advanced; when the failed wrapper is finalised its __del__ deletes B\'s function: '
                      'the cached filter B now raises KeyError' % norm(c)[:50],
                      'between deriving the name from %s and advancing %s the critical section runs `%s`, which can raise: a failed '
                      'compilation does not consume its id' % (g, g, norm(c)[:50]), file=F, line=st.lineno, engine='E11')
    else:
        ctx.ob('C13.D1', 'nothing that can fail runs between deriving the name and advancing the counter', True,
               '%s:%d' % (F, inc.lineno))


def _index_publication(ctx, m):
    """(D5) `a->b` follows a reference with grid[ref.name], i.e. through the grid's id index, which is built lazily by
    whichever evaluation needs it first (`if not self._index: self.reindex()`).  Threads filtering the same grid read
    self._index without a lock, so reindex() must PUBLISH a complete index: built aside and stored with one assignment.
    An index emptied and refilled in place is visible half-built: a non-empty partial index passes the `not
    self._index` test of the other thread and its look-up of a row not yet entered answers KeyError -> NOT_FOUND."""
    from . import _grid
    FG = 'hszinc/grid.py'
    try:
        meths = m.methods('grid', 'Grid')
        gp = m.func(MOD, '_get_path')
    except AnalysisError as e:
        ctx.error('C13.D5', str(e))
        return
    follows = [n for n in ast.walk(gp) if isinstance(n, ast.Subscript) and isinstance(n.value, ast.Name)
               and n.value.id == (gp.args.args[0].arg if gp.args.args else 'grid')]
    if not follows:
        ctx.ob('C13.D5', '_get_path does not look rows up through the grid: no shared index on the evaluation path', True)
        return
    form = _grid.reindex_form(meths)
    fn = meths.get('reindex')
    if fn is None:
        ctx.error('C13.D5', 'anchor vanished: Grid.reindex')
        return
    if form == 'local':
        ctx.ob('C13.D5', 'reindex() builds the id index aside and publishes it with one assignment: a thread evaluating `a->b` '
                         'on the same grid sees no index or a complete one', True, '%s:%d' % (FG, fn.lineno))
    elif form == 'inplace':
        ctx.violation('C13.D5', '%s::Grid.reindex' % FG, '; '.join(norm(x).split('\n')[0] for x in body_wo_doc(fn)),
                      'schedule (one preemption): g = a slice of a grid with rows a0, s1, e1(siteRef=@s1) -- its index is not built '
                      'yet.  Thread A evaluates `siteRef->geoCity == "X"` on g: grid[\'s1\'] finds no index, reindex() sets '
                      'self._index = {} and enters a0; A is preempted.  Thread B evaluates `equip and siteRef->geoCity == '
                      '"Chicago"` on g: `not self._index` is false ({a0}), self._index[\'s1\'] raises KeyError -> NOT_FOUND, B '
                      'returns [] where the sequential answer is [e1]',
                      'reindex() empties self._index and refills it entry by entry: other threads filtering the same grid read the '
                      'half-built index', file=FG, line=fn.lineno, engine='E11')
    else:
        ctx.error('C13.D5', 'Grid.reindex: form not recognised; cannot decide how the index is published')


def _grid_filter_state(ctx, m):
    """(D5) Grid.filter keeps no per-grid record of "the current filter": a memo written and read back in two steps is a
    check-then-act on state shared by the threads that filter the same grid."""
    try:
        ff = m.func('grid', 'Grid.filter')
    except AnalysisError as e:
        ctx.error('C13.D5', str(e))
        return
    s = ff.args.args[0].arg
    stores = []
    for n in walk_no_nested(ff):
        if isinstance(n, (ast.Assign, ast.AugAssign)):
            for t in (n.targets if isinstance(n, ast.Assign) else [n.target]):
                b = t
                while isinstance(b, (ast.Attribute, ast.Subscript)):
                    b = b.value
                if isinstance(b, ast.Name) and b.id == s and not isinstance(t, ast.Name):
                    stores.append((n, t))
    _index_publication(ctx, m)
    if not stores:
        ctx.ob('C13.D5', 'Grid.filter stores nothing on the grid: two threads filtering one grid share no filter state', True,
               'hszinc/grid.py:%d' % ff.lineno)
        return
    n, t = stores[0]
    attr = norm(t)
    reads = [x for x in ast.walk(ff) if isinstance(x, ast.Attribute) and norm(x) == attr.split('[')[0] and isinstance(x.ctx, ast.Load)]
    ctx.violation('C13.D5', 'hszinc/grid.py::Grid.filter', norm(n),
                  'schedule: thread A runs `%s` for filter 1 and is preempted; thread B runs the same statement for filter 2 on the '
                  'same grid; A resumes and reads `%s` back (line %s) -- A evaluates filter 1 with the function compiled for '
                  'filter 2 and returns B\'s rows' % (norm(n)[:60], attr.split('[')[0], reads[-1].lineno if reads else '?'),
                  'Grid.filter records the filter being applied on the grid (%s) and reads it back: a check-then-act on state '
                  'shared between threads' % attr.split('[')[0], file='hszinc/grid.py', line=n.lineno, engine='E11')


def run(ctx):
    m = ctx.model
    mod = m.mod(MOD)
    # module-level locks and atomic counters
    locks, counters = set(), set()
    for name, defs in mod.bindings.items():
        for d in defs:
            if isinstance(d, ast.Assign) and isinstance(d.value, ast.Call):
                f = norm(d.value.func)
                if f in ('threading.Lock', 'threading.RLock', 'Lock', 'RLock'):
                    locks.add(name)
                if f in ('itertools.count', 'count'):
                    counters.add(name)
    ctx.count('module-level locks', len(locks))
    # functions of the module and the globals they declare / write
    funcs = [n for n in ast.walk(mod.tree) if isinstance(n, ast.FunctionDef)]
    shared = {}   # global name -> list of (function, node, 'read'|'write')
    for fn in funcs:
        declared = set()
        for n in walk_no_nested(fn):
            if isinstance(n, ast.Global):
                declared |= set(n.names)
        for n in walk_no_nested(fn):
            if isinstance(n, ast.Name) and n.id in declared:
                kind = 'write' if isinstance(n.ctx, (ast.Store, ast.Del)) else 'read'
                shared.setdefault(n.id, []).append((fn, n, kind))
            if isinstance(n, ast.AugAssign) and isinstance(n.target, ast.Name) and n.target.id in declared:
                shared.setdefault(n.target.id, []).append((fn, n.target, 'read'))
    written = {g: uses for g, uses in shared.items() if any(k == 'write' for _, _, k in uses)}
    ctx.count('module globals written by functions', len(written))
    try:
        compile_fn = m.func(MOD, '_filter_function')
    except AnalysisError as e:
        ctx.error('C13.D1', str(e))
        return

    def enclosing_with(node):
        p = getattr(node, '_parent', None)
        while p is not None and not isinstance(p, ast.FunctionDef):
            if isinstance(p, ast.With):
                for item in p.items:
                    if norm(item.context_expr) in locks:
                        return p
            p = getattr(p, '_parent', None)
        return None

    # ---- D1
    counter_globals = [g for g in written if any(fn is compile_fn for fn, _, _ in written[g])]
    name_assign = None
    name_var = None
    for n in walk_no_nested(compile_fn):
        if isinstance(n, ast.Call) and norm(n.func) == '_FnWrapper' and n.args and isinstance(n.args[0], ast.Name):
            name_var = n.args[0].id
    for n in walk_no_nested(compile_fn):
        if isinstance(n, ast.Assign) and isinstance(n.targets[0], ast.Name) and n.targets[0].id == name_var:
            name_assign = n
    if name_assign is None:
        ctx.error('C13.D1', 'assignment of the generated function name (first argument of _FnWrapper) not found in '
                            '_filter_function')
        return
    used = {x.id for x in ast.walk(name_assign.value) if isinstance(x, ast.Name)}
    atomic = [c for c in counters if 'next(%s)' % c in norm(name_assign.value)]
    if atomic:
        ctx.ob('C13.D1', 'the generated name is derived from next(%s): one atomic expression' % atomic[0], True,
               '%s:%d' % (F, name_assign.lineno))
    elif not (used & set(counter_globals)):
        # derived from something else: unique?
        ctx.violation('C13.D1', '%s::_filter_function' % F, norm(name_assign),
                      'two different filters can be given the same generated name: %s is not derived from the '
                      'per-compilation counter' % norm(name_assign.value),
                      'the generated function name does not come from the atomically allocated counter', file=F,
                      line=name_assign.lineno, engine='E11')
    else:
        g = sorted(used & set(counter_globals))[0]
        uses = [(fn, n, k) for fn, n, k in written[g]]
        sections = set()
        unlocked = []
        for fn, n, k in uses:
            w = enclosing_with(n)
            if w is None:
                unlocked.append((fn, n, k))
            else:
                sections.add(id(w))
        others = [fn.name for fn, n, k in uses if fn is not compile_fn and k == 'write']
        if others:
            ctx.violation('C13.D1', '%s::%s' % (F, others[0]), 'write of %s' % g,
                          'another function resets/changes the counter; names repeat',
                          'the name counter %s is also written by %s' % (g, others), file=F, engine='E11')
        if unlocked:
            fn, n, k = unlocked[0]
            reads = [x for x in unlocked if x[2] == 'read']
            writes = [x for x in unlocked if x[2] == 'write']
            st = n
            while not isinstance(st, ast.stmt):
                st = st._parent
            between = ''
            if reads and writes and reads[0][1]._seq < writes[0][1]._seq:
                between = ' (lines %d..%d lie between the read and the write)' % (reads[0][1].lineno, writes[0][1].lineno)
            ctx.violation('C13.D1', '%s::_filter_function' % F, norm(st),
                          'schedule: thread A reads %s = n at line %d; thread B reads n, increments, execs '
                          '`def _gen_hsfilter_n` for its own filter; thread A execs `def _gen_hsfilter_n` for a '
                          'different filter and replaces B\'s function -- B\'s filter now evaluates A\'s expression%s'
                          % (g, reads[0][1].lineno if reads else n.lineno, between),
                          'the global counter %s is %s outside any `with <module lock>` block: the read-modify-write '
                          'that allocates function names is not atomic' % (g, k), file=F, line=n.lineno, engine='E11')
        elif len(sections) > 1:
            ctx.violation('C13.D1', '%s::_filter_function' % F, norm(name_assign),
                          'thread B allocates the same n between A\'s two critical sections',
                          'the counter %s is read and incremented in two different critical sections' % g, file=F,
                          line=name_assign.lineno, engine='E11')
        else:
            ctx.ob('C13.D1', 'counter %s: %d read(s)/write(s) all inside one `with <lock>` section' % (g, len(uses)),
                   True, '%s:%d' % (F, name_assign.lineno))
            if enclosing_with(name_assign) is None:
                ctx.violation('C13.D1', '%s::_filter_function' % F, norm(name_assign),
                              'the name is built from a counter value read outside the critical section',
                              'the generated name is assigned outside the lock that protects %s' % g, file=F,
                              line=name_assign.lineno, engine='E11')
            else:
                ctx.ob('C13.D1', 'the generated name is derived from the counter inside the same critical section', True,
                       '%s:%d' % (F, name_assign.lineno))
            # exactly one increment by one
            incs = [n for n in walk_no_nested(compile_fn) if isinstance(n, ast.AugAssign)
                    and isinstance(n.target, ast.Name) and n.target.id == g]
            if len(incs) == 1 and isinstance(incs[0].op, ast.Add) and norm(incs[0].value) == '1':
                ctx.ob('C13.D1', 'the counter is incremented exactly once per compilation', True,
                       '%s:%d' % (F, incs[0].lineno))
            else:
                ctx.violation('C13.D1', '%s::_filter_function' % F, '; '.join(norm(i) for i in incs) or 'no increment',
                              'two successive compilations obtain the same name',
                              'the counter %s is not incremented by exactly one per compilation' % g, file=F,
                              line=compile_fn.lineno, engine='E11')
        # name shape: constant prefix + str(counter)
        v = name_assign.value
        ok_shape = isinstance(v, ast.BinOp) and isinstance(v.op, ast.Add) and isinstance(v.left, ast.Constant) \
            and norm(v.right) == 'str(%s)' % g
        ok_shape = ok_shape or (isinstance(v, ast.BinOp) and isinstance(v.op, ast.Mod)
                                and isinstance(v.left, ast.Constant) and norm(v.right) in (g, '(%s,)' % g))
        if ok_shape:
            ctx.ob('C13.D1', 'generated name = constant prefix + decimal counter (injective in the counter)', True,
                   '%s:%d' % (F, name_assign.lineno))
        else:
            ctx.error('C13.D1', 'shape of the generated name not recognised: %s' % norm(v))

    _containers(ctx, m, mod, funcs, locks)
    _id_consumed(ctx, compile_fn, enclosing_with)
    _grid_filter_state(ctx, m)

    # ---- D2 name lifetime: shared-namespace writes
    try:
        wrap = m.methods(MOD, '_FnWrapper')
    except AnalysisError as e:
        ctx.error('C13.D2', str(e))
        wrap = {}
    ns_writes = []
    for fn in funcs:
        for n in walk_no_nested(fn):
            if isinstance(n, ast.Call) and norm(n.func) == 'exec':
                ns_writes.append((fn, n, 'exec'))
            if isinstance(n, ast.Delete):
                for t in n.targets:
                    if isinstance(t, ast.Subscript) and norm(t.value) == 'globals()':
                        ns_writes.append((fn, n, 'del'))
            if isinstance(n, ast.Assign):
                for t in n.targets:
                    if isinstance(t, ast.Subscript) and norm(t.value) == 'globals()':
                        ns_writes.append((fn, n, 'store'))
            if isinstance(n, ast.Call) and isinstance(n.func, ast.Attribute) and norm(n.func.value) == 'globals()' \
                    and n.func.attr in ('pop', '__delitem__', 'popitem', 'clear'):
                ns_writes.append((fn, n, 'pop'))
    ctx.count('shared-namespace writes', len(ns_writes))
    ctx.floor('shared-namespace writes', len(ns_writes), 2)
    for fn, n, kind in ns_writes:
        owner = getattr(fn, '_parent', None)
        in_wrapper = isinstance(owner, ast.ClassDef) and owner.name == '_FnWrapper'
        if kind == 'exec':
            ok = in_wrapper and fn.name == '__init__'
            private_ns = len(n.args) >= 2 and norm(n.args[1]) != 'globals()'
            if ok or private_ns:
                ctx.ob('C13.D2', 'exec of the generated def happens in the wrapper that owns the name%s'
                       % (' (private namespace)' if private_ns else ''), True, '%s:%d' % (F, n.lineno))
            else:
                ctx.violation('C13.D2', '%s::%s' % (F, fn.name), norm(n),
                              'generated code is exec\'d outside the owning wrapper', 'exec outside _FnWrapper.__init__',
                              file=F, line=n.lineno, engine='E11')
        elif kind == 'del':
            key = norm(n.targets[0].slice)
            ok = in_wrapper and fn.name == '__del__' and key == '%s.fun_name' % fn.args.args[0].arg
            if ok:
                ctx.ob('C13.D2', 'a generated name is deleted only by its own wrapper (del globals()[self.fun_name])',
                       True, '%s:%d' % (F, n.lineno))
            else:
                ctx.violation('C13.D2', '%s::%s' % (F, fn.name), norm(n),
                              'evicting one cached filter deletes the function of another, still cached, filter',
                              'deletion from the shared namespace is not keyed by the wrapper\'s own name', file=F,
                              line=n.lineno, engine='E11')
        elif kind == 'pop':
            key = norm(n.args[0]) if n.args else ''
            ok = in_wrapper and fn.name == '__del__' and key == '%s.fun_name' % fn.args.args[0].arg
            if ok:
                ctx.ob('C13.D2', 'a generated name is removed only by its own wrapper (globals().pop(self.fun_name, ...))', True,
                       '%s:%d' % (F, n.lineno))
            else:
                ctx.violation('C13.D2', '%s::%s' % (F, fn.name), norm(n),
                              'history: keep one filter in regular use while 500 other filters are compiled: `%s` removes the '
                              'generated function of a filter by AGE (creation order), the cache keeps filters by USE -- the hot '
                              'filter is still cached, its function is gone, and every later use raises KeyError' % norm(n)[:70],
                              'a generated function is removed from the shared namespace by something else than the finaliser of '
                              'its own wrapper', file=F, line=n.lineno, engine='E11')
        else:
            ctx.error('C13.D2', 'unexpected store into globals(): %s' % norm(n))
    init = wrap.get('__init__')
    if init is not None:
        a = [x.arg for x in init.args.args]
        stores = [norm(n) for n in walk_no_nested(init) if isinstance(n, ast.Assign)]
        if len(a) >= 2 and '%s.fun_name = %s' % (a[0], a[1]) in stores:
            ctx.ob('C13.D2', 'the wrapper remembers exactly the name it was created with', True,
                   '%s:%d' % (F, init.lineno))
        else:
            ctx.violation('C13.D2', '%s::_FnWrapper.__init__' % F, '; '.join(stores),
                          'the wrapper later looks up / deletes another name than the one it defined',
                          '_FnWrapper.__init__ does not store its own fun_name', file=F, line=init.lineno, engine='E11')
    get = wrap.get('get')
    if get is not None:
        rets = [norm(n.value) for n in walk_no_nested(get) if isinstance(n, ast.Return)]
        if rets == ['globals()[%s.fun_name]' % get.args.args[0].arg]:
            ctx.ob('C13.D2', 'callers receive the function object looked up under the wrapper\'s own name', True,
                   '%s:%d' % (F, get.lineno))
        else:
            ctx.error('C13.D2', '_FnWrapper.get not recognised: %s' % rets)
    # ---- D3 cache key
    decos = [norm(d) for d in compile_fn.decorator_list]
    params = [x.arg for x in compile_fn.args.args]
    cached = [d for d in decos if d.startswith('lru_cache') or d.startswith('functools.lru_cache')]
    if cached and len(params) == 1 and not compile_fn.args.vararg and not compile_fn.args.kwarg:
        ctx.ob('C13.D3', 'the compiled-filter cache is keyed by the filter text alone (%s, parameter %s)'
               % (cached[0], params[0]), True, '%s:%d' % (F, compile_fn.lineno))
        # the text that is parsed is the parameter itself
        parsed = [n for n in walk_no_nested(compile_fn) if isinstance(n, ast.Call) and norm(n.func) == 'parse_filter']
        if parsed and all(norm(p.args[0]) == params[0] for p in parsed if p.args):
            ctx.ob('C13.D3', 'the text compiled is the cache key itself', True, '%s:%d' % (F, compile_fn.lineno))
        else:
            ctx.violation('C13.D3', '%s::_filter_function' % F, '; '.join(norm(p) for p in parsed),
                          'two filters share a cache entry / the cached function is compiled from other text',
                          'parse_filter is not applied to the cache key', file=F, line=compile_fn.lineno, engine='E11')
    elif not cached:
        ctx.note('no lru_cache on _filter_function: every call compiles afresh (no sharing, D3 holds vacuously)')
        ctx.ob('C13.D3', 'no cache: nothing is shared between filters', True)
    else:
        ctx.violation('C13.D3', '%s::_filter_function' % F, 'def _filter_function(%s)' % ', '.join(params),
                      'different filters can share a cache entry', 'the cached function has parameters %s' % params,
                      file=F, line=compile_fn.lineno, engine='E11')
    # what _filter_function hands back is the wrapper it has just built -- or, when it consults a second store of
    # compiled filters, an entry found under the filter TEXT (not under a rendering of the parsed tree: filter_ast's
    # repr drops quotes and parentheses, so `val == 1.0` and `val == "1.0"` render alike)
    cparam = params[0] if params else None
    assigns = {}
    for a_ in walk_no_nested(compile_fn):
        if isinstance(a_, ast.Assign):
            for t_ in a_.targets:
                if isinstance(t_, ast.Name):
                    assigns.setdefault(t_.id, []).append(a_.value)
    n_fresh = 0
    for r_ in [x for x in walk_no_nested(compile_fn) if isinstance(x, ast.Return) and x.value is not None]:
        vals = assigns.get(r_.value.id, []) if isinstance(r_.value, ast.Name) else [r_.value]
        if not vals:
            ctx.error('C13.D3', '_filter_function returns `%s`, never assigned here; cannot decide' % norm(r_.value))
        for v_ in vals:
            if isinstance(v_, ast.Call) and norm(v_.func) == '_FnWrapper':
                n_fresh += 1
                continue
            key = None
            if isinstance(v_, ast.Call) and isinstance(v_.func, ast.Attribute) and v_.func.attr in ('get', 'pop', 'setdefault') and v_.args:
                key = v_.args[0]
            elif isinstance(v_, ast.Subscript):
                key = v_.slice
            if key is None:
                ctx.error('C13.D3', '_filter_function can return `%s`; cannot decide whether that is this filter\'s function' % norm(v_)[:60])
                continue
            kt = norm(key)
            # plain aliases of the parameter
            al = {cparam}
            for n_, vs_ in assigns.items():
                if any(isinstance(x, ast.Name) and x.id in al for x in vs_):
                    al.add(n_)
            if kt in al:
                ctx.ob('C13.D3', 'a stored wrapper is looked up under the filter text itself', True, '%s:%d' % (F, r_.lineno))
            elif isinstance(key, ast.Call) and norm(key.func) in ('repr', 'str', 'hash', 'len', 'id') \
                    or any(tok in kt for tok in ('.strip(', '.lower(', '.upper(', '.split(', '.replace(', '.casefold(', '[:', ':]')):
                ctx.violation('C13.D3', '%s::_filter_function' % F, norm(v_),
                              'history: evaluate `val == 1.0`, then `val == "1.0"` (or `(a or b) and c` then `a or b and c`): both '
                              'render to the same `%s`, so the second filter is handed the function compiled for the first and '
                              'selects the first filter\'s rows -- until the first is evicted, when the answer flips back' % kt[:50],
                              'a compiled filter is shared through a store keyed by `%s`, a many-to-one rendering of the filter, '
                              'not by the filter text' % kt[:50], file=F, line=v_.lineno, engine='E11')
            else:
                ctx.error('C13.D3', '_filter_function returns an entry stored under `%s`; cannot decide whether the key determines '
                                    'the filter' % kt[:60])
    ctx.count('fresh wrappers returned by _filter_function', n_fresh)
    try:
        ff = m.func(MOD, 'filter_function')
        rets = [norm(n.value) for n in walk_no_nested(ff) if isinstance(n, ast.Return)]
        p = ff.args.args[0].arg
        # plain aliases of the parameter (`text = filter`) are the parameter
        aliases = {p}
        for a_ in walk_no_nested(ff):
            if isinstance(a_, ast.Assign) and len(a_.targets) == 1 and isinstance(a_.targets[0], ast.Name) \
                    and isinstance(a_.value, ast.Name) and a_.value.id in aliases:
                aliases.add(a_.targets[0].id)
        import re as _re
        shape = _re.match(r'^_filter_function\((.+)\)\.get\(\)$', rets[0]) if len(rets) == 1 else None
        if shape and shape.group(1) in aliases:
            ctx.ob('C13.D3', 'filter_function(text) = _filter_function(text).get()', True, '%s:%d' % (F, ff.lineno))
        elif shape and any(tok in shape.group(1) for tok in ('.strip(', '.lower(', '.upper(', '.split(', '.replace(', '[:', ':]',
                                                             '.casefold(', '.join(')):
            ctx.violation('C13.D3', '%s::filter_function' % F, rets[0],
                          'two different filter texts that agree under `%s` share one cache entry: the second is evaluated with '
                          'the function compiled for the first' % shape.group(1)[:60],
                          'the cache key is a many-to-one transform of the filter text', file=F, line=ff.lineno, engine='E11')
        elif shape:
            # the argument is some other expression of the text: C11.D8 (text chain) judges rewrites; here: cannot decide
            ctx.error('C13.D3', 'filter_function passes `%s` to the cached compiler; whether that is the filter text is decided '
                                'by the text-chain rule (C11.D8)' % shape.group(1)[:60])
        else:
            ctx.violation('C13.D3', '%s::filter_function' % F, '; '.join(rets),
                          'the function returned is not the one compiled for this filter text',
                          'filter_function does not return _filter_function(text).get()', file=F, line=ff.lineno,
                          engine='E11')
    except AnalysisError as e:
        ctx.error('C13.D3', str(e))
