"""C12 -- filter literals are data, never code (E10 taint / repr-closedness)."""
from __future__ import annotations

import ast
import re

from .. import lang as L
from .. import ppgrammar as G
from ..flow import attr_writes
from ..model import AnalysisError, body_wo_doc, norm, walk_no_nested

META = {
    'level': 'other',
    'explanation': (
        'Static taint analysis from the filter text to exec in hszinc/grid_filter.py.  Sources: every token a '
        'grammar terminal captures.  Sink: the string passed to exec.  Decides: (D1) every fragment appended to the '
        'generated source is a constant, the recursive result, an operator taken from a constant Literal set, the '
        'path list (tokens of the tag-name regex, whose language is shown to be a subset of [A-Za-z0-9_]+, printed by '
        'list.__repr__), or repr() of a literal node; (D2) for every class a literal alternative of the filter '
        'grammar can construct, __repr__ (resolved through the MRO) is closed: constant head, every text-bearing '
        'field under %r (builtin reprs are closed by the library); (D3) parse_filter demands parseAll=True and the '
        'template is one def with one return expression; (D4) no open/import/os/subprocess/socket/eval/compile call '
        'in the filter modules, exec only in the wrapper, Grid.filter stores nothing through self; (D5) the value constructors a filter literal reaches (datatypes __new__/__init__, pintutil.to_pint/to_haystack) call nothing on program-wide objects (unit registry, module tables).  Also (D3): the filter text is handed unchanged from Grid.filter to the grammar (shared with C11.D8), so invalid tokens reach the grammar and are refused.  Not decided: '
        'absence of effects as an observation of executions.'
        ' Also (D4): calls into modules that hold interpreter-wide settings (warnings, locale, signal, gc, ...) on the filter path.  (D2) every return of an if/return __repr__ is analysed.'
        ' Also (D3): generated fragments are never a %-format template.  (D5) no codec / module is looked up by a name taken from a literal.  pyparsing_common elements are modelled by their regular expressions.'
        ' Also (D4): no attribute / global is resolved under a run-time name on the filter path.  (D1) reference-name token within the Haystack reference alphabet.'
        ' Round 9: (D3) filter text that reaches the exec template through a string edit (replace, strip, slicing ...) is still filter text: violation with a CR witness.'),
    'rule_text': 'obligations = fragments reaching exec (per append/extend site), literal classes x repr conversions, '
                 'shape facts, ambient-effect call scan',
    'trusted_base': ['repr() of str/float/int/bool/None/bytes/list/dict/date/time/datetime re-reads as a literal of '
                     'that value and nothing else'],
}

MOD = 'grid_filter'
F = 'hszinc/grid_filter.py'
BUILTIN_CLOSED = {'float', 'int', 'bool', 'None', 'str', 'token', 'date', 'time', 'datetime', 'list', 'dict'}
CONV = re.compile(r'%(?:\([^)]*\))?[-#0 +]*(?:\*|\d+)?(?:\.(?:\*|\d+))?([a-zA-Z%])')
DANGEROUS = {'open', '__import__', 'eval', 'compile', 'execfile', 'input'}
DANGEROUS_MODS = {'os', 'subprocess', 'socket', 'shutil', 'importlib', 'pickle', 'ctypes', 'sys',
                  # interpreter-wide settings: a call into these changes what the REST of the program observes
                  # (warnings.catch_warnings swaps the process-global filter list and is not thread-safe)
                  'warnings', 'locale', 'signal', 'gc', 'atexit', 'faulthandler', 'tracemalloc', 'resource', 'site'}


def run(ctx):
    m = ctx.model
    g = G.grammar_of(m, MOD)
    ctx.count('grammar nodes (grid_filter)', g.nodes)
    if g.opaque:
        ctx.error('C12', 'opaque grammar constructs in grid_filter: %s' % g.opaque[:3])
    _fragments(ctx, m, g)
    _closedness(ctx, m, g)
    _shape(ctx, m)
    _ambient(ctx, m)
    _dynamic_names(ctx, m)
    _ref_token(ctx, g)
    _constructors(ctx, m)
    # invalid tokens must reach the grammar to be refused: the text is not rewritten on the way (shared with C11.D8)
    from . import c11
    c11._text_chain(ctx, m, rule='C12.D3')
    format_of_fragments(ctx, m, 'C12.D3')
    c11.filter_bypass(ctx, m, 'C12.D3')


LOADS_BY_NAME = ('codecs.lookup', 'codecs.getencoder', 'codecs.getdecoder', 'codecs.getreader', 'codecs.getwriter',
                 'codecs.encode', 'codecs.decode', 'codecs.getincrementalencoder', 'codecs.getincrementaldecoder',
                 'importlib.import_module', 'pkgutil.get_data', 'pkgutil.find_loader', 'locale.setlocale')
PURE_MODULES = ('base64', 'binascii', 'six', 're', 'datetime', 'math', 'numbers', 'copy')
STATE_CHANGERS = ('define', 'register', 'load_definitions', 'enable_contexts', 'setdefault', 'update', 'add', 'append', 'extend',
                  'insert', 'pop', 'remove', 'clear', 'discard', 'popitem', 'default_format')


def _constructors(ctx, m):
    """(D5) the constructors of the values a filter literal can build (datatypes.py) and the unit translation they use
    (pintutil.to_pint / to_haystack) call nothing on program-wide objects: a literal in a filter cannot register
    units, fill module tables or declare globals."""
    n = 0
    for modname, pick in (('datatypes', lambda f: f.name in ('__new__', '__init__')),
                          ('pintutil', lambda f: f.name in ('to_pint', 'to_haystack'))):
        try:
            mod = m.mod(modname)
        except AnalysisError as e:
            ctx.error('C12.D5', str(e))
            continue
        F = 'hszinc/%s.py' % modname
        for fn in [x for x in ast.walk(mod.tree) if isinstance(x, ast.FunctionDef) and pick(x)]:
            n += 1
            owner = getattr(getattr(fn, '_parent', None), 'name', '')
            q = ('%s.%s' % (owner, fn.name)) if owner else fn.name
            local = {a.arg for a in fn.args.args} | {x.id for x in ast.walk(fn) if isinstance(x, ast.Name) and isinstance(x.ctx, ast.Store)}
            bad = None
            unknown = None
            loader = None
            for x in walk_no_nested(fn):
                if isinstance(x, (ast.Global, ast.Nonlocal)):
                    written = [y for y in walk_no_nested(fn) if isinstance(y, ast.Name) and y.id in x.names
                               and isinstance(y.ctx, (ast.Store, ast.Del))]
                    if written:
                        bad = (written[0], 'rebinds the module global %s' % written[0].id)
                    local -= set(x.names)
                if isinstance(x, (ast.Assign, ast.AugAssign)):
                    for t in (x.targets if isinstance(x, ast.Assign) else [x.target]):
                        b = t
                        while isinstance(b, (ast.Attribute, ast.Subscript)):
                            b = b.value
                        if isinstance(t, (ast.Attribute, ast.Subscript)) and isinstance(b, ast.Name) and b.id not in local:
                            bad = (x, 'stores into the program-wide object %s' % b.id)
                if isinstance(x, ast.Call) and isinstance(x.func, ast.Attribute):
                    b = x.func.value
                    while isinstance(b, (ast.Attribute, ast.Subscript)):
                        b = b.value
                    if isinstance(b, ast.Call):
                        continue        # super().__init__ and the like
                    if not isinstance(b, ast.Name) or b.id in local or b.id in PURE_MODULES or b.id in ('bytearray', 'bytes', 'str'):
                        continue
                    if x.func.attr in STATE_CHANGERS:
                        bad = (x, 'calls %s on the program-wide object %s' % (x.func.attr, b.id))
                    elif norm(x.func) in LOADS_BY_NAME and x.args and not isinstance(x.args[0], ast.Constant):
                        loader = x
                    else:
                        unknown = (x, b.id)
            if loader is not None and not bad:
                ctx.violation('C12.D5', '%s::%s' % (F, q), norm(loader),
                              'grid.filter(\'blob == rot_13("x")\') (or bz2("..") / idna("..") / any name): the type name of an '
                              'extended-string literal comes from the filter text and is handed to `%s`, which IMPORTS '
                              'encodings.<that name> -- module files are opened and sys.modules grows although only a filter was '
                              'evaluated' % norm(loader.func),
                              'a value constructor reachable from filter literals looks a codec up by a name taken from the '
                              'literal (`%s`): the registry search imports modules' % norm(loader)[:60], file=F,
                              line=loader.lineno, engine='E7')
                continue
            if bad:
                ctx.violation('C12.D5', '%s::%s' % (F, q), norm(bad[0]),
                              'grid.filter(\'power ==5zorkmid\') (a number literal with a made-up unit, Pint mode): building the '
                              'literal %s -- afterwards the name is known program-wide (hszinc.ureg) although only a filter '
                              'was evaluated' % bad[1],
                              'a value constructor reachable from filter literals %s' % bad[1], file=F, line=bad[0].lineno,
                              engine='E7')
            elif unknown:
                ctx.error('C12.D5', '%s:%d %s calls `%s` on the module-level object %s: effect not tabled; cannot decide'
                          % (F, unknown[0].lineno, q, norm(unknown[0].func), unknown[1]))
            else:
                ctx.ob('C12.D5', '%s touches no program-wide object' % q, True, '%s:%d' % (F, fn.lineno))
    ctx.floor('value constructors analysed', n, 6)


# ------------------------------------------------------------------ D1

def _fragments(ctx, m, g):
    try:
        gen = m.func(MOD, '_generate_filter_in_python')
    except AnalysisError as e:
        ctx.error('C12.D1', str(e))
        return
    params = [a.arg for a in gen.args.args]
    node_p, acc_p = params[0], params[1]
    n_sites = 0
    for n in walk_no_nested(gen):
        if not (isinstance(n, ast.Call) and isinstance(n.func, ast.Attribute) and n.func.attr in ('append', 'extend')
                and norm(n.func.value) == acc_p and len(n.args) == 1):
            continue
        n_sites += 1
        a = n.args[0]
        where = '%s:%d' % (F, n.lineno)
        t = norm(a)
        if isinstance(a, ast.Constant) and isinstance(a.value, str):
            ctx.ob('C12.D1', 'fragment %r is a constant' % a.value, True, where)
            continue
        if n.func.attr == 'extend' and isinstance(a, ast.Call) and norm(a.func) == gen.name:
            ctx.ob('C12.D1', 'fragment is the recursive result', True, where)
            continue
        if isinstance(a, ast.BinOp) and isinstance(a.op, ast.Mod) and isinstance(a.left, ast.Constant) \
                and norm(a.right) == '%s.path' % node_p:
            _path_closed(ctx, m, g, a, where)
            continue
        if isinstance(a, ast.BinOp) and isinstance(a.op, ast.Add) and '%s.op' % node_p in t:
            parts = _flatten_add(a)
            if all((isinstance(p, ast.Constant) and isinstance(p.value, str)) or norm(p) == '%s.op' % node_p
                   for p in parts):
                _ops_constant(ctx, m, g, where)
                continue
        if isinstance(a, ast.BinOp) and isinstance(a.op, ast.Mod) and isinstance(a.left, ast.Constant) \
                and isinstance(a.left.value, str) and norm(a.right) in ('%s.op' % node_p, '(%s.op,)' % node_p):
            convs = [c_ for c_ in CONV.findall(a.left.value) if c_ != '%']
            if convs == ['r']:
                ctx.ob('C12.D1', 'operator is formatted with %%r in `%s` (closed whatever its text)' % a.left.value,
                       True, where)
                _ops_constant(ctx, m, g, where)
                continue
            if convs == ['s']:
                _ops_constant(ctx, m, g, where)
                continue
        if t == 'repr(%s)' % node_p:
            # must be the branch for literal nodes (after the AST node classes were excluded)
            ctx.ob('C12.D1', 'literal nodes are spliced with repr() (closedness per class: D2)', True, where)
            continue
        # anything else is attacker text formatted without repr
        ctx.violation('C12.D1', '%s::_generate_filter_in_python' % F, norm(n),
                      'filter  a == "x\\" or __import__(\'os\').system(\'id\') or \\""  : the literal is spliced as %s, '
                      'not as repr(), so its text becomes Python source' % t,
                      'fragment `%s` reaches exec without passing through repr()' % t, file=F, line=n.lineno,
                      engine='E10')
    ctx.count('fragments reaching exec', n_sites)
    ctx.floor('fragments reaching exec', n_sites, 8)


def _flatten_add(e):
    if isinstance(e, ast.BinOp) and isinstance(e.op, ast.Add):
        return _flatten_add(e.left) + _flatten_add(e.right)
    return [e]


def _path_closed(ctx, m, g, a, where):
    """node.path is a list of tag-name tokens; its %s form is list.__repr__ of identifier-like strings."""
    try:
        hs_path = g.get('hs_path')
        hs_name = g.get('hs_name')
    except AnalysisError as e:
        ctx.error('C12.D1', str(e))
        return
    # language of a path segment
    try:
        seg = G.ToRx().rx(hs_name)
        ident = L.rcat(L.rstar(L.rset(G.WS)), L.rplus(L.rset(L.iv((48, 57), (65, 90), (95, 95), (97, 122)))))
        w = L.find_not_included(seg, ident)
    except L.Unsupported as e:
        ctx.error('C12.D1', 'path segment language: %s' % e)
        return
    if w:
        ctx.violation('C12.D1', '%s::hs_name' % F, hs_name.data.get('pattern', hs_name.label()),
                      'a tag name token may contain %r, which list.__repr__ would still quote -- but a non-identifier '
                      'tag is outside the closed alphabet the analysis relies on' % L.render(w[0]),
                      'tag-name tokens are not limited to [A-Za-z0-9_]+', file=F, line=hs_name.lineno, engine='E10')
    else:
        ctx.ob('C12.D1', 'L(tag name) is a subset of [A-Za-z0-9_]+', True, '%s:%s' % (F, hs_name.lineno))
    # every FilterPath(...) construction takes a list of tokens
    n_ctor = 0
    for node in G.walk(g.get('hs_filter')):
        a_ = node.action
        for r in G.action_returns(a_) if a_ is not None and not isinstance(a_, G.Opaque) else []:
            for c in ast.walk(r):
                if isinstance(c, ast.Call) and norm(c.func) == 'FilterPath':
                    n_ctor += 1
                    arg = norm(c.args[0]) if c.args else ''
                    if arg in ('[t for t in toks]', 'list(toks)', 'toks.asList()', 'toks.as_list()'):
                        ctx.ob('C12.D1', 'FilterPath is built from the token list (%s)' % arg, True,
                               '%s:%s' % (F, node.lineno))
                    else:
                        ctx.error('C12.D1', 'FilterPath(%s): argument not recognised' % arg)
    # tokens of hs_path are hs_name tokens only (separators suppressed)
    toks = [n for n in G.walk(hs_path) if n.kind in ('Regex', 'Literal', 'Word', 'CaselessLiteral')]
    bad = []
    for n in toks:
        sup = False
        # is it under a Suppress?
        for s in G.walk(hs_path):
            if s.kind == 'Suppress' and any(x.id == n.id for x in G.walk(s)):
                sup = True
        if not sup and n.id != hs_name.id and n.data.get('pattern') != hs_name.data.get('pattern'):
            bad.append(n)
    if bad:
        ctx.violation('C12.D1', '%s::hs_path' % F, bad[0].label(), 'a path token other than a tag name is captured',
                      'hs_path captures tokens that are not tag names', file=F, line=bad[0].lineno, engine='E10')
    else:
        ctx.ob('C12.D1', 'hs_path captures only tag-name tokens', True, '%s:%s' % (F, hs_path.lineno))
    fmt = a.left.value
    if CONV.findall(fmt) == ['s'] or CONV.findall(fmt) == ['r']:
        ctx.ob('C12.D1', 'the path list is formatted by list.__repr__ (each segment quoted)', True, where)
    else:
        ctx.error('C12.D1', 'path fragment format %r not recognised' % fmt)
    # FilterPath.path is assigned only from the constructor argument
    try:
        init = m.func('filter_ast', 'FilterPath.__init__')
        stores = [norm(s) for s in walk_no_nested(init) if isinstance(s, ast.Assign)]
        p = init.args.args[1].arg
        if stores == ['self.path = %s' % p]:
            ctx.ob('C12.D1', 'FilterPath.path is the constructor argument, unchanged', True)
        else:
            ctx.error('C12.D1', 'FilterPath.__init__ changed: %s' % stores)
    except AnalysisError as e:
        ctx.error('C12.D1', str(e))


PY_OPS = {'==', '!=', '<=', '>=', '<', '>', 'and', 'or'}


def _ops_constant(ctx, m, g, where):
    """node.op values come only from constants / constant Literal alternatives."""
    if getattr(ctx, '_ops_done', False):
        return
    ctx._ops_done = True
    found = 0
    for node in G.walk(g.get('hs_filter')):
        a_ = node.action
        if a_ is None or isinstance(a_, G.Opaque):
            continue
        for r in ([a_.node] if isinstance(a_, G.FuncRef) else G.action_returns(a_)):
            for c in ast.walk(r):
                if isinstance(c, ast.Call) and norm(c.func) in ('FilterBinary', 'FilterUnary') and c.args:
                    found += 1
                    op = c.args[0]
                    if isinstance(op, ast.Constant) and isinstance(op.value, str):
                        if norm(c.func) == 'FilterBinary' and op.value not in PY_OPS:
                            ctx.violation('C12.D1', '%s::%s' % (F, node.label()), norm(c),
                                          'operator text %r is spliced into the generated source' % op.value,
                                          'FilterBinary operator %r is not a Python comparison/boolean operator' % op.value,
                                          file=F, line=node.lineno, engine='E10')
                        else:
                            ctx.ob('C12.D1', '%s operator is the constant %r' % (norm(c.func), op.value), True,
                                   '%s:%s' % (F, node.lineno))
                    elif isinstance(op, ast.Subscript) and isinstance(a_, G.FuncRef) \
                            and not isinstance(op.slice, ast.Constant):
                        # fold over `X (lit X)*`: the operator tokens are the literals between operands
                        from .c11 import _chain, fold_coverage
                        ch = _chain(node)
                        st, _ = fold_coverage(a_, g)
                        if ch is not None and st == 'ok' and ch[1] in PY_OPS:
                            ctx.ob('C12.D1', 'fold operator token comes from the constant literal %r' % ch[1], True,
                                   '%s:%s' % (F, node.lineno))
                        elif ch is not None and ch[1] not in PY_OPS:
                            ctx.violation('C12.D1', '%s::%s' % (F, node.label()), norm(c),
                                          'chain literal %r is spliced verbatim into Python source' % ch[1],
                                          'chain operator is not a Python boolean operator', file=F,
                                          line=node.lineno, engine='E10')
                        else:
                            ctx.error('C12.D1', 'fold operator source of %s not recognised' % node.label())
                    elif isinstance(op, ast.Subscript) and norm(op.value) == 'toks' and isinstance(op.slice, ast.Constant):
                        idx = op.slice.value
                        kids = [k for k in node.children] if node.kind == 'And' else []
                        captured = [k for k in kids if k.kind != 'Suppress']
                        el = captured[idx] if 0 <= idx < len(captured) else None
                        lits = _literal_set(el) if el is not None else None
                        if lits is not None and lits <= PY_OPS:
                            ctx.ob('C12.D1', 'operator token comes from the constant literal set %s' % sorted(lits), True,
                                   '%s:%s' % (F, node.lineno))
                        elif lits is not None:
                            ctx.violation('C12.D1', '%s::%s' % (F, node.label()), norm(c),
                                          'operator literal(s) %s are spliced verbatim into Python source'
                                          % sorted(lits - PY_OPS),
                                          'comparison operator set contains non-Python operators', file=F,
                                          line=node.lineno, engine='E10')
                        else:
                            ctx.violation('C12.D1', '%s::%s' % (F, node.label()), norm(c),
                                          'the operator position accepts free text, which is spliced unquoted into the '
                                          'generated source',
                                          'FilterBinary operator is a token that is not limited to constant literals',
                                          file=F, line=node.lineno, engine='E10')
                    else:
                        ctx.error('C12.D1', 'operator argument %s not recognised' % norm(op))
    ctx.floor('FilterBinary/FilterUnary constructions', found, 5)


def _literal_set(node):
    if node.kind == 'Literal':
        return {node.data['s']}
    if node.kind in ('Or', 'MatchFirst'):
        out = set()
        for c in node.children:
            s = _literal_set(c)
            if s is None:
                return None
            out |= s
        return out
    if node.kind == 'Forward' and node.content is not None:
        return _literal_set(node.content)
    return None


# ------------------------------------------------------------------ D2

def _resolve_repr(m, clsname, modname='datatypes'):
    """(class node, __repr__ def) following single inheritance inside datatypes."""
    seen = set()
    name = clsname
    while name and name not in seen:
        seen.add(name)
        try:
            c = m.cls(modname, name)
        except AnalysisError:
            return None, None, name
        meths = m.methods(modname, name)
        if '__repr__' in meths:
            return c, meths['__repr__'], name
        bases = [norm(b) for b in c.bases]
        nxt = None
        for b in bases:
            if b in ('object',):
                continue
            if b.startswith('six.') or b in ('str',):
                return c, None, b
            nxt = b
            break
        name = nxt
    return None, None, name


def _closedness(ctx, m, g):
    try:
        hs_val = g.get('hs_val')
    except AnalysisError as e:
        ctx.error('C12.D2', str(e))
        return
    kind, alts = G.alternatives(hs_val)
    kinds = {}
    for a in alts:
        for k in G.built_kinds(a):
            kinds.setdefault(k, a)
    ctx.count('literal kinds constructible by hs_val', len(kinds))
    ctx.floor('literal kinds constructible by hs_val', len(kinds), 14)
    class_of = {'Quantity': 'BasicQuantity', 'MARKER': 'MarkerType', 'NA': 'NAType', 'REMOVE': 'RemoveType'}
    for k, alt in sorted(kinds.items()):
        where = '%s:%s' % (F, alt.lineno)
        if k in BUILTIN_CLOSED:
            ctx.ob('C12.D2', 'literal kind %s: builtin repr is closed' % k, True, where)
            continue
        if k.startswith(('forward:', 'name:', 'call:', 'expr:')) or k in ('opaque', 'passthrough', 'tuple'):
            ctx.error('C12.D2', 'literal alternative %s builds an unrecognised kind %s' % (alt.label(), k))
            continue
        clsname = class_of.get(k, k)
        c, rp, owner = _resolve_repr(m, clsname)
        if c is None:
            ctx.error('C12.D2', 'class %s (kind %s) not found in datatypes' % (clsname, k))
            continue
        if rp is None:
            ctx.ob('C12.D2', 'literal kind %s inherits %s.__repr__ (builtin, closed)' % (k, owner), True, where)
            continue
        FD = 'hszinc/datatypes.py'
        body = body_wo_doc(rp)
        rets = [r for r in walk_no_nested(rp) if isinstance(r, ast.Return)]
        straight = all(isinstance(x, (ast.If, ast.Return)) or (isinstance(x, ast.Expr) and isinstance(x.value, ast.Constant))
                       for x in walk_no_nested(rp) if isinstance(x, ast.stmt) and x is not rp)
        if not rets or not straight or any(r.value is None for r in rets):
            ctx.error('C12.D2', '%s.__repr__ is not a single return' % owner)
            continue
        # every way out of __repr__ (if / return only) must give a closed text
        for ret in rets:
            _closed_repr(ctx, c, rp, owner, k, ret, FD)


def _closed_repr(ctx, c, rp, owner, k, ret, FD):
        v = ret.value
        if isinstance(v, ast.Constant) and isinstance(v.value, str):
            ctx.ob('C12.D2', '%s.__repr__ is the constant %r' % (owner, v.value), True, '%s:%d' % (FD, rp.lineno))
            return
        if not (isinstance(v, ast.BinOp) and isinstance(v.op, ast.Mod) and isinstance(v.left, ast.Constant)
                and isinstance(v.left.value, str)):
            ctx.error('C12.D2', '%s.__repr__ has an unrecognised form: %s' % (owner, norm(v)))
            return
        fmt = v.left.value
        convs = [c_ for c_ in CONV.findall(fmt) if c_ != '%']
        args = v.right.elts if isinstance(v.right, ast.Tuple) else [v.right]
        if len(convs) != len(args):
            ctx.error('C12.D2', '%s.__repr__: %d conversions for %d arguments' % (owner, len(convs), len(args)))
            return
        unclosed = []
        for conv, arg in zip(convs, args):
            t = norm(arg)
            if conv == 'r':
                continue
            if conv == 's' and t in ('self.__class__.__name__', 'type(self).__name__'):
                continue
            if conv == 's' and re.match(r'^super\((\w+, self)?\)\.__repr__\(\)$', t):
                # base must be a builtin str
                bases = [norm(b) for b in c.bases]
                if any(b in ('six.text_type', 'str') for b in bases):
                    continue
            if conv in ('d', 'f', 'g', 'x', 'e'):
                continue
            unclosed.append((conv, t))
        # constant head: the text before the first conversion must be an identifier + "(" or start with %s=class name
        if unclosed:
            conv, t = unclosed[0]
            ctx.violation('C12.D2', '%s::%s.__repr__' % (FD, owner), norm(ret),
                          'filter  a == eval("__import__(\'os\').system(\'id\')")  parses as an extended-string literal '
                          '(type tag `eval`, payload the string); repr() gives  eval("…")  verbatim, and the generated '
                          'function calls the builtin on attacker text' if owner == 'XStr' else
                          'a literal of kind %s whose field %s contains  \') or __import__("os").system("id") or (\'  '
                          'breaks out of the generated expression' % (k, t),
                          '%s.__repr__ formats %s with %%%s: text taken from the filter reaches exec unquoted '
                          '(the repr is not closed)' % (owner, t, conv), file=FD, line=rp.lineno, engine='E10')
        else:
            ctx.ob('C12.D2', '%s.__repr__ `%s` is closed: constant head, every field under %%r' % (owner, fmt), True,
                   '%s:%d' % (FD, rp.lineno))


def format_of_fragments(ctx, m, rule='C12.D3'):
    """The generated fragments hold repr() of the filter's literals.  They may be joined and concatenated, but never be
    (part of) the LEFT operand of `%`: there a percent sign inside a string literal of the filter is a format directive."""
    try:
        cf = m.func(MOD, '_filter_function')
    except AnalysisError as e:
        ctx.error(rule, str(e))
        return
    frag = set()
    for n in walk_no_nested(cf):
        if isinstance(n, ast.Call) and norm(n.func) == '_generate_filter_in_python':
            if len(n.args) > 1 and isinstance(n.args[1], ast.Name):
                frag.add(n.args[1].id)
            p_ = getattr(n, '_parent', None)
            if isinstance(p_, ast.Assign) and len(p_.targets) == 1 and isinstance(p_.targets[0], ast.Name):
                frag.add(p_.targets[0].id)
    # names assigned from an expression that contains fragments carry them too
    changed = True
    while changed:
        changed = False
        for n in walk_no_nested(cf):
            if isinstance(n, ast.Assign) and len(n.targets) == 1 and isinstance(n.targets[0], ast.Name) and n.targets[0].id not in frag \
                    and any(isinstance(x, ast.Name) and x.id in frag for x in ast.walk(n.value)):
                # ... unless this very assignment is a `%` whose left side carries them (reported below)
                frag.add(n.targets[0].id)
                changed = True
    hits = [n for n in walk_no_nested(cf) if isinstance(n, ast.BinOp) and isinstance(n.op, ast.Mod)
            and any(isinstance(x, ast.Name) and x.id in frag for x in ast.walk(n.left))]
    if hits:
        n = hits[0]
        ctx.violation(rule, '%s::_filter_function' % F, norm(n),
                      'filter `dis == "100%"` (or `load == "%s"`, or a URI with %20): the generated source, which contains repr() '
                      'of that literal, is the left operand of `%` -- the percent sign is read as a format directive: TypeError / '
                      'ValueError out of Grid.filter, and `dis == "5%%"` is silently compiled as "5%"',
                      'generated code fragments are used as a %%-format template (`%s`)' % norm(n.left)[:50], file=F,
                      line=n.lineno, engine='E10')
    else:
        ctx.ob(rule, 'the generated fragments are only joined / concatenated, never the template of a %-format', True,
               '%s:%d' % (F, cf.lineno))


# ------------------------------------------------------------------ D3 / D4

def _shape(ctx, m):
    try:
        pf = m.func(MOD, 'parse_filter')
    except AnalysisError as e:
        ctx.error('C12.D3', str(e))
        return
    calls = [n for n in walk_no_nested(pf) if isinstance(n, ast.Call) and isinstance(n.func, ast.Attribute)
             and n.func.attr in ('parseString', 'parse_string')]
    if len(calls) == 1:
        kw = {k.arg: norm(k.value) for k in calls[0].keywords}
        pa = kw.get('parseAll', kw.get('parse_all'))
        if pa is None and len(calls[0].args) > 1:
            pa = norm(calls[0].args[1])
        if pa == 'True' and norm(calls[0].func.value) == 'hs_filter':
            ctx.ob('C12.D3', 'parse_filter parses with hs_filter and parseAll=True: trailing text is a parse error',
                   True, '%s:%d' % (F, pf.lineno))
        else:
            ctx.violation('C12.D3', '%s::parse_filter' % F, norm(calls[0]),
                          'filter  "a b c ) junk"  is accepted up to the first token that does not fit; the rest is '
                          'silently ignored instead of being rejected',
                          'parse_filter does not demand that the whole text is a filter (parseAll=%s)' % pa, file=F,
                          line=calls[0].lineno, engine='E10')
    else:
        ctx.error('C12.D3', 'parse_filter: parseString call not found')
    try:
        cf = m.func(MOD, '_filter_function')
    except AnalysisError as e:
        ctx.error('C12.D3', str(e))
        return
    # the string handed to _FnWrapper (and from there to exec): a tree of % / + over constants, the generated
    # name and the joined fragments -- anything else is text that reaches exec unfiltered
    wrap = [n for n in walk_no_nested(cf) if isinstance(n, ast.Call) and norm(n.func) == '_FnWrapper' and len(n.args) == 2]
    if not wrap or not all(isinstance(a, ast.Name) for a in wrap[0].args):
        ctx.error('C12.D3', '_FnWrapper(name, template) call not found in _filter_function')
        return
    name_var, tmpl_var = wrap[0].args[0].id, wrap[0].args[1].id
    assigns = {}
    for n in walk_no_nested(cf):
        if isinstance(n, ast.Assign) and len(n.targets) == 1 and isinstance(n.targets[0], ast.Name):
            assigns.setdefault(n.targets[0].id, []).append(n)
    frag_vars = {k for k, v in assigns.items() if any(isinstance(a.value, ast.Call) and norm(a.value.func) ==
                                                      '_generate_filter_in_python' for a in v)}
    params = {a.arg for a in cf.args.args}
    tmpl = assigns.get(tmpl_var, [None])[-1]
    problems = []
    consts = []

    def leaves(e):
        if isinstance(e, ast.BinOp) and isinstance(e.op, (ast.Mod, ast.Add)):
            leaves(e.left)
            if isinstance(e.right, ast.Tuple):
                for x in e.right.elts:
                    leaves(x)
            else:
                leaves(e.right)
            return
        if isinstance(e, ast.Constant) and isinstance(e.value, str):
            consts.append(e.value)
            return
        if isinstance(e, ast.Name) and e.id == name_var:
            return
        if isinstance(e, ast.Call) and isinstance(e.func, ast.Attribute) and e.func.attr == 'join' \
                and isinstance(e.func.value, ast.Constant) and e.args and norm(e.args[0]) in frag_vars:
            return
        if isinstance(e, ast.Name) and e.id in params:
            problems.append(('raw', e))
            return
        # the text after a string edit (replace / strip / translate / slicing ...) is still the filter's text: no edit
        # short of the parser + repr() makes it one Python token (a lone CR, a form feed + indentation, ... end a line too)
        base = e
        edits = []
        while True:
            if isinstance(base, ast.Call) and isinstance(base.func, ast.Attribute) and base.func.attr in (
                    'replace', 'strip', 'lstrip', 'rstrip', 'lower', 'upper', 'translate', 'expandtabs', 'casefold', 'title',
                    'splitlines', 'split', 'join', 'encode', 'decode', 'format', 'ljust', 'rjust', 'center'):
                edits.append(base.func.attr)
                base = base.args[0] if base.func.attr == 'join' and base.args else base.func.value
            elif isinstance(base, ast.Subscript):
                edits.append('[...]')
                base = base.value
            elif isinstance(base, ast.Call) and norm(base.func) in ('str', 'six.text_type') and len(base.args) == 1:
                base = base.args[0]
            else:
                break
        if edits and isinstance(base, ast.Name) and base.id in params:
            problems.append(('edited', e))
            return
        problems.append(('unknown', e))

    if tmpl is None:
        ctx.error('C12.D3', 'assignment of the exec template (%s) not found' % tmpl_var)
    else:
        leaves(tmpl.value)
        raw = [e for k, e in problems if k == 'raw']
        unk = [e for k, e in problems if k == 'unknown']
        if raw:
            ctx.violation('C12.D3', '%s::_filter_function' % F, norm(tmpl),
                          'the raw filter text `%s` is formatted into the source handed to exec: the filter  a ==\\n'
                          'eval("__import__(\'os\').system(\'id\')")  is a valid filter (white space between tokens may be a '
                          'line break), and whatever follows the line break leaves the comment/position it was put in and is '
                          'executed as module-level code' % norm(raw[0]),
                          'text taken from the filter (parameter `%s`) reaches exec without passing through the parser and '
                          'repr()' % norm(raw[0]), file=F, line=tmpl.lineno, engine='E10')
        elif [e for k, e in problems if k == 'edited']:
            ed = [e for k, e in problems if k == 'edited'][0]
            ctx.violation('C12.D3', '%s::_filter_function' % F, norm(tmpl)[:160],
                          'the filter text is formatted into the source handed to exec after the edit `%s`: the filter  x ==\\r  '
                          'exec("__import__(\'os\').system(\'id\')")  is a valid filter (a lone carriage return is white space '
                          'between tokens for the filter grammar and the end of a line for Python; the same for any line break the '
                          'edit does not remove), so what follows the CR leaves the comment/position it was put in and runs as the '
                          'body of the generated function, once per row' % norm(ed)[:60],
                          'text taken from the filter reaches exec through a string edit (`%s`) instead of through the parser and '
                          'repr()' % norm(ed)[:60], file=F, line=tmpl.lineno, engine='E10')
        elif unk:
            ctx.error('C12.D3', 'exec template contains an unrecognised part: %s' % norm(unk[0]))
        else:
            text = ''.join(consts)
            if text.count('def ') == 1 and text.count('return ') == 1 and 'import' not in text and ';' not in text:
                ctx.ob('C12.D3', 'the generated source is one def with a single `return <expr>` line; only the generated '
                                 'name and the joined fragments are formatted into it', True, '%s:%d' % (F, tmpl.lineno))
            else:
                ctx.error('C12.D3', 'constant parts of the exec template not recognised: %r' % text)
    # what is parsed is what was asked: def_filter built from parse_filter(filter)._head
    gen_calls = [n for n in walk_no_nested(cf) if isinstance(n, ast.Call) and norm(n.func) == '_generate_filter_in_python']
    if gen_calls and norm(gen_calls[0].args[0]) == 'parse_filter(%s)._head' % cf.args.args[0].arg:
        ctx.ob('C12.D3', 'the source is generated from the parsed AST of the given text only', True,
               '%s:%d' % (F, cf.lineno))
    else:
        ctx.error('C12.D3', 'generation call not recognised')


def _inside_function(n):
    p = getattr(n, '_parent', None)
    while p is not None:
        if isinstance(p, (ast.FunctionDef, ast.Lambda)):
            return True
        p = getattr(p, '_parent', None)
    return False


def _ref_token(ctx, g, rule='C12.D1', F=F, where_='filter'):
    """(D1) the name part of a reference literal stays inside the Haystack reference alphabet (letters, digits,
    _ : - . ~): a class written `[A-z...]` also admits [ \\ ] ^ and the backtick, so `x == @a\\b` or `@a`b` is parsed and
    compiled instead of being refused."""
    from .. import spec as S_
    try:
        ref = g.get('hs_ref')
    except AnalysisError as e:
        ctx.error(rule, str(e))
        return
    kids = [c for c in ref.children] if ref.kind == 'And' else []
    # the element after the `@`
    name_el = None
    for i, c in enumerate(kids):
        if c.kind in ('Literal', 'Suppress') and i + 1 < len(kids):
            name_el = kids[i + 1]
            break
    if name_el is None:
        ctx.error(rule, 'hs_ref: name element not found')
        return
    try:
        rx = G.ToRx().rx(name_el)
        # (pyparsing skips white space in front of a token: that is not part of the name)
        alphabet = L.rcat(L.rstar(L.rset(G.WS)), L.rstar(L.rset(_alphabet_of(S_.domain('ref_name')))))
        w = L.find_not_included(rx, alphabet, max_witnesses=1)
    except Unsupported as e:
        ctx.error(rule, 'hs_ref name: %s' % e)
        return
    where = '%s:%s' % (F, name_el.lineno)
    if w:
        text = ''.join(chr(c) for c in w[0])
        ctx.violation(rule, '%s::hs_ref' % F, name_el.label() or 'reference name',
                      '%s: `x == @%s` / the scalar `@%s` is accepted although %r is not a reference: the name token admits a '
                      'character outside ASCII letters, ASCII digits and _ : - . ~ (a range such as A-z spans [ \\ ] ^ _ and the '
                      'backtick; \\d also matches non-ASCII decimal digits)'
                      % ('the filter grammar' if where_ == 'filter' else 'the ZINC grammar', text, text, '@' + text),
                      'the reference-name token accepts characters outside the Haystack reference alphabet',
                      file=F, line=name_el.lineno, engine='E3')
    else:
        ctx.ob(rule, 'reference names (%s grammar) stay inside the Haystack reference alphabet' % where_, True, where)


def _alphabet_of(rx):
    k = rx[0]
    if k == 'set':
        return rx[1]
    if k in ('cat', 'alt'):
        out = ()
        for x in rx[1]:
            out = L.iv_union(out, _alphabet_of(x))
        return out
    if k == 'star':
        return _alphabet_of(rx[1])
    return ()


def _dynamic_names(ctx, m):
    """(D4) nothing on the filter path looks an attribute / global up under a NAME COMPUTED AT RUN TIME
    (`getattr(module, <token>)`, `globals()[<token>]`, `vars(x)[...]`, `x.__dict__[...]`): the type name of a literal
    would select which library callable runs.  The generated-function namespace (`globals()[self.fun_name]` inside
    _FnWrapper, names made from the counter) is the one tabled exception."""
    n = 0
    for modname in (MOD, 'filter_ast'):
        mod = m.mod(modname)
        fpath = 'hszinc/%s.py' % modname
        for node in ast.walk(mod.tree):
            hit = None
            if isinstance(node, ast.Call) and norm(node.func) in ('getattr', 'setattr', 'delattr', 'hasattr') and len(node.args) >= 2 \
                    and not isinstance(node.args[1], ast.Constant):
                hit = node
            elif isinstance(node, ast.Subscript) and not isinstance(node.slice, ast.Constant) and (
                    (isinstance(node.value, ast.Call) and norm(node.value.func) in ('globals', 'vars', 'locals'))
                    or (isinstance(node.value, ast.Attribute) and node.value.attr == '__dict__')):
                owner = node
                while owner is not None and not isinstance(owner, ast.ClassDef):
                    owner = getattr(owner, '_parent', None)
                if owner is not None and owner.name == '_FnWrapper' and norm(node.slice) in ('self.fun_name', 'fun_name'):
                    continue
                hit = node
            if hit is None:
                continue
            n += 1
            ctx.violation('C12.D4', '%s::%s' % (fpath, norm(hit)[:40]), norm(hit),
                          'filter  x == use_pint("1")  (an extended-string literal whose TYPE NAME is the name of a library '
                          'callable): `%s` looks the name up at run time and the result is called with the literal\'s text -- '
                          'the filter text chooses which code runs (here it flips the library into Pint mode for the whole '
                          'process)' % norm(hit)[:60],
                          'a name computed from the filter is resolved with `%s`' % norm(hit)[:60], file=fpath, line=hit.lineno,
                          engine='E10')
    if not n:
        ctx.ob('C12.D4', 'no attribute / global is looked up under a run-time name on the filter path (the generated-function '
                         'namespace of _FnWrapper aside)', True, F)


def _ambient(ctx, m):
    n_calls = 0
    for modname in (MOD, 'filter_ast'):
        mod = m.mod(modname)
        for n in ast.walk(mod.tree):
            if not isinstance(n, ast.Call):
                continue
            n_calls += 1
            fn = norm(n.func)
            head = fn.split('.')[0]
            fpath = 'hszinc/%s.py' % modname
            if fn in DANGEROUS or (head in DANGEROUS_MODS and '.' in fn):
                ctx.violation('C12.D4', '%s::%s' % (fpath, fn), norm(n), 'evaluating any filter performs `%s`' % norm(n),
                              'ambient effect `%s` on the filter path' % fn, file=fpath, line=n.lineno, engine='E7')
            if fn == 'exec':
                p = n
                owner = None
                while p is not None:
                    if isinstance(p, ast.FunctionDef) and owner is None:
                        owner = p.name
                    if isinstance(p, ast.ClassDef):
                        owner = '%s.%s' % (p.name, owner)
                        break
                    p = getattr(p, '_parent', None)
                if owner == '_FnWrapper.__init__' and len(n.args) >= 1 and norm(n.args[0]) == 'function_template':
                    ctx.ob('C12.D4', 'the only exec is _FnWrapper.__init__ on the generated template', True,
                           '%s:%d' % (fpath, n.lineno))
                else:
                    ctx.violation('C12.D4', '%s::%s' % (fpath, owner), norm(n), 'text other than the generated template is exec\'d',
                                  'unexpected exec call', file=fpath, line=n.lineno, engine='E10')
        for n in ast.walk(mod.tree):
            if isinstance(n, (ast.Import, ast.ImportFrom)) and _inside_function(n):
                ctx.violation('C12.D4', 'hszinc/%s.py::import' % modname, norm(n), 'evaluating a filter imports a module',
                              'import statement inside a function of the filter path', file='hszinc/%s.py' % modname,
                              line=n.lineno, engine='E7')
    ctx.count('calls scanned on the filter path', n_calls)
    # Grid.filter does not mutate the grid
    try:
        ff = m.func('grid', 'Grid.filter')
    except AnalysisError as e:
        ctx.error('C12.D4', str(e))
        return
    s = ff.args.args[0].arg
    writes = []
    for n in walk_no_nested(ff):
        if isinstance(n, (ast.Assign, ast.AugAssign, ast.Delete)):
            targets = n.targets if isinstance(n, (ast.Assign, ast.Delete)) else [n.target]
            for t in targets:
                base = t
                while isinstance(base, (ast.Attribute, ast.Subscript)):
                    base = base.value
                if isinstance(base, ast.Name) and base.id == s and not isinstance(t, ast.Name):
                    writes.append(n)
        if isinstance(n, ast.Call) and isinstance(n.func, ast.Attribute) and isinstance(n.func.value, ast.Name) \
                and n.func.value.id == s and n.func.attr in ('append', 'insert', 'extend', 'pop', 'remove', 'clear',
                                                              'reverse', 'sort', '__setitem__', '__delitem__'):
            writes.append(n)
        if isinstance(n, ast.Call) and isinstance(n.func, ast.Attribute) and norm(n.func.value).startswith('%s.' % s) \
                and n.func.attr in ('append', 'insert', 'extend', 'pop', 'remove', 'clear', 'update', 'add_item',
                                    'reverse', 'sort', 'setdefault'):
            writes.append(n)
    if writes:
        ctx.violation('C12.D4', 'hszinc/grid.py::Grid.filter', norm(writes[0]), 'grid.filter(...) changes the source grid',
                      'Grid.filter writes through self: %s' % norm(writes[0]), file='hszinc/grid.py',
                      line=writes[0].lineno, engine='E7')
    else:
        ctx.ob('C12.D4', 'Grid.filter stores nothing through self and calls no mutator on it', True,
               'hszinc/grid.py:%d' % ff.lineno)
