"""C14 -- Grid behaves as a list of row dicts under every sequence of operations."""
from . import _grid

META = {
    'level': 'other',
    'explanation': (
        'Static analysis of hszinc/grid.py::Grid.  Decides the per-method obligations whose conjunction gives, by '
        'induction over operations, that the grid tracks the list model: (D1) delegation conformance -- __len__, '
        'numeric __getitem__, __setitem__, __delitem__, insert act on self._row with the caller\'s own index and no '
        'transformation; slices build Grid(version, metadata, columns of self) around self._row[key]; extend reaches '
        'MutableSequence.extend; append/pop/remove/reverse/clear/+=/in/index/iter are the inherited mixins, i.e. '
        'defined by the five primitives; (D2) refuse-then-unchanged -- in insert and __setitem__ the TypeError for '
        'non-dict rows and the version validation precede the first write to _row/_index/_version; (D3) no internal '
        'failure -- no primitive dereferences the lazily built id index where it may still be None (after '
        'construction or slicing).  Overridden read-only mixins (__contains__, index, count, __iter__) must be the list operation on _row; answering from the id index is a violation (one row per id).  Not decided: lock-step comparison with a list as an execution.'
        ' Also (D1): a Grid.pop override is the mixin spelled out (read at index, delete at index); removal by value is a violation.'
        ' Also (D1): explicit index range tests in the primitives equal the list rule -len <= i < len (decision table).'
        ' Also (D1): the store of __setitem__ is not conditional on comparing the old row with the new one; mapping overrides of the ordered maps (slice headers).'
        ' Round 9: (D1) an override answered from the id index is recognised through local variables.'),
    'rule_text': 'obligations = 5 primitives + slice/number/else branches + mixin table + 2 refusal orders + one '
                 'nullness obligation per Grid method that touches _index',
    'trusted_base': ['collections.abc.MutableSequence mixin methods reduce to the five primitives '
                     '(CPython _collections_abc.py)'],
}


def run(ctx):
    meths = _grid.grid_methods(ctx)
    _grid.delegation(ctx, meths, 'C14.D1')
    _grid.index_guards(ctx, meths, 'C14.D1')
    _grid.setitem_unconditional(ctx, meths, 'C14.D1')
    # a slice carries the parent's metadata and columns IN THEIR ORDER: Grid(...) rebuilds them through items() of the
    # ordered maps (clause shared with C16.D5)
    from . import c16
    c16.mapping_overrides(ctx, ctx.model, rule='C14.D1')
    _grid.refuse_before_write(ctx, meths, 'C14.D2')
    _grid.nullness(ctx, meths, 'C14.D3')
