"""C09 -- malformed ZINC raises ZincParseException: never mis-parsed, never a crash."""
from __future__ import annotations

import ast

from .. import exceptions as X
from .. import lang as L
from .. import ppgrammar as G
from .. import spec as S
from ..lang import Unsupported
from ..model import AnalysisError, body_wo_doc, norm, walk_no_nested
from . import _zinc

META = {
    'level': 'other',
    'explanation': (
        'Static analysis of the parse wrappers and of the extracted grammar.  (D1) wrapper structure of '
        'zincparser.parse_grid: the whole body sits in one try, the handlers cover ParseException and everything else, '
        'each handler ends in `raise ZincParseException(...)`, parseAll is the constant True for every caller, '
        'ZincParseException derives from ValueError.  (D2) handler totality: expressions evaluated inside the handlers '
        '(the arguments of the ZincParseException call, reformat_exception, the exception\'s __init__) only call '
        'functions that cannot raise per spec/may_raise.json -- I/O such as print is not one of them; '
        'ZincParseException.__init__ keeps its decoration inside its own catch-all.  (D3) scalar parsing raises only '
        'ValueError-family exceptions: every tabled may-raise entry of every parse action reachable from the scalar '
        'alternations (and of XStr.__init__) is a ValueError subclass or caught locally; the token regexes guarantee the '
        'preconditions of _unescape (no dangling backslash, four hex digits).  (D4) rejection envelopes, '
        'impl ⊆ envelope on the regular abstraction (sound: the abstraction over-approximates the reader), witnesses '
        're-validated under pyparsing\'s commitment semantics: tag names, strings/URIs (unterminated or illegally escaped '
        'text cannot be accepted), lists/dicts/nested grids inside their brackets, no 3.0-only alternative in the 2.0 '
        'alternation, anchored version regex.  (D5) every piece of a multi-grid document is parsed on every returning path of parser.parse (path enumeration; `single` only selects from the parsed list).  (D6) no regex applied to the text on the ZINC path has a repeat with an iteration-ambiguous body (exponential backtracking).  Also (D4): version.VERSION_RE accepts only texts starting with a digit; (D3) no grammar element reachable from the scalar alternations uses pyparsing\'s error stop (`-`) unless parse_scalar converts ParseFatalException.  Not decided: termination of the grammar recursion; that line/col lie within the text.'
        ' Also (D3): iso8601.parse_date is not told default_timezone=None (the naive-stamp branch of _parse_datetime calls a method pytz does not have).  (D4) Grid.__init__ hands every version other than None to Version() -- decision table of the guard over None, the empty text, 2.0 -- the only check a nested grid header gets.'
        ' Also (D4): IGNORECASE regexes are modelled (case closure), so an escape alternative widened by a flag is seen by the envelope.'
        ' Also (D3): an escape look-up table covers every escape character the token regexes allow.  (D4) reference names stay inside the Haystack reference alphabet.'
        ' Round 9: (D5) next(iter(map(parse, pieces)), None) is the first-piece-only form: later pieces are never parsed.'),
    'rule_text': 'obligations = wrapper facts, calls inside handlers x may-raise table, parse actions x may-raise table, '
                 'envelopes',
    'trusted_base': ['spec/may_raise.json (library exception facts); logging calls do not raise'],
}

FP = 'hszinc/zincparser.py'
ANYSYM = ((0, L.SYM_BASE + 0xFFF),)


def run(ctx):
    _wrapper(ctx)
    _handlers(ctx)
    # C09 quantifies over every input text, year 0001/9999 stamps included: there astimezone() overflows
    X.OVERLAY = {'methods': {'astimezone': ['OverflowError']}}
    try:
        _actions(ctx)
    finally:
        X.OVERLAY = {}
    _envelopes(ctx)
    _every_piece(ctx)
    _framing_total(ctx)
    # 3.0-only constructs under a nested ver:"2.0" header are refused by the row validation of the Grid the reader fills
    from . import _grid
    _grid.extend_own(ctx, _grid.grid_methods(ctx), 'C09.D4', want=('validate',))
    _regex_termination(ctx)
    _error_stops(ctx)
    _naive_stamps(ctx)
    _nested_version(ctx)
    # reference names stay inside the Haystack reference alphabet (ASCII letters and digits, _ : - . ~)
    from . import c12
    c12._ref_token(ctx, G.grammar_of(ctx.model, 'zincparser'), rule='C09.D4', F=FP, where_='zinc')


def _nested_version(ctx):
    """(D4) the header of a NESTED grid (`<<ver:"..." ...>>`) is not sniffed by VERSION_RE: its text reaches
    Grid(version=<text>) as it is, and the only thing that rejects a malformed one is Version(<text>) in
    Grid.__init__.  So every version other than None must be handed to Version() -- the empty text included."""
    from .. import minieval
    from .c17 import _guards
    m = ctx.model
    FG = 'hszinc/grid.py'
    try:
        init = m.func('grid', 'Grid.__init__', 'nested')
    except AnalysisError as e:
        ctx.error('C09.D4', str(e))
        return
    a = [x.arg for x in init.args.args]
    if len(a) < 2:
        ctx.error('C09.D4', 'Grid.__init__ signature changed')
        return
    vp = a[1]
    convs = [st for st in ast.walk(init) if isinstance(st, ast.Assign) and isinstance(st.value, ast.Call)
             and norm(st.value.func) == 'Version' and len(st.value.args) == 1 and norm(st.value.args[0]) == vp]
    if len(convs) != 1:
        ctx.error('C09.D4', 'Grid.__init__: %d conversions Version(%s); cannot decide' % (len(convs), vp))
        return
    conv = convs[0]
    # single-assignment flags set before the conversion from the parameter alone
    flags = {}
    for st in body_wo_doc(init):
        if st is conv:
            break
        if isinstance(st, ast.Assign) and len(st.targets) == 1 and isinstance(st.targets[0], ast.Name):
            flags[st.targets[0].id] = st.value
    reached = {}
    try:
        for v in (None, '', '2.0'):
            env = {vp: v}
            for name, e in flags.items():
                try:
                    env[name] = minieval.ev(e, env)
                except minieval.Undecided:
                    pass
            ok = True
            for t, pol in _guards(init, conv):
                if bool(minieval.ev(t, env)) != pol:
                    ok = False
            reached[v] = ok
    except minieval.Undecided as e:
        ctx.error('C09.D4', 'Grid.__init__: guard of Version(%s) not decidable (%s)' % (vp, e))
        return
    where = '%s:%d' % (FG, conv.lineno)
    if reached[''] and reached['2.0']:
        ctx.ob('C09.D4', 'Grid.__init__ hands every version other than None to Version() (decision table over None, \'\', \'2.0\'): '
                         'a nested header with a malformed version is rejected there', True, where)
    else:
        lost = '' if not reached[''] else '2.0'
        ctx.violation('C09.D4', '%s::Grid.__init__' % FG, '; '.join(norm(t) for t, _ in _guards(init, conv)) or norm(conv),
                      'parse(\'ver:"3.0"\\nsub\\n<<ver:"%s"\\nval\\n1\\n>>\\n\'): the nested header\'s version text %r never reaches '
                      'Version(), the nested grid is built as an unversioned 2.0 grid and the document is accepted' % (lost, lost),
                      'Grid.__init__ calls Version(%s) only when its guard is true, and the guard is false for %r -- the only '
                      'check a nested version header gets' % (vp, lost), file=FG, line=conv.lineno, engine='E7')


PYTZ_API = {'localize', 'normalize', 'utcoffset', 'dst', 'tzname', 'fromutc', 'zone'}


def _naive_stamps(ctx):
    """(D3) iso8601.parse_date gives an AWARE stamp (its default zone is UTC) unless it is told default_timezone=None.
    _parse_datetime has a branch for naive stamps; what it calls on the zone object must exist in pytz, or the
    AttributeError leaves parse_scalar.  With aware stamps only, that branch is dead and says nothing."""
    m = ctx.model
    mod = m.mod('zincparser')
    calls = [c for c in ast.walk(mod.tree) if isinstance(c, ast.Call) and norm(c.func) in ('iso8601.parse_date', 'parse_date')]
    ctx.count('iso8601.parse_date calls in zincparser', len(calls))
    naive = [c for c in calls if any(k.arg == 'default_timezone' and norm(k.value) == 'None' for k in c.keywords)
             or (len(c.args) > 1 and norm(c.args[1]) == 'None')]
    other = [c for c in calls if c not in naive and (any(k.arg == 'default_timezone' for k in c.keywords) or len(c.args) > 1)]
    for c in other:
        ctx.error('C09.D3', 'iso8601.parse_date called with a default zone `%s`; cannot decide' % norm(c)[:60])
    if not naive:
        ctx.ob('C09.D3', 'every iso8601.parse_date call leaves the default zone alone: parsed stamps are aware, the naive-stamp '
                         'branch of _parse_datetime is never taken', True, FP)
        return
    try:
        fn = m.func('zincparser', '_parse_datetime', 'nested')
    except AnalysisError as e:
        ctx.error('C09.D3', str(e))
        return
    bad = []
    for c in ast.walk(fn):
        if isinstance(c, ast.Call) and isinstance(c.func, ast.Attribute) and isinstance(c.func.value, ast.Call) \
                and norm(c.func.value.func) == 'timezone' and c.func.attr not in PYTZ_API:
            bad.append(c)
    if bad:
        c = bad[0]
        ctx.violation('C09.D3', '%s::_parse_datetime' % FP, norm(c),
                      "parse_scalar('2020-01-01T00:00:00 UTC') (a stamp without offset but with a zone name): the stamp is "
                      'parsed naive (default_timezone=None), the naive branch calls %s on a pytz zone, which has no such method '
                      '-- AttributeError leaves parse_scalar' % c.func.attr,
                      'iso8601.parse_date(..., default_timezone=None) makes the naive-stamp branch live; it calls `.%s`, not part '
                      'of the pytz zone API (%s)' % (c.func.attr, ', '.join(sorted(PYTZ_API))), file=FP, line=c.lineno, engine='E9')
    else:
        ctx.ob('C09.D3', 'naive stamps are possible; the naive branch only uses the pytz zone API', True, FP)


def _error_stops(ctx):
    """(D3) pyparsing's `-` operator (And with an error stop) turns a failure after its left operand into
    ParseSyntaxException, a ParseFatalException that is NOT a ParseException.  parse_scalar converts ParseException
    only; a grammar element built with `-` that is reachable from the scalar alternations lets another exception
    type out of parse_scalar."""
    m = ctx.model
    try:
        g = G.grammar_of(m, 'zincparser')
        ps = m.func('zincparser', 'parse_scalar')
    except (AnalysisError, Unsupported) as e:
        ctx.error('C09.D3', str(e))
        return
    handled = set()
    for tr in [x for x in ast.walk(ps) if isinstance(x, ast.Try)]:
        for h in tr.handlers:
            last = h.body[-1] if h.body else None
            converts = isinstance(last, ast.Raise) and last.exc is not None and 'ZincParseException' in norm(last.exc)
            if converts:
                handled.add(norm(h.type).split('.')[-1] if h.type is not None else '*')
    covers_fatal = bool(handled & {'*', 'Exception', 'BaseException', 'ParseBaseException', 'ParseFatalException',
                                   'ParseSyntaxException'})
    n = 0
    seen = set()
    for ver in ('2.0', '3.0'):
        try:
            root = g.get('hs_scalar_%s' % ver.replace('.', '_'))
        except AnalysisError as e:
            ctx.error('C09.D3', str(e))
            continue
        for node in G.walk(root):
            if node.id in seen:
                continue
            seen.add(node.id)
            n += 1
            if node.data.get('error_stop') and not covers_fatal:
                ctx.violation('C09.D3', '%s::%s' % (FP, node.label()), 'And with error stop (operator -)',
                              "parse_scalar('<<', version='3.0') (a nested grid that is opened and then cut off): the element "
                              "`%s` is built with pyparsing's `-`, so the failure is a ParseSyntaxException; parse_scalar "
                              "converts only %s and the exception escapes -- it is not a ValueError"
                              % (node.label(), sorted(handled) or 'nothing'),
                              'a grammar element reachable from the scalar alternation uses an error stop, but parse_scalar does '
                              'not convert ParseFatalException', file=FP, line=node.lineno, engine='E8')
                return
    ctx.ob('C09.D3', 'no element reachable from the scalar alternations uses an error stop (`-`)%s (%d nodes)'
           % (' / parse_scalar converts fatal parse errors too' if covers_fatal else '', n), True, FP)


def _framing_total(ctx):
    """(D1) parser.parse itself (decode, framing) sits outside the try of zincparser.parse_grid, so it must not raise on
    any text: indexing the text with a constant position (`text[0]`) fails with IndexError on the empty document unless
    the same test first establishes that the text is not empty."""
    m = ctx.model
    try:
        fn = m.func('parser', 'parse')
    except AnalysisError as e:
        ctx.error('C09.D1', str(e))
        return
    tparam = fn.args.args[0].arg
    text_vars = {tparam}
    for a in ast.walk(fn):
        if isinstance(a, ast.Assign) and len(a.targets) == 1 and isinstance(a.targets[0], ast.Name) \
                and any(isinstance(x, ast.Name) and x.id in text_vars for x in ast.walk(a.value)) \
                and isinstance(a.value, (ast.Call, ast.Name, ast.BinOp, ast.Subscript)) \
                and not (isinstance(a.value, ast.Call) and norm(a.value.func) in ('json.loads',)) \
                and not isinstance(a.value, (ast.ListComp, ast.List)):
            if not (isinstance(a.value, ast.Call) and norm(a.value.func).endswith('.split')):
                text_vars.add(a.targets[0].id)
    bad = None
    n = 0
    for sub in ast.walk(fn):
        if isinstance(sub, ast.Subscript) and isinstance(sub.value, ast.Name) and sub.value.id in text_vars \
                and isinstance(sub.ctx, ast.Load) and not isinstance(sub.slice, ast.Slice):
            n += 1
            v = sub.value.id
            guarded = False
            p = getattr(sub, '_parent', None)
            child = sub
            while p is not None and p is not fn:
                if isinstance(p, ast.BoolOp) and isinstance(p.op, ast.And):
                    idx = p.values.index(child) if child in p.values else len(p.values)
                    if any(norm(x) in (v, 'len(%s)' % v, 'len(%s) > 0' % v, '%s != \'\'' % v) for x in p.values[:idx]):
                        guarded = True
                if isinstance(p, ast.If) and child in p.body and any(
                        t in norm(p.test) for t in (v + ' and', 'len(%s)' % v)) or (isinstance(p, ast.If) and norm(p.test) == v and child in p.body):
                    guarded = True
                child = p
                p = getattr(p, '_parent', None)
            if not guarded:
                bad = sub
    if bad is not None:
        ctx.violation('C09.D1', 'hszinc/parser.py::parse', norm(bad),
                      "hszinc.parse('') (and parse(b'')): `%s` is evaluated on the empty text outside any try block and raises "
                      "IndexError -- neither a grid list nor a ZincParseException" % norm(bad),
                      'parse() indexes the document text at a fixed position without first checking that it is not empty',
                      file='hszinc/parser.py', line=bad.lineno, engine='E8')
    else:
        ctx.ob('C09.D1', 'parse() never indexes the document text at a fixed position unguarded (%d subscripts)' % n, True,
               'hszinc/parser.py:%d' % fn.lineno)


def _regex_termination(ctx):
    """(D6) the regular expressions applied to the input text on the ZINC path have no repeat whose body is ambiguous
    under iteration (a string that is one iteration and also several): on the backtracking `re` engine such a
    repeat costs 2^N steps on N repetitions whenever what follows fails to match.  Necessary for "parsing
    terminates" in any practical sense; loops and recursion of the grammar itself are not decided."""
    m = ctx.model
    n = 0
    for modname in ('parser', 'zincparser'):
        F = 'hszinc/%s.py' % modname
        for node in ast.walk(m.mod(modname).tree):
            if not (isinstance(node, ast.Call) and norm(node.func) in ('re.compile', 'Regex', 'pp.Regex') and node.args):
                continue
            pat = m.fold(modname, node.args[0])
            if not isinstance(pat, str):
                continue
            flags = 0
            if len(node.args) > 1 or node.keywords:
                fl = m.fold(modname, node.args[1] if len(node.args) > 1 else node.keywords[0].value)
                flags = fl if isinstance(fl, int) else 0
            n += 1
            try:
                amb = L.ambiguous_repeats(pat, flags)
            except Exception as e:     # regex the model cannot read: not decided for this one
                ctx.note('regex %r at %s:%d not analysed for ambiguity (%s)' % (pat[:40], F, node.lineno, e))
                continue
            if amb:
                x, w = amb[0]
                wtxt = ''.join(chr(c) for c in w)
                ctx.violation('C09.D6', '%s::%r' % (F, pat), pat,
                              'a text containing %r repeated 40 times and then a character at which the rest of the pattern '
                              'fails (for a `$`-anchored pattern: the run is not at the very end of the text): the run can be '
                              'split into iterations of the repeat in 2^40 ways and the `re` engine tries them all -- parse() '
                              'does not return' % wtxt,
                              'the regex %r has an unbounded repeat whose body matches %r both as one iteration and as several '
                              '(exponential backtracking)' % (pat, wtxt), file=F, line=node.lineno, engine='E3')
            else:
                ctx.ob('C09.D6', 'regex %r: no repeat with an iteration-ambiguous body' % pat[:50], True, '%s:%d' % (F, node.lineno))
    ctx.count('regexes analysed for iteration ambiguity', n)
    ctx.floor('regexes analysed for iteration ambiguity', n, 20)


def _every_piece(ctx):
    """(D5) every blank-line-separated piece of the document goes through the grid grammar before a grid is
    returned: a malformed later block cannot hide behind a well-formed first one."""
    from . import _parse
    try:
        r = _parse.result_shaping(ctx.model)
    except (AnalysisError, Unsupported) as e:
        ctx.error('C09.D5', str(e))
        return
    ctx.count('returning paths of parser.parse', r['n_paths'])
    FR = _parse.FR
    for key, label in (('single_nonempty', 'single=True'), ('multi', 'single=False')):
        forms = r[key]
        skipped = forms & {'FIRST1'}
        if skipped:
            node = r['nodes'][(key, 'FIRST1')]
            ctx.violation('C09.D5', '%s::parse' % FR, norm(node),
                          'the text \'ver:"3.0"\\nid\\n1\\n\\n2\\n"unterminated\\n\' (a well-formed grid, a blank line, then a '
                          'block without version header): parse() returns the first grid instead of raising ZincParseException',
                          'with %s only the first piece of the document is handed to the grid parser; later pieces are '
                          'never checked' % label, file=FR, line=node.lineno, engine='E6')
        elif forms <= {'FIRST', 'ALL'} and forms:
            ctx.ob('C09.D5', '%s: every piece of the document is parsed before anything is returned (%s)'
                   % (label, '/'.join(sorted(forms))), True, '%s:%d' % (FR, list(r['nodes'].values())[0].lineno))
        else:
            ctx.error('C09.D5', 'parse(): %s returns %s; cannot decide' % (label, sorted(forms)))


def _wrapper(ctx):
    m = ctx.model
    try:
        pg = m.func('zincparser', 'parse_grid')
        exc = m.cls('zincparser', 'ZincParseException')
    except AnalysisError as e:
        ctx.error('C09.D1', str(e))
        return
    where = '%s:%d' % (FP, pg.lineno)
    bases = [norm(b) for b in exc.bases]
    if bases == ['ValueError']:
        ctx.ob('C09.D1', 'ZincParseException is a ValueError', True, '%s:%d' % (FP, exc.lineno))
    else:
        ctx.violation('C09.D1', '%s::ZincParseException' % FP, 'class ZincParseException(%s)' % ', '.join(bases),
                      '`except ValueError` no longer catches a parse failure', 'ZincParseException does not derive from '
                      'ValueError', file=FP, line=exc.lineno, engine='E9')
    body = body_wo_doc(pg)
    if len(body) == 1 and isinstance(body[0], ast.Try):
        ctx.ob('C09.D1', 'the whole body of parse_grid is inside one try', True, where)
    else:
        outside = [norm(x).split('\n')[0] for x in body if not isinstance(x, ast.Try)]
        ctx.violation('C09.D1', '%s::parse_grid' % FP, '; '.join(outside)[:200],
                      'an exception raised by `%s` leaves parse_grid unconverted' % (outside[0] if outside else '?'),
                      'statements of parse_grid lie outside the try that converts exceptions', file=FP, line=pg.lineno,
                      engine='E6')
        return
    tr = body[0]
    kinds = [(norm(h.type) if h.type is not None else None) for h in tr.handlers]
    if None in kinds or 'Exception' in kinds or 'BaseException' in kinds:
        ctx.ob('C09.D1', 'a catch-all handler follows the ParseException handler', True, where)
    else:
        ctx.violation('C09.D1', '%s::parse_grid' % FP, 'handlers %s' % kinds,
                      'a ValueError/KeyError/IndexError raised by a parse action or by Grid() while parsing a malformed '
                      'document escapes as that exception instead of ZincParseException',
                      'parse_grid has no catch-all handler (handlers: %s)' % kinds, file=FP, line=tr.lineno, engine='E8')
    for h in tr.handlers:
        last = h.body[-1] if h.body else None
        ok = isinstance(last, ast.Raise) and last.exc is not None and norm(
            last.exc.func if isinstance(last.exc, ast.Call) else last.exc) == 'ZincParseException'
        hn = norm(h.type) if h.type is not None else 'everything'
        if ok:
            ctx.ob('C09.D1', 'the handler for %s ends in raise ZincParseException(...)' % hn, True, '%s:%d' % (FP, h.lineno))
        else:
            ctx.violation('C09.D1', '%s::parse_grid' % FP, norm(last) if last is not None else 'empty handler',
                          'a malformed document makes parse() %s' % ('return None' if not isinstance(last, ast.Raise)
                                                                     else 'raise %s' % norm(last.exc)),
                          'the handler for %s does not end in raise ZincParseException' % hn, file=FP, line=h.lineno,
                          engine='E8')
    # parseAll
    calls = [n for n in ast.walk(pg) if isinstance(n, ast.Call) and isinstance(n.func, ast.Attribute)
             and n.func.attr in ('parseString', 'parse_string')]
    a = [x.arg for x in pg.args.args]
    d = [norm(x) for x in pg.args.defaults]
    if len(calls) == 1:
        kw = {k.arg: norm(k.value) for k in calls[0].keywords}
        pa = kw.get('parseAll', kw.get('parse_all'))
        default_ok = pa == 'True' or (pa in a and d and d[len(d) - (len(a) - a.index(pa))] == 'True')
        if default_ok:
            ctx.ob('C09.D1', 'the grammar must consume the whole text (parseAll=True by default)', True, where)
        else:
            ctx.violation('C09.D1', '%s::parse_grid' % FP, norm(calls[0]),
                          'a grid followed by garbage (ver:"3.0"\\na\\n1\\n)))) parses: the tail is ignored',
                          'parseString is not called with parseAll=True', file=FP, line=calls[0].lineno, engine='E9')
    else:
        ctx.error('C09.D1', 'parse_grid: parseString call not found')
    # callers pass no other parseAll
    for modname in ('parser',):
        for n in ast.walk(m.mod(modname).tree):
            if isinstance(n, ast.Call) and norm(n.func) in ('parse_zinc_grid', 'zincparser.parse_grid'):
                extra = [k.arg for k in n.keywords if k.arg in ('parseAll',)] or (n.args[1:] and ['positional'])
                if extra:
                    ctx.violation('C09.D1', 'hszinc/parser.py::parse_grid', norm(n), 'callers can switch off the end-of-text '
                                  'requirement', 'a caller passes parseAll', file='hszinc/parser.py', line=n.lineno, engine='E9')
                else:
                    ctx.ob('C09.D1', 'parser.parse_grid calls the ZINC grid parser with the default parseAll', True,
                           'hszinc/parser.py:%d' % n.lineno)
    # scalar wrapper: ParseException converted, others re-raised
    try:
        ps = m.func('zincparser', 'parse_scalar')
        trs = [x for x in body_wo_doc(ps) if isinstance(x, ast.Try)]
        ok = False
        if len(trs) == 1:
            hk = [(norm(h.type) if h.type is not None else None) for h in trs[0].handlers]
            if hk and hk[0] in ('pp.ParseException', 'ParseException'):
                last = trs[0].handlers[0].body[-1]
                ok = isinstance(last, ast.Raise) and 'ZincParseException' in norm(last)
        if ok:
            ctx.ob('C09.D1', 'parse_scalar converts ParseException into ZincParseException', True, '%s:%d' % (FP, ps.lineno))
        else:
            ctx.violation('C09.D1', '%s::parse_scalar' % FP, norm(ps)[:200], 'parse_scalar("@@") raises pyparsing\'s '
                          'ParseException (not a ValueError)', 'parse_scalar does not convert ParseException', file=FP,
                          line=ps.lineno, engine='E8')
        calls = [n for n in ast.walk(ps) if isinstance(n, ast.Call) and isinstance(n.func, ast.Attribute)
                 and n.func.attr in ('parseString', 'parse_string')]
        if calls and {k.arg: norm(k.value) for k in calls[0].keywords}.get('parseAll') == 'True':
            ctx.ob('C09.D1', 'parse_scalar demands the whole text (parseAll=True)', True, '%s:%d' % (FP, ps.lineno))
        else:
            ctx.violation('C09.D1', '%s::parse_scalar' % FP, norm(calls[0]) if calls else '', 'parse_scalar("1 garbage") '
                          'returns 1.0', 'parse_scalar does not pass parseAll=True', file=FP, line=ps.lineno, engine='E9')
    except AnalysisError as e:
        ctx.error('C09.D1', str(e))
    # version sniffing
    sniff = [x for x in ast.walk(tr) if isinstance(x, ast.Assign) and len(x.targets) == 1 and isinstance(x.targets[0], ast.Name)
             and norm(x.value).startswith('VERSION_RE.match(')]
    guard = [x for x in ast.walk(tr) if isinstance(x, ast.If) and sniff
             and norm(x.test) in ('%s is None' % sniff[0].targets[0].id, 'not %s' % sniff[0].targets[0].id)
             and x.body and isinstance(x.body[0], ast.Raise)]
    if sniff and guard:
        ctx.ob('C09.D1', 'a text without a version header is refused inside the try', True, where)
    else:
        ctx.error('C09.D1', 'version sniffing statements not recognised')


def _handlers(ctx):
    m = ctx.model
    pg = m.func('zincparser', 'parse_grid')
    body = body_wo_doc(pg)
    if not (len(body) == 1 and isinstance(body[0], ast.Try)):
        return
    n_calls = 0
    roots = []
    for h in body[0].handlers:
        roots.append(('handler of parse_grid (%s)' % (norm(h.type) if h.type is not None else 'catch-all'), h))
    try:
        ps = m.func('zincparser', 'parse_scalar')
        for tr in [x for x in body_wo_doc(ps) if isinstance(x, ast.Try)]:
            if tr.handlers:
                roots.append(('ParseException handler of parse_scalar', tr.handlers[0]))
        roots.append(('reformat_exception', m.func('zincparser', 'reformat_exception')))
    except AnalysisError as e:
        ctx.error('C09.D2', str(e))
    for label, root in roots:
        for n in ast.walk(root):
            if isinstance(n, ast.Call):
                n_calls += 1
                r = X.call_raises(n)
                if r is None:
                    ctx.note('untabled callee in %s: %s' % (label, norm(n.func)))
                    continue
                prot = X.protected(n, root)
                esc = [e for e in r if not any(h in ('BaseException', 'Exception') or X.is_subclass(e, h) for h in prot)]
                if isinstance(root, ast.ExceptHandler) and norm(n.func) == 'ZincParseException':
                    esc = []
                if esc:
                    ctx.violation('C09.D2', '%s::%s' % (FP, label.split(' ')[0] if label.startswith('reformat') else 'parse_grid'),
                                  norm(n),
                                  'with stdout closed (daemon, broken pipe) or a lone surrogate in the message, `%s` raises '
                                  '%s inside the exception handler: a malformed document surfaces as that exception, not as '
                                  'ZincParseException' % (norm(n)[:60], '/'.join(esc)),
                                  '%s calls %s, which may raise %s; code that runs while converting an exception must be '
                                  'total' % (label, norm(n.func), ', '.join(esc)), file=FP, line=n.lineno, engine='E8')
                else:
                    ctx.ob('C09.D2', '%s: %s cannot raise' % (label, norm(n.func)), True, '%s:%d' % (FP, n.lineno))
    ctx.count('calls inside exception handlers', n_calls)
    ctx.floor('calls inside exception handlers', n_calls, 5)
    # ZincParseException.__init__: decoration inside its own catch-all
    try:
        init = m.func('zincparser', 'ZincParseException.__init__')
        b = body_wo_doc(init)
        trs = [x for x in b if isinstance(x, ast.Try)]
        outside = [x for x in b if not isinstance(x, ast.Try)]
        simple = all(isinstance(x, ast.Assign) or (isinstance(x, ast.Expr) and 'super(' in norm(x)) for x in outside)
        catch_all = trs and any(h.type is None or norm(h.type) in ('Exception', 'BaseException') for h in trs[0].handlers)
        if len(trs) == 1 and catch_all and simple:
            ctx.ob('C09.D2', 'ZincParseException.__init__ decorates the message inside its own catch-all', True,
                   '%s:%d' % (FP, init.lineno))
        else:
            ctx.violation('C09.D2', '%s::ZincParseException.__init__' % FP, '; '.join(norm(x).split('\n')[0] for x in outside)[:200],
                          'building the error message for an odd text (line 0, empty text...) raises inside the exception '
                          'constructor: the caller sees IndexError/ValueError instead of ZincParseException',
                          'message decoration of ZincParseException is not protected by a catch-all', file=FP,
                          line=init.lineno, engine='E8')
    except AnalysisError as e:
        ctx.error('C09.D2', str(e))


def _actions(ctx):
    m = ctx.model
    g = G.grammar_of(m, 'zincparser')
    seen = set()
    n_actions = 0
    unknown = set()
    for ver in ('2.0', '3.0'):
        try:
            root = g.get('hs_scalar_%s' % ver.replace('.', '_'))
        except AnalysisError as e:
            ctx.error('C09.D3', str(e))
            continue
        for node in G.walk(root):
            a = node.action
            if a is None or isinstance(a, G.Opaque) or id(a.node) in seen:
                continue
            if isinstance(a, G.FuncRef) and a.name == '_gen_grid':
                continue
            seen.add(id(a.node))
            n_actions += 1
            bad, unk, nc = X.escaping(a.node)
            unknown |= set(unk)
            if bad:
                call, exc = bad[0]
                wit = ('a scalar that matches %s but makes `%s` fail raises %s out of parse_scalar: not a ValueError'
                       % (node.label(), norm(call)[:60], exc))
                if exc == 'OverflowError':
                    wit = ('parse_scalar("9999-12-31T23:59:59Z Sydney"): converting a stamp at the edge of the datetime '
                           'range into the named zone overflows; `%s` is not protected, so OverflowError (not a '
                           'ValueError) escapes' % norm(call)[:60])
                ctx.violation('C09.D3', '%s::%s' % (FP, node.label()), norm(call), wit,
                              'the parse action of %s may raise %s (not a ValueError subclass, not caught locally)'
                              % (node.label(), exc), file=FP, line=getattr(call, 'lineno', node.lineno), engine='E8')
            else:
                ctx.ob('C09.D3', 'parse action of %s raises only ValueError-family exceptions' % node.label(), True,
                       '%s:%s' % (FP, node.lineno))
    ctx.count('parse actions analysed', n_actions)
    ctx.floor('parse actions analysed', n_actions, 15)
    if unknown:
        ctx.note('untabled callees in parse actions (not judged): %s' % sorted(unknown))
    # XStr.__init__
    try:
        xi = m.func('datatypes', 'XStr.__init__')
        bad, unk, nc = X.escaping(xi)
        if bad:
            ctx.violation('C09.D3', 'hszinc/datatypes.py::XStr.__init__', norm(bad[0][0]),
                          'hex("zz") raises %s' % bad[0][1], 'XStr.__init__ may raise %s' % bad[0][1],
                          file='hszinc/datatypes.py', line=bad[0][0].lineno, engine='E8')
        else:
            ctx.ob('C09.D3', 'XStr.__init__ (hex/b64 decoding) raises only ValueError-family exceptions', True,
                   'hszinc/datatypes.py:%d' % xi.lineno)
    except AnalysisError as e:
        ctx.error('C09.D3', str(e))
    # preconditions of _unescape guaranteed by the token regexes
    try:
        for which in ('str', 'uri'):
            el = g.get('hs_%sChar' % which)
            rx = G.ToRx().rx(el)
            hexd = L.rset(L.iv((48, 57), (65, 70), (97, 102)))
            nb = L.rset(L.iv_compl(L.iv_chars('\\')))
            well = L.ralt(nb, L.rcat(L.rlit('\\'), L.rset(L.iv_chars('uU')), hexd, hexd, hexd, hexd),
                          L.rcat(L.rlit('\\'), L.rset(L.iv_compl(L.iv_chars('uU')))))
            w = L.find_not_included(L.rstar(rx), L.rstar(well))
            if w:
                ctx.violation('C09.D3', '%s::hs_%sChar' % (FP, which), el.data.get('pattern', ''),
                              'the text %r is accepted by the token regex but makes _unescape raise IndexError/ValueError '
                              '(dangling backslash or bad \\u digits): not a ZincParseException for scalars'
                              % _zinc.show(w[0]),
                              'hs_%sChar admits text outside the domain of _unescape' % which, file=FP, line=el.lineno,
                              engine='E3')
            else:
                ctx.ob('C09.D3', 'every text hs_%sChar* accepts is in the domain of _unescape (no dangling backslash, '
                                 '\\u followed by four hex digits)' % which, True, '%s:%s' % (FP, el.lineno))
    except (Unsupported, AnalysisError) as e:
        ctx.error('C09.D3', str(e))
    # a look-up table indexed by the escape character: every character the token regexes allow after a backslash
    # must be one of its keys (the URI token allows more escapes than the string token), or KeyError leaves parse_scalar
    try:
        ue = m.func('zincparser', '_unescape')
        escvars = {t.id for a in ast.walk(ue) if isinstance(a, ast.Assign) and isinstance(a.value, ast.Subscript)
                   and norm(a.value.slice) == '1' for t in a.targets if isinstance(t, ast.Name)}
        tables = []
        for sub in ast.walk(ue):
            if isinstance(sub, ast.Subscript) and isinstance(sub.ctx, ast.Load) and isinstance(sub.value, ast.Name) \
                    and isinstance(sub.slice, ast.Name) and sub.slice.id in escvars:
                tab = m.fold('zincparser', sub.value)
                if isinstance(tab, dict):
                    guarded = False
                    p_ = getattr(sub, '_parent', None)
                    while p_ is not None and p_ is not ue:
                        if isinstance(p_, ast.Try) and any(h.type is None or 'KeyError' in norm(h.type) or 'Exception' in norm(h.type)
                                                           or 'LookupError' in norm(h.type) for h in p_.handlers):
                            guarded = True
                        if isinstance(p_, ast.If) and ('%s in %s' % (sub.slice.id, sub.value.id)) in norm(p_.test):
                            guarded = True
                        p_ = getattr(p_, '_parent', None)
                    tables.append((sub, tab, guarded))
        for sub, tab, guarded in tables:
            if guarded:
                ctx.ob('C09.D3', '_unescape: the look-up %s is guarded' % norm(sub), True, '%s:%d' % (FP, sub.lineno))
                continue
            for which in ('str', 'uri'):
                el = g.get('hs_%sChar' % which)
                rx = G.ToRx().rx(el)
                keys = L.iv_norm([(ord(k), ord(k)) for k in tab if isinstance(k, str) and len(k) == 1] + [(ord('u'), ord('u')), (ord('U'), ord('U'))])
                missing = L.find_common(rx, L.rcat(L.rlit('\\'), L.rset(L.iv_compl(keys)), L.rany_star()))
                if missing is not None:
                    ch = chr(missing[1]) if len(missing) > 1 else '?'
                    ctx.violation('C09.D3', '%s::_unescape' % FP, norm(sub),
                                  'parse_scalar of the %s literal containing the escape \\%s (which hs_%sChar accepts): `%s` has no entry '
                                  'for %r -- KeyError leaves parse_scalar, not a ValueError-family exception'
                                  % ('URI' if which == 'uri' else 'string', ch, which, norm(sub), ch),
                                  'the escape table %s lacks an escape character the %s token allows' % (sub.value.id, which),
                                  file=FP, line=sub.lineno, engine='E3')
                    break
            else:
                ctx.ob('C09.D3', '_unescape: every escape character the tokens allow is a key of %s' % sub.value.id, True,
                       '%s:%d' % (FP, sub.lineno))
    except (Unsupported, AnalysisError) as e:
        ctx.error('C09.D3', 'escape table look-up: %s' % e)


def _widen(rx):
    """`[\\x00-\\U0010ffff]` in an envelope means any symbol, nonterminals included"""
    k = rx[0]
    if k == 'set':
        if rx[1] == L.ANY_CP:
            return ('set', ANYSYM)
        return rx
    if k in ('cat', 'alt'):
        return (k, [_widen(x) for x in rx[1]])
    if k == 'star':
        return ('star', _widen(rx[1]))
    return rx


def _envelopes(ctx):
    m = ctx.model
    g = G.grammar_of(m, 'zincparser')
    nts = _zinc.nonterminals(g)
    peg = G.Peg()
    items = [('id', 'hs_id', None), ('str', 'hs_str', None), ('uri', 'hs_uri', None), ('ref', 'hs_ref', None),
             ('bin', 'hs_bin', None), ('xstr', 'hs_xstr', None), ('list', 'hs_list', '3.0'), ('dict', 'hs_dict', '3.0'),
             ('grid', 'hs_inner_grid', '3.0')]
    n = 0
    for env_name, el_name, ver in items:
        try:
            node = g.fam(el_name, ver) if ver else g.get(el_name)
            rx = G.ToRx(nts).rx(node)
            env = _widen(S.zinc('envelopes', env_name))
            ws = L.find_not_included(rx, env, max_witnesses=3)
        except (Unsupported, AnalysisError) as e:
            ctx.error('C09.D4', 'envelope %s: %s' % (env_name, e))
            continue
        n += 1
        real = None
        for w in ws:
            text = _zinc.concretise(w)
            end = peg.match(node, text, 0)
            if end == len(text):
                real = (w, text)
                break
        if real:
            what = {'list': 'a list', 'dict': 'a dict', 'grid': 'a nested grid', 'str': 'a string', 'uri': 'a URI',
                    'id': 'a tag name', 'ref': 'a reference', 'bin': 'a Bin', 'xstr': 'an extended string'}[env_name]
            ctx.violation('C09.D4', '%s::%s' % (FP, node.label()), 'L(%s) ⊆ envelope(%s)' % (el_name, env_name),
                          'the malformed text %r is accepted as %s (validated under pyparsing\'s matching discipline on the '
                          'extracted grammar): a document containing it yields a grid instead of ZincParseException'
                          % (real[1], what),
                          'the reader rule %s accepts text outside the envelope of %s (%s)' % (
                              el_name, what, S.load('zinc_spec.json')['envelopes'][env_name]), file=FP, line=node.lineno,
                          engine='E3')
        else:
            ctx.ob('C09.D4', 'everything %s accepts lies inside the envelope of %s%s' % (
                el_name, env_name, ' (%d abstraction-only witnesses discarded)' % len(ws) if ws else ''), True,
                '%s:%s' % (FP, node.lineno))
    ctx.floor('envelopes checked', n, 9)
    # 2.0 alternation has no 3.0-only alternative
    try:
        s2 = g.get('hs_scalar_2_0')
        kind, alts = G.alternatives(s2)
        bad = []
        for a in alts:
            ks = G.built_kinds(a)
            if ks & {'NA', 'list', 'dict', 'Grid', 'XStr'} or a.data.get('family') in ('hs_list', 'hs_dict', 'hs_inner_grid'):
                bad.append(a)
        if bad:
            ctx.violation('C09.D4', '%s::hs_scalar_2_0' % FP, bad[0].label(), 'a 3.0-only construct under ver:"2.0" is '
                          'accepted', 'the 2.0 alternation contains %s' % bad[0].label(), file=FP, line=bad[0].lineno, engine='E2')
        else:
            ctx.ob('C09.D4', 'the 2.0 scalar alternation has no 3.0-only alternative', True, '%s:%s' % (FP, s2.lineno))
    except AnalysisError as e:
        ctx.error('C09.D4', str(e))
    # VERSION_RE anchored
    try:
        vr = m.const('zincparser', 'VERSION_RE')
        pr = L.PyRegex(vr.pattern, vr.flags)
        env = L.rcat(L.rlit('ver:"'), L.rany_star())
        w = L.find_not_included(pr.match_lang(), env)
        if w:
            ctx.violation('C09.D4', '%s::VERSION_RE' % FP, vr.pattern, 'the text %r passes the version check'
                          % _zinc.show(w[0]), 'VERSION_RE accepts text that does not start with ver:"', file=FP, engine='E3')
        else:
            ctx.ob('C09.D4', 'VERSION_RE only accepts texts starting with ver:"', True, FP)
    except (Unsupported, AttributeError) as e:
        ctx.error('C09.D4', str(e))
    # the version text itself: Version() must refuse what is not <digit>[digits and dots]<rest not starting with a digit>
    FV = 'hszinc/version.py'
    try:
        vv = m.const('version', 'VERSION_RE')
        pv = L.PyRegex(vv.pattern, vv.flags)
        env = L.rcat(L.rset(L.ASCII_DIGIT) if hasattr(L, 'ASCII_DIGIT') else L.rset(L.iv((48, 57))), L.rany_star())
        digitish = L.rcat(L.rset(L.category('digit')), L.rany_star())
        w = L.find_not_included(pv.match_lang(), digitish)
        init = m.func('version', 'Version.__init__')
        uses = [c for c in ast.walk(init) if isinstance(c, ast.Call) and norm(c.func) == 'VERSION_RE.match']
        refuses = any(isinstance(x, ast.If) and 'is None' in norm(x.test) and x.body and isinstance(x.body[0], ast.Raise)
                      and norm(x.body[0].exc).startswith('ValueError') for x in ast.walk(init))
        if not uses or not refuses:
            ctx.error('C09.D4', 'Version.__init__: VERSION_RE.match / refusal with ValueError not recognised')
        elif w:
            ctx.violation('C09.D4', '%s::VERSION_RE' % FV, vv.pattern,
                          'the document \'ver:"%s"\\na\\n1\\n\' (a header whose version does not start with a digit) is parsed: '
                          'Version(%r) is accepted, its empty groups count as 0 and the nearest grammar is used, instead of the '
                          'malformed version header being rejected' % (_zinc.show(w[0]), _zinc.show(w[0])),
                          'version.VERSION_RE accepts version texts that do not start with a digit', file=FV, engine='E3')
        else:
            ctx.ob('C09.D4', 'Version() accepts only texts starting with a digit (others raise ValueError -> ZincParseException)',
                   True, FV)
    except (Unsupported, AttributeError, AnalysisError) as e:
        ctx.error('C09.D4', 'version.VERSION_RE: %s' % e)
