"""C20 -- a Quantity is numerically transparent (template conformance, E9)."""
from __future__ import annotations

import ast

from ..conform import NF, differing_operands, load_spec, show
from ..lang import Unsupported
from ..model import AnalysisError, body_wo_doc, live_body, norm, walk_no_nested

META = {
    'level': 'proof',
    'explanation': (
        'Each operator/conversion/comparison method of datatypes.Qty is brought to a normal form '
        'and compared with the expression the Python data model assigns to that method name '
        '(spec/operators.json): self.value <op> unwrap(other), unwrap(other) <op> self.value, '
        'divmod/pow/abs/int/float/complex calls, six comparisons through _cmp_op with the lambda of '
        'the matching operator, _cmp_op = unit check then operator on values.  Because every body '
        'is literally the expression the property equates it with, conformance implies the '
        'property for all operands (including the exception raised), modulo operator dispatch.  '
        'Identity shortcuts (`if other is self`) in comparisons are violations (NaN); witness operands include 2**53+1 so that float() detours on int values show.'
        " Also: the unit test of _cmp_op, whatever its spelling, has the decision table of `the units differ` over the units None, '', 'kg', 'm'."
        ' Also: no exact-type test selects plain numbers in _cmp_op (bool is an int subclass); no binary dunder of the value is called directly.'
        " Also: Qty is not registered in the numeric tower; self-dunder calls are resolved to the callee's normal form; witnesses tell -0.0 from 0.0."),
    'rule_text': 'one obligation per required dunder method of Qty + _cmp_op paths + class-structure facts; '
                 'discharged by normal-form equality; distinct = distinct (rule, obligation) pairs',
    'trusted_base': ['Python data model dispatch of binary/reflected/unary operators and rich comparisons'],
}

MOD = 'datatypes'
F = 'hszinc/datatypes.py'


def _v(ctx, rule, fn, witness, what):
    ctx.violation(rule, '%s::Qty.%s' % (F, fn.name), norm(fn.body[-1]) if fn.body else '', witness, what,
                  file=F, line=fn.lineno, engine='E9')


def run(ctx):
    m = ctx.model
    spec = load_spec('operators.json')
    pairs = [tuple(p) for p in spec['witness_operands']]
    methods = m.methods(MOD, 'Qty')
    ctx.count('methods of Qty', len(methods))
    V = ('V',)
    U = ('U', 'other')
    matched = 0

    def nf_of(name):
        ev = NF({'Qty', 'Quantity'})
        nf = ev.method(methods[name])
        # the operand parameter may have any name: canonicalise it to `other`
        params = [a.arg for a in methods[name].args.args]
        if len(params) >= 2 and params[1] != 'other':
            nf = _replace(_replace(nf, ('U', params[1]), ('U', 'other')), ('P', params[1]), ('P', 'other'))
        return nf, ev

    def require(name):
        if name not in methods:
            # deleted operator: the behaviour falls back to TypeError / object default
            ctx.violation('C20.D1', '%s::Qty' % F, 'def %s' % name,
                          'Quantity(7, "m") with %s: TypeError or object default instead of the value\'s result' % name,
                          'required method %s is not defined on Qty' % name, file=F,
                          line=m.cls(MOD, 'Qty').lineno, engine='E9')
            return False
        return True

    def check(name, want, unary=False, optional=False):
        nonlocal matched
        if name not in methods:
            if optional:
                return
            require(name)
            return
        fn = methods[name]
        try:
            got, ev = nf_of(name)
        except Unsupported as e:
            ctx.error('C20.D1', 'Qty.%s: body not in a recognised normal form (%s)' % (name, e))
            return
        matched += 1
        got = _resolve_self_calls(got, nf_of)
        if getattr(ev, 'inverted_unwrap', None) is not None:
            _v(ctx, 'C20.D1', fn, 'Quantity(7, "m") %s 2 raises AttributeError (`.value` of a plain number), and Quantity(7, "m") %s '
               'Quantity(2, "m") hands a Quantity object to the value\'s operator: the unwrapping is done for operands that are '
               'NOT quantities' % (name, name), 'Qty.%s unwraps under `%s`' % (name, norm(ev.inverted_unwrap.test)))
            return
        if ev.bad_unwrap is not None:
            _v(ctx, 'C20.D1', fn, 'operand of a Quantity class other than %s is not unwrapped' % ev.bad_unwrap[1],
               'Qty.%s unwraps only instances of %s, not of Qty' % (name, ev.bad_unwrap[1]))
            return
        if got == want:
            ctx.ob('C20.D1', 'Qty.%s == %s' % (name, show(want)), True, '%s:%d' % (F, fn.lineno))
            return
        # routed through the comparison helper: inherits the unit check, which arithmetic does not have
        if got[0] == 'mcall' and got[1] == ('name', 'self') and got[2] == '_cmp_op':
            _v(ctx, 'C20.D1', fn, 'divmod(Quantity(7, "A"), Quantity(2, "V")) raises TypeError ("Quantity units differ") where the values '
               'give (3, 1), and Quantity(1, "kg") with Quantity(0, None) raises TypeError instead of ZeroDivisionError: %s goes through '
               '_cmp_op, whose unit check belongs to the comparisons only' % name,
               'Qty.%s is routed through _cmp_op (%s) and inherits the unit check of the comparison operators' % (name, show(got)))
            return
        # un-unwrapped operand?
        w = None
        if _replace(got, ('P', 'other'), U) == want:
            w = 'Quantity(7, "m") %s Quantity(2, "m"): operand is not unwrapped, the value sees a Qty object' % name
        else:
            try:
                w = differing_operands(got, want, pairs, unary)
            except Exception:
                w = None
        if w is None:
            ctx.error('C20.D1', 'Qty.%s has form %s, expected %s, and no differing operands were found; '
                                'cannot decide' % (name, show(got), show(want)))
            return
        _v(ctx, 'C20.D1', fn, w, 'Qty.%s computes %s, the data model prescribes %s' % (name, show(got), show(want)))

    for name, op in spec['binary'].items():
        check(name, ('bin', op, V, U))
    for name, op in spec['reflected'].items():
        check(name, ('bin', op, U, V))
    for name, (kind, op) in spec['optional_py2'].items():
        check(name, ('bin', op, V, U) if kind == 'binary' else ('bin', op, U, V), optional=True)
    check('__divmod__', ('call', 'divmod', [V, U]))
    check('__rdivmod__', ('call', 'divmod', [U, V]))
    check('__rpow__', ('call', 'pow', [U, V]))
    # __pow__(self, other, modulo=None) -> pow(self.value, unwrap(other), modulo)
    if require('__pow__'):
        fn = methods['__pow__']
        args = [a.arg for a in fn.args.args]
        try:
            got, ev = nf_of('__pow__')
            matched += 1
            if len(args) == 3 and len(fn.args.defaults) == 1 and norm(fn.args.defaults[0]) == 'None':
                want = ('call', 'pow', [V, U, ('P', args[2])])
            else:
                want = ('call', 'pow', [V, U])
            alt = ('bin', 'Pow', V, U) if len(args) == 2 else None
            if got == want or (alt and got == alt):
                ctx.ob('C20.D1', 'Qty.__pow__ == %s' % show(want), True, '%s:%d' % (F, fn.lineno))
            else:
                w = None
                if got[0] == 'call' and len(got[2]) == 2 and len(args) == 3:
                    w = 'pow(Quantity(7,"m"), 2, 5): modulo dropped, gives 49 instead of 4'
                else:
                    g2 = got
                    if got[0] == 'call' and len(got[2]) == 3:
                        g2 = ('call', got[1], got[2][:2])
                    w = differing_operands(g2, ('call', 'pow', [V, U]), pairs)
                if w is None:
                    ctx.error('C20.D1', 'Qty.__pow__ has unrecognised form %s' % show(got))
                else:
                    _v(ctx, 'C20.D1', fn, w, 'Qty.__pow__ computes %s, expected %s' % (show(got), show(want)))
        except Unsupported as e:
            ctx.error('C20.D1', 'Qty.__pow__: %s' % e)
    for name, op in spec['unary'].items():
        check(name, ('un', op, V), unary=True)
    for name, fname in spec['call_unary'].items():
        check(name, ('call', fname, [V]), unary=True)

    # comparisons through _cmp_op
    for name, op in spec['compare'].items():
        if not require(name):
            continue
        fn = methods[name]
        # identity shortcut: `if other is self: return <constant>` answers without looking at the value
        fb = body_wo_doc(fn)
        oname = fn.args.args[1].arg if len(fn.args.args) > 1 else 'other'
        short = [st for st in fb if isinstance(st, ast.If) and norm(st.test) in ('%s is self' % oname, 'self is %s' % oname)
                 and st.body and isinstance(st.body[0], ast.Return)]
        if short:
            rv = norm(short[0].body[0].value)
            _v(ctx, 'C20.D1', fn,
               'q = Quantity(float("nan"), "kg"): q %s q gives %s, the bare value gives nan %s nan = %s -- the identity '
               'shortcut answers without comparing the value' % (
                   {'Eq': '==', 'NotEq': '!=', 'Lt': '<', 'LtE': '<=', 'Gt': '>', 'GtE': '>='}[op], rv,
                   {'Eq': '==', 'NotEq': '!=', 'Lt': '<', 'LtE': '<=', 'Gt': '>', 'GtE': '>='}[op],
                   {'Eq': False, 'NotEq': True, 'Lt': False, 'LtE': False, 'Gt': False, 'GtE': False}[op]),
               'Qty.%s short-cuts on identity (`%s`) before comparing values; NaN is not equal to itself' % (name, norm(short[0].test)))
            continue
        try:
            got, ev = nf_of(name)
        except Unsupported as e:
            ctx.error('C20.D1', 'Qty.%s: %s' % (name, e))
            continue
        matched += 1
        ok_shape = got[0] == 'mcall' and got[1] == ('name', 'self') and got[2] == '_cmp_op' and len(got[3]) == 2 \
            and got[3][0] == ('P', 'other')
        if not ok_shape:
            # direct comparison without the unit check?
            direct = ('cmp', op, V, U)
            if got == direct or got == ('cmp', op, V, ('P', 'other')):
                _v(ctx, 'C20.D1', fn, 'Quantity(1,"m") %s Quantity(1,"s") answers instead of raising TypeError' % name,
                   'Qty.%s bypasses _cmp_op (no unit check)' % name)
            else:
                ctx.error('C20.D1', 'Qty.%s has unrecognised form %s' % (name, show(got)))
            continue
        opf = got[3][1]
        want_l = ('lambda', 2, ('cmp', op, ('L', 0), ('L', 1)))
        op_attr = {'Lt': 'lt', 'LtE': 'le', 'Eq': 'eq', 'NotEq': 'ne', 'GtE': 'ge', 'Gt': 'gt'}[op]
        if opf == want_l or opf == ('attr', ('name', 'operator'), op_attr):
            ctx.ob('C20.D1', 'Qty.%s == _cmp_op(other, x %s y)' % (name, op), True, '%s:%d' % (F, fn.lineno))
        elif opf[0] == 'lambda' and opf[1] == 2:
            w = None
            for a, b in pairs:
                from ..conform import nf_eval
                try:
                    x = nf_eval(opf[2], None, None, lam=(a, b))
                    y = nf_eval(want_l[2], None, None, lam=(a, b))
                except Exception:
                    continue
                if x != y:
                    w = 'Quantity(%r,"m") %s %r gives %r, the values give %r' % (a, name, b, x, y)
                    break
            if w:
                _v(ctx, 'C20.D1', fn, w, 'Qty.%s compares with %s instead of %s' % (name, show(opf), op))
            else:
                ctx.error('C20.D1', 'Qty.%s: comparison lambda %s not decidable' % (name, show(opf)))
        else:
            ctx.error('C20.D1', 'Qty.%s: operator argument %s not recognised' % (name, show(opf)))

    _cmp_op(ctx, methods)
    _direct_dunders(ctx, methods)
    _structure(ctx, m, spec)
    ctx.count('operator methods matched', matched)
    ctx.floor('Qty operator methods in normal form', matched, 38)
    ctx.assume('MODE_PINT off: Quantity() builds BasicQuantity, which inherits every method of Qty unchanged')


def _resolve_self_calls(nf, nf_of, depth=0):
    """`self.__add__(x)` inside a method is the normal form of __add__ with its operand replaced by x (an operand the
    callee unwraps stays unwrapped: U(P x) = U x)"""
    if depth > 3 or not isinstance(nf, tuple):
        return nf
    if nf and nf[0] == 'mcall' and nf[1] == ('name', 'self') and nf[2].startswith('__') and len(nf[3]) == 1:
        try:
            callee, _ = nf_of(nf[2])
        except Exception:
            return nf
        arg = _resolve_self_calls(nf[3][0], nf_of, depth + 1)

        def subst(x):
            if isinstance(x, tuple):
                if x and x[0] == 'U':
                    return ('U', arg[1]) if arg[0] in ('P', 'U') else arg
                if x and x[0] == 'P':
                    return arg
                return tuple(subst(y) for y in x)
            if isinstance(x, list):
                return [subst(y) for y in x]
            return x
        return subst(_resolve_self_calls(callee, nf_of, depth + 1))
    return tuple(_resolve_self_calls(x, nf_of, depth + 1) if isinstance(x, tuple) else
                 ([_resolve_self_calls(y, nf_of, depth + 1) for y in x] if isinstance(x, list) else x) for x in nf)


def _replace(nf, a, b):
    if nf == a:
        return b
    if isinstance(nf, tuple):
        return tuple(_replace(x, a, b) for x in nf)
    if isinstance(nf, list):
        return [_replace(x, a, b) for x in nf]
    return nf


BINARY_DUNDERS = {'__add__', '__sub__', '__mul__', '__truediv__', '__floordiv__', '__mod__', '__divmod__', '__pow__', '__lshift__',
                  '__rshift__', '__and__', '__or__', '__xor__', '__matmul__', '__lt__', '__le__', '__gt__', '__ge__', '__eq__',
                  '__ne__', '__div__'}
BINARY_DUNDERS |= {'__r' + d[2:] for d in list(BINARY_DUNDERS)}


def _direct_dunders(ctx, methods):
    """`v.__pow__(x)` is not `v ** x`: the operator tries type(v).__pow__ AND, when that answers NotImplemented, the
    reflected method of the other operand; the direct call just hands the NotImplemented back (int.__pow__(2, 0.5))."""
    n = 0
    for name, fn in sorted(methods.items()):
        for c in walk_no_nested(fn):
            if isinstance(c, ast.Call) and isinstance(c.func, ast.Attribute) and c.func.attr in BINARY_DUNDERS and c.args \
                    and norm(c.func.value) in ('self.value', '%s.value' % (fn.args.args[0].arg if fn.args.args else 'self')):
                n += 1
                ctx.violation('C20.D1', '%s::Qty.%s' % (F, name), norm(c),
                              'Quantity(2) ** 0.5 (an int value with a float operand; likewise Quantity(4) ** Quantity(0.5)): '
                              'int.%s(2, 0.5) answers NotImplemented -- the operator would go on to float.__r%s__, the direct '
                              'call returns the NotImplemented, and the expression ends in TypeError where 2 ** 0.5 is 1.414...'
                              % (c.func.attr, c.func.attr.strip('_')),
                              'Qty.%s calls the dunder method of the value directly (`%s`), skipping the reflected-operand step '
                              'of the operator protocol' % (name, norm(c)[:50]), file=F, line=c.lineno, engine='E9')
    if not n:
        ctx.ob('C20.D1', 'no method of Qty calls a binary dunder of its value directly', True, F)


UNIT_DOMAIN = (None, '', 'kg', 'm')


def _unit_predicate(ctx, fn, text, s, o, rule='C20.D1'):
    """A condition of _cmp_op that reads only the two units: its decision table over the representative units
    None / '' / two different names must be that of `units differ`."""
    import ast as _ast
    from .. import minieval
    try:
        e = _ast.parse(text, mode='eval').body
    except SyntaxError:
        return None
    reads = {norm(n) for n in _ast.walk(e) if isinstance(n, _ast.Attribute)}
    names = {n.id for n in _ast.walk(e) if isinstance(n, _ast.Name)} - {'None', 'True', 'False', 'bool', 'str', 'len'}
    if not reads or not reads <= {'%s.unit' % s, '%s.unit' % o} or not names <= {s, o}:
        return None
    try:
        tab = minieval.table(e, (s, o), UNIT_DOMAIN, build=lambda c: {s: {'unit': c[0]}, o: {'unit': c[1]}})
    except minieval.Undecided:
        return None
    bad = [(c, v) for c, v in tab if bool(v) != (c[0] != c[1])]
    if not bad:
        return 'differ'
    (a, b), v = bad[0]
    if a != b:
        wit = 'Quantity(5, %r) == Quantity(5, %r) answers True (and < / > answer too) instead of raising TypeError: the ' \
              'units differ but `%s` is false for them' % (a, b, text)
        if {a, b} == {None, ''}:
            wit += "; the two quantities then compare equal while hash() still tells them apart (it hashes the raw unit)"
    else:
        wit = 'Quantity(1, %r) < Quantity(2, %r) raises TypeError although the units are the same: `%s` is true for them' % (a, b, text)
    ctx.violation(rule, '%s::Qty._cmp_op' % F, text, wit,
                  'the unit test of _cmp_op is not `the units differ` over the units None, \'\', \'kg\', \'m\' (%d of %d pairs decided '
                  'differently)' % (len(bad), len(tab)), file=F, line=fn.lineno, engine='E7')
    return 'violation'


def _cmp_op(ctx, methods):
    if '_cmp_op' not in methods:
        ctx.error('C20.D1', 'anchor vanished: Qty._cmp_op')
        return
    fn = methods['_cmp_op']
    args = [a.arg for a in fn.args.args]
    if len(args) != 3:
        ctx.error('C20.D1', 'Qty._cmp_op signature changed: %s' % args)
        return
    s, o, op = args
    paths = _paths(body_wo_doc(fn), [])
    # normalise paths
    want_isinst = 'isinstance(%s, Qty)' % o
    unit_ne = {'%s.unit != %s.unit' % (o, s), '%s.unit != %s.unit' % (s, o)}
    unit_eq = {'%s.unit == %s.unit' % (o, s), '%s.unit == %s.unit' % (s, o)}
    got = set()
    problems = []
    for conds, kind, val in paths:
        cs = []
        for text, pos in conds:
            if text in (want_isinst, 'isinstance(%s, Quantity)' % o):
                cs.append(('qty', pos))
            elif text in unit_ne:
                cs.append(('differ', pos))
            elif text in unit_eq:
                cs.append(('differ', not pos))
            else:
                import re as _re
                mo = _re.match(r'^(\w+)\((\w+)\.unit\) (!=|==) (\w+)\((\w+)\.unit\)$', text)
                if mo and mo.group(1) == mo.group(4) and {mo.group(2), mo.group(5)} == {s, o} \
                        and mo.group(1) not in ('str', 'six.text_type'):
                    ctx.violation('C20.D1', '%s::Qty._cmp_op' % F, text,
                                  "Quantity(5, '/s') < Quantity(6, '/h') answers instead of raising TypeError: the units are compared "
                                  "after `%s(...)`, which maps several different units to the same text (to_pint sends /s, /min, /h "
                                  "and None all to '')" % mo.group(1),
                                  'Qty._cmp_op compares units through %s(), a many-to-one mapping, so differing units can pass the '
                                  'unit check' % mo.group(1), file=F, line=fn.lineno, engine='E9')
                    return
                mo2 = _re.match(r'^type\((\w+)\) (in|is|==|not in|is not|!=) (.+)$', text)
                if mo2 and mo2.group(1) == o:
                    ctx.violation('C20.D1', '%s::Qty._cmp_op' % F, text,
                                  'Quantity(1) == True (v == True is True for v = 1) and Quantity(0) < True: bool is a SUBCLASS of int, '
                                  'the exact-type test `%s` does not recognise it as a plain number, and the comparison falls '
                                  'through to another arm (NotImplemented / TypeError) instead of comparing the value' % text,
                                  'Qty._cmp_op selects plain numbers by exact type (`%s`), which excludes bool and every other '
                                  'numeric subclass' % text, file=F, line=fn.lineno, engine='E9')
                    return
                verdict = _unit_predicate(ctx, fn, text, s, o)
                if verdict == 'differ':
                    cs.append(('differ', pos))
                    continue
                if verdict == 'violation':
                    return
                problems.append('unrecognised condition %r' % text)
        got.add((tuple(cs), kind, val))
    want = {
        ((('qty', True), ('differ', True)), 'raise', 'TypeError'),
        ((('qty', True), ('differ', False)), 'return', '%s(%s.value, %s.value)' % (op, s, o)),
        ((('qty', False),), 'return', '%s(%s.value, %s)' % (op, s, o)),
    }
    where = 'hszinc/datatypes.py:%d' % fn.lineno
    if problems:
        ctx.error('C20.D1', 'Qty._cmp_op: ' + '; '.join(sorted(set(problems))))
        return
    if got == want:
        for w in sorted(want):
            ctx.ob('C20.D1', '_cmp_op path %s -> %s %s' % (w[0], w[1], w[2]), True, where)
        return
    # diagnose
    for w in sorted(want - got):
        conds, kind, val = w
        alt = [g for g in got if g[0] == conds]
        if alt:
            g = alt[0]
            if kind == 'raise':
                wit = 'Quantity(1,"m") < Quantity(1,"s"): expected TypeError, method does %s %s' % (g[1], g[2])
            elif conds == (('qty', True), ('differ', False)):
                wit = 'Quantity(1,"m") < Quantity(2,"m"): expected %s, method does %s %s' % (val, g[1], g[2])
            else:
                wit = 'Quantity(1,"m") < 2: expected %s, method does %s %s' % (val, g[1], g[2])
        else:
            wit = 'path %s (%s %s) is missing' % (conds, kind, val)
        ctx.violation('C20.D1', '%s::Qty._cmp_op' % F, norm(fn), wit,
                      'Qty._cmp_op deviates from: unit check (TypeError iff both quantities and units differ) '
                      'then operator on values', file=F, line=fn.lineno, engine='E9')


def _paths(body, conds):
    """Enumerate (conditions, 'return'|'raise'|'fall', text) paths of a straight if/return/raise body."""
    out = []
    for i, st in enumerate(body):
        if isinstance(st, ast.If):
            t = norm(st.test)
            neg = False
            if isinstance(st.test, ast.UnaryOp) and isinstance(st.test.op, ast.Not):
                t = norm(st.test.operand)
                neg = True
            then = _paths(st.body, conds + [(t, not neg)])
            els = _paths(st.orelse, conds + [(t, neg)]) if st.orelse else [(conds + [(t, neg)], 'fall', None)]
            rest = body[i + 1:]
            for c, k, v in then + els:
                if k == 'fall':
                    out.extend(_paths(rest, c))
                else:
                    out.append((c, k, v))
            return out
        if isinstance(st, ast.Return):
            out.append((conds, 'return', norm(st.value) if st.value else 'None'))
            return out
        if isinstance(st, ast.Raise):
            exc = st.exc
            name = norm(exc.func) if isinstance(exc, ast.Call) else norm(exc)
            out.append((conds, 'raise', name))
            return out
        if isinstance(st, ast.Pass):
            continue
        raise Unsupported('statement %r' % norm(st).split('\n')[0])
    out.append((conds, 'fall', None))
    return out


def _structure(ctx, m, spec):
    """Class facts that make Qty's methods the ones a Quantity object uses."""
    # a Quantity is not announced as a member of the numeric tower: code that trusts numbers.Complex/Real (Fraction's
    # comparison operators read .real/.imag/.numerator of such operands) would find the attributes missing
    for c in ast.walk(m.mod(MOD).tree):
        if isinstance(c, ast.Call) and isinstance(c.func, ast.Attribute) and c.func.attr == 'register' \
                and norm(c.func.value).startswith(('numbers.', 'Number', 'Real', 'Complex', 'Rational', 'Integral')) and c.args \
                and norm(c.args[0]) in ('Qty', 'BasicQuantity', 'Quantity', 'PintQuantity'):
            ctx.violation('C20.D1', '%s::%s' % (F, norm(c)[:50]), norm(c),
                          'Fraction(1, 2) == Quantity(0.5) (a Fraction on the LEFT of == or !=): Fraction.__eq__ sees an instance of '
                          '%s, trusts the ABC and reads its .imag / .real, which Qty does not define -- AttributeError where '
                          'Fraction(1, 2) == 0.5 is simply True' % norm(c.func.value),
                          '%s is registered as a virtual subclass of %s without implementing that protocol'
                          % (norm(c.args[0]), norm(c.func.value)), file=F, line=c.lineno, engine='E9')
    cls = m.cls(MOD, 'Qty')
    # no class-level rebinding of dunders
    names = set()
    for k in ('binary', 'reflected', 'call_binary', 'call_reflected', 'unary', 'call_unary', 'compare'):
        names |= set(spec[k])
    names.add('_cmp_op')
    for clsname in ('Qty', 'BasicQuantity'):
        try:
            c = m.cls(MOD, clsname)
        except AnalysisError as e:
            ctx.error('C20.D1', str(e))
            continue
        for st in live_body(c.body):
            if isinstance(st, (ast.Assign, ast.AugAssign, ast.AnnAssign)):
                targets = st.targets if isinstance(st, ast.Assign) else [st.target]
                for t in targets:
                    if isinstance(t, ast.Name) and t.id in names:
                        ctx.violation('C20.D1', '%s::%s' % (F, clsname), norm(st),
                                      'operator %s rebound at class level' % t.id,
                                      '%s.%s is re-assigned in the class body; the def checked above is not '
                                      'the method in use' % (clsname, t.id), file=F, line=st.lineno, engine='E9')
            if clsname == 'BasicQuantity' and isinstance(st, ast.FunctionDef) and st.name in names:
                ctx.violation('C20.D1', '%s::BasicQuantity.%s' % (F, st.name), norm(st),
                              'BasicQuantity overrides %s' % st.name,
                              'the default Quantity class overrides an operator of Qty', file=F,
                              line=st.lineno, engine='E9')
    bases = m.class_bases(MOD, 'BasicQuantity')
    ok = bases[:1] == ['Qty']
    if not ok:
        ctx.violation('C20.D1', '%s::BasicQuantity' % F, 'class BasicQuantity(%s)' % ', '.join(bases),
                      'BasicQuantity does not inherit Qty first', 'Qty is not first base of BasicQuantity',
                      file=F, line=m.cls(MOD, 'BasicQuantity').lineno, engine='E9')
    else:
        ctx.ob('C20.D1', 'BasicQuantity(Qty) inherits all operator methods', True)
    # Qty.__init__ stores value and unit as given
    methods = m.methods(MOD, 'Qty')
    init = methods.get('__init__')
    if init is None:
        ctx.error('C20.D1', 'anchor vanished: Qty.__init__')
    else:
        stores = {norm(st) for st in body_wo_doc(init)}
        a = [x.arg for x in init.args.args]
        if len(a) == 3 and '%s.value = %s' % (a[0], a[1]) in stores and '%s.unit = %s' % (a[0], a[2]) in stores \
                and len(stores) == 2:
            ctx.ob('C20.D1', 'Qty.__init__ stores value and unit unchanged', True, '%s:%d' % (F, init.lineno))
        else:
            bad = sorted(stores - {'%s.value = %s' % (a[0], a[1] if len(a) > 1 else '?'),
                                   '%s.unit = %s' % (a[0], a[2] if len(a) > 2 else '?')})
            ctx.violation('C20.D1', '%s::Qty.__init__' % F, '; '.join(sorted(stores)),
                          'Quantity(v, u).value is not v', 'Qty.__init__ does not store value/unit as given: %s' % bad,
                          file=F, line=init.lineno, engine='E9')
    # Quantity.__new__ -> BasicQuantity(value, unit) when MODE_PINT is off
    try:
        qn = m.func(MOD, 'Quantity.__new__')
        rets = [norm(n.value) for n in ast.walk(qn) if isinstance(n, ast.Return)]
        a = [x.arg for x in qn.args.args]
        want = 'BasicQuantity(%s, %s)' % (a[1], a[2]) if len(a) >= 3 else None
        if want in rets:
            ctx.ob('C20.D1', 'Quantity.__new__ returns %s when MODE_PINT is off' % want, True,
                   '%s:%d' % (F, qn.lineno))
        else:
            ctx.violation('C20.D1', '%s::Quantity.__new__' % F, '; '.join(rets),
                          'Quantity(1.5, "m").value != 1.5 or wrong class',
                          'Quantity.__new__ no longer returns BasicQuantity(value, unit)', file=F,
                          line=qn.lineno, engine='E9')
    except AnalysisError as e:
        ctx.error('C20.D1', str(e))
