"""C04 -- the ZINC writer emits spec-conformant text that denotes the grid."""
from __future__ import annotations

import ast

from .. import lang as L
from .. import spec as S
from ..lang import Unsupported
from ..model import AnalysisError, body_wo_doc, norm, walk_no_nested
from . import _zinc

META = {
    'level': 'other',
    'explanation': (
        'Static inclusion of the writer\'s output language in a specification grammar that shares nothing with hszinc\'s '
        'reader (spec/zinc_spec.json, written from the published Haystack Zinc grammar): (D1) for every value kind and '
        'both versions, the regular template of the text dump_scalar can emit (abstract interpretation of the dump_* '
        'functions over payload domains and library lexical forms) is included in the grammar\'s language for that '
        'kind; the escape homomorphism emits only characters and escapes the grammar defines; non-finite numbers are '
        'spelled INF/-INF/NaN; a kind the grammar of that version does not define is a violation.  (D2) layout: the grid '
        'template (ver header + metadata, one column line, one line per row, final newline) is included in the '
        'grammar\'s grid rule; every row emits one cell per column (the row writer ranges over the column names and uses '
        'row.get), cells joined by ",".  (D3) date-time denotation: the writer emits isoformat() of the value itself and a zone name justified for that instant by timezone_name (clauses shared with C17.D2/D3: fast path before the zero-offset shortcut, scan guarded by offset equality at that instant, no remembered zone).  Also: XStr payload text is hex digits / one-line standard base64 (XStr.data_to_string); SortableDict.items() conformance (shared with C16.D5).  Not decided: "an independent reader recovers the same grid" as an execution; '
        'numeric payload fidelity.'
        ' Also (D1): membership / lookup of a number in a table of non-finite floats is modelled (== membership excludes NaN).'
        ' Also (D1): unit-less quantities may hold non-finite values; isinstance(x, float) narrows number kinds per branch; new shared helpers are read at their call sites.'
        ' Also: encode/decode with pure codecs is folded, so generated escape tables are read.'
        ' Round 9: (D1) no writer memo keyed by the value.'),
    'rule_text': 'obligations = kinds x versions (inclusion in the spec language), code-point classes x spec-legality, '
                 'layout facts',
    'trusted_base': ['spec/zinc_spec.json transcribes the published grammar; spec/lexforms.json the CPython lexical forms'],
}

FZ = 'hszinc/zincdumper.py'


def run(ctx):
    for which in ('str', 'uri'):
        info = _zinc.escape_pair(ctx, 'C04.D1', which)
        if info is not None:
            _zinc.escapes_spec_legal(ctx, 'C04.D1', info, which)
    for version in ('3.0', '2.0'):
        t = _zinc.writer_templates(ctx, 'C04.D1', 'zincdumper', 'zinc', version)
        ctx.count('writer templates (%s)' % version, len(t))
        _zinc.spec_inclusion(ctx, 'C04.D1', version, t)
        _layout(ctx, version)
    _row_writer(ctx)
    _zinc.version_threading(ctx, 'C04.D1', 'zincdumper')
    # the header `ver:"X"` is str(version): the version gates of a dump must not change it (shared with C18.D2)
    from . import c18
    c18.version_immutable(ctx, 'C04.D1')
    from . import c07
    c07.writer_memo(ctx, 'C04.D1', 'zincdumper')
    # date-time denotation: the zone name written is justified for that instant (clause shared with C17.D3)
    from . import c17
    c17._api(ctx, ctx.model, rule='C04.D3', only=('zincdumper',))
    c17._timezone_name(ctx, ctx.model, rule='C04.D3')
    # XStr payload text (XStr.data_to_string): hex digits / one-line standard base64
    _zinc.xstr_codec(ctx, 'C04.D1')
    from . import c16
    c16.mapping_overrides(ctx, ctx.model, rule='C04.D2')


def _layout(ctx, version):
    t = _zinc.grid_template(ctx, 'C04.D2', version)
    if t is None:
        return
    try:
        w = L.find_not_included(t.rx, _zinc.spec_grid_rx(), max_witnesses=2)
    except Unsupported as e:
        ctx.error('C04.D2', 'grid template vs spec grid: %s' % e)
        return
    if w:
        ctx.violation('C04.D2', '%s::dump_grid' % FZ, 'grid template ⊆ spec grid',
                      'the writer lays a grid out as %r, which the Haystack grid grammar does not derive'
                      % _zinc.show(w[0]), 'the layout produced by dump_grid is not included in the specification\'s grid '
                      'rule (version %s)' % version, file=FZ, engine='E3')
    else:
        ctx.ob('C04.D2', 'v%s: header `ver:"X"` + metadata, one column line, one line per row, final newline: included in '
                         'the specification\'s grid rule' % version, True, '%s:dump_grid' % FZ)


def _row_writer(ctx):
    m = ctx.model
    try:
        fn = m.func('zincdumper', 'dump_row')
    except AnalysisError as e:
        ctx.error('C04.D2', str(e))
        return
    a = [x.arg for x in fn.args.args]
    body = body_wo_doc(fn)
    grid, row = a[0], a[1]
    ok = False
    if len(body) == 1 and isinstance(body[0], ast.Return):
        v = body[0].value
        if isinstance(v, ast.Call) and isinstance(v.func, ast.Attribute) and v.func.attr == 'join' \
                and isinstance(v.func.value, ast.Constant) and v.func.value.value == ',' and len(v.args) == 1 \
                and isinstance(v.args[0], (ast.ListComp, ast.GeneratorExp)):
            comp = v.args[0]
            g = comp.generators[0]
            it = norm(g.iter)
            elt = norm(comp.elt)
            c = norm(g.target)
            if it in ('list(%s.column.keys())' % grid, '%s.column.keys()' % grid, '%s.column' % grid) and not g.ifs:
                if elt in ('dump_scalar(%s.get(%s), version=%s.version)' % (row, c, grid),
                           'dump_scalar(%s.get(%s), version=%s._version)' % (row, c, grid)):
                    ok = True
                    ctx.ob('C04.D2', 'every row emits exactly one cell per column, in column order (row.get: absent -> '
                                     'null), joined by ","', True, '%s:%d' % (FZ, fn.lineno))
                elif elt.startswith('dump_scalar(%s[%s]' % (row, c)):
                    ok = True
                    ctx.violation('C04.D2', '%s::dump_row' % FZ, elt,
                                  'a row that omits a column makes dump() raise KeyError instead of writing a null cell',
                                  'dump_row indexes the row instead of using row.get(column)', file=FZ, line=fn.lineno,
                                  engine='E9')
            elif it in ('%s.keys()' % row, '%s' % row, 'list(%s.keys())' % row, '%s.items()' % row):
                ok = True
                ctx.violation('C04.D2', '%s::dump_row' % FZ, it,
                              'a row {b: 2, a: 1} in a grid with columns a, b is written as "2,1" / a row omitting a '
                              'column has fewer cells than the column line',
                              'dump_row ranges over the row\'s own keys, not over the grid\'s columns', file=FZ,
                              line=fn.lineno, engine='E9')
    if not ok:
        ctx.error('C04.D2', 'dump_row not recognised: %s' % '; '.join(norm(x) for x in body)[:200])
