"""C16 -- ordered metadata maps (SortableDict / MetadataObject)."""
from __future__ import annotations

import ast

from ..flow import attr_writes, enumerate_paths
from ..lang import Unsupported
from ..model import AnalysisError, body_wo_doc, norm, walk_no_nested

META = {
    'level': 'other',
    'explanation': (
        'Static path analysis of sortabledict.py / metadata.py.  All paths of add_item are enumerated from the '
        'AST (conditions taken, effects executed, exit) and each is checked against the documented semantics: '
        '(D1) representation invariant -- every non-raising path changes _order and _values consistently '
        '(new key: one insert/append + value store; existing key without position: value store only; '
        'relocation: delete from both, one insert, value store); (D2) every refusal (ValueError for index+pos_key, '
        'KeyError for unknown pos_key, KeyError for duplicate with replace=False, the validator) happens before '
        'the first write; (D3) a position looked up in _order is not used after _order was shortened unless it '
        'is recomputed or adjusted; (D4) replace without position keeps the position; (D6) "after" adds exactly '
        'one to a given position, before the insert; (D5) the delegating one-liners (__setitem__, __delitem__, '
        '__iter__, __len__, __getitem__, at, value_at, index, reverse, sort, pop_at, MetadataObject.append/extend) '
        'have their documented normal forms; only SortableDict writes _order/_values.  Also (D5): sort/reverse may be written as a rebuild of _order from the CURRENT order (value-dict insertion order is a violation); MetadataObject.extend traverses its argument once (one-shot iterables).  Also (D5): overridden MutableMapping methods (items/keys/values) pair each key of _order with its own value; sort with an explicit signature passes key and reverse to list.sort (sort-then-reverse is not the stable descending sort).  Not decided: lock-step '
        'equality with a reference ordered map as an execution.'
        " Also (D5): every way out of index() is the list's own index() or a raise (add_item relies on its ValueError to refuse an unknown pos_key)."
        ' Also (D2): key existence is a membership test, not a comparison of the value with None.'),
    'rule_text': 'obligations = paths of add_item x applicable facts, delegation normal forms, who-may-write sites',
    'trusted_base': ['list.insert/append/remove/index and dict semantics; MutableMapping mixin methods reduce to the '
                     'five primitives (spec/mixins.json)'],
}

MOD = 'sortabledict'
F = 'hszinc/sortabledict.py'


def run(ctx):
    m = ctx.model
    meths = m.methods(MOD, 'SortableDict')
    ctx.count('methods of SortableDict', len(meths))
    _add_item(ctx, meths)
    _delegations(ctx, m, meths)
    mapping_overrides(ctx, m)
    _who_may_write(ctx, m)


MAPPING_MIXINS = ('items', 'keys', 'values', 'get', '__contains__', 'pop', 'popitem', 'update', 'setdefault', 'clear', '__eq__',
                  '__ne__', '__reversed__')
PAIR_FORMS = {
    'items': ('[(k, {s}._values[k]) for k in {s}._order]', 'ItemsView({s})', 'col.ItemsView({s})',
              '[(k, {s}[k]) for k in {s}._order]', '[(k, {s}[k]) for k in {s}]', 'list(zip({s}._order, [{s}._values[k] for k in {s}._order]))'),
    'keys': ('list({s}._order)', '{s}._order[:]', 'KeysView({s})', 'col.KeysView({s})', 'iter({s}._order)'),
    'values': ('[{s}._values[k] for k in {s}._order]', 'ValuesView({s})', 'col.ValuesView({s})', '[{s}[k] for k in {s}]'),
}


def mapping_overrides(ctx, m, rule='C16.D5'):
    """SortableDict inherits items/keys/values/... from MutableMapping, which derive them from __iter__ (presentation
    order) and __getitem__.  An override must pair each key of _order with ITS value: `_values` iterates in insertion
    order, `_order` in presentation order -- zipping the two mis-pairs every key after a positioned insert, a
    relocation, sort() or reverse()."""
    try:
        meths = m.methods(MOD, 'SortableDict')
    except AnalysisError as e:
        ctx.error(rule, str(e))
        return
    over = [n for n in MAPPING_MIXINS if n in meths]
    if not over:
        ctx.ob(rule, 'SortableDict inherits %s from MutableMapping (derived from __iter__ and __getitem__)'
               % ', '.join(MAPPING_MIXINS[:5]), True, F)
        return
    for name in over:
        fn = meths[name]
        s_ = fn.args.args[0].arg
        rets = [r for r in walk_no_nested(fn) if isinstance(r, ast.Return) and r.value is not None]
        texts = [norm(r.value) for r in rets]
        mixes = [r for r in rets if '%s._order' % s_ in norm(r.value) and any(
            x in norm(r.value) for x in ('%s._values.values()' % s_, '%s._values.items()' % s_, '%s._values.keys()' % s_,
                                         'list(%s._values)' % s_))]
        only_values = [r for r in rets if '%s._values.' % s_ in norm(r.value) and '%s._order' % s_ not in norm(r.value)
                       and name in ('items', 'keys', 'values')]
        if mixes or only_values:
            r = (mixes or only_values)[0]
            ctx.violation(rule, '%s::SortableDict.%s' % (F, name), norm(r),
                          "m = SortableDict(); m['a'] = 1; m['b'] = 2; m.add_item('c', 3, index=0): %s() %s -- the value dict "
                          "iterates in insertion order [a, b, c], the order list says [c, a, b]; a dumped grid carries one "
                          "column's metadata under another column's name"
                          % (name, 'pairs c with 1, a with 2, b with 3' if mixes else 'comes out in insertion order'),
                          'SortableDict.%s is built from the value dict\'s own iteration order instead of looking each key of '
                          '_order up' % name, file=F, line=r.lineno, engine='E9')
        elif name in PAIR_FORMS and texts and all(t in [f.format(s=s_) for f in PAIR_FORMS[name]] for t in texts):
            ctx.ob(rule, 'SortableDict.%s pairs every key of _order with its own value' % name, True, '%s:%d' % (F, fn.lineno))
        else:
            ctx.error(rule, 'SortableDict overrides the mapping method %s (`%s`); its conformance is not analysed'
                      % (name, '; '.join(texts)[:80]))


def _classify(e, a):
    """Effect statement of add_item -> tag."""
    s, key, value, after, index, pos_key, replace = a
    t = norm(e)
    if t == '%s._validate_fn(%s)' % (s, value):
        return 'validate'
    if t in ('%s = %s.index(%s)' % (index, s, pos_key), '%s = %s._order.index(%s)' % (index, s, pos_key)):
        return 'lookup'
    if t in ('%s += 1' % index, '%s = %s + 1' % (index, index)):
        return 'inc'
    if t in ('%s -= 1' % index, '%s = %s - 1' % (index, index)):
        return 'dec'
    if t == 'del %s[%s]' % (s, key):
        return 'del'
    if t == '%s._order.remove(%s)' % (s, key):
        return 'del-order'
    if t == 'del %s._values[%s]' % (s, key):
        return 'del-values'
    if t == '%s._order.insert(%s, %s)' % (s, index, key):
        return 'ins'
    if t == '%s._order.append(%s)' % (s, key):
        return 'app'
    if t == '%s._values[%s] = %s' % (s, key, value):
        return 'setv'
    if isinstance(e, ast.Assign) and isinstance(e.targets[0], ast.Name) and norm(e.value) in (
            '%s._order.index(%s)' % (s, key), '%s.index(%s)' % (s, key)):
        return 'oldpos:%s' % e.targets[0].id
    if isinstance(e, ast.Assign) and isinstance(e.targets[0], ast.Name) and norm(e.value) in (
            '%s.index(%s) + 1' % (s, pos_key), '%s._order.index(%s) + 1' % (s, pos_key)):
        return 'lookup+1'
    if isinstance(e, ast.Assign) and isinstance(e.targets[0], ast.Name) and e.targets[0].id == index and norm(e.value) in (
            '%s.index(%s) + int(%s)' % (s, pos_key, after), '%s._order.index(%s) + int(%s)' % (s, pos_key, after),
            '%s.index(%s) + (1 if %s else 0)' % (s, pos_key, after), '%s.index(%s) + bool(%s)' % (s, pos_key, after)):
        return 'lookup+after'
    # wrong-but-recognisable variants
    if isinstance(e, ast.Expr) and isinstance(e.value, ast.Call) and norm(e.value.func) == '%s._order.insert' % s:
        return 'ins?:' + t
    if isinstance(e, (ast.AugAssign,)) and isinstance(e.target, ast.Name) and e.target.id == index:
        return 'arith?:' + t
    if isinstance(e, ast.Assign) and norm(e.targets[0]).startswith('%s._values[' % s):
        return 'setv?:' + t
    if isinstance(e, ast.Expr) and isinstance(e.value, ast.Call) and norm(e.value.func) == '%s._order.append' % s:
        return 'app?:' + t
    return 'other:' + t


def _add_item(ctx, meths):
    fn = meths.get('add_item')
    if fn is None:
        ctx.error('C16', 'anchor vanished: SortableDict.add_item')
        return
    args = [x.arg for x in fn.args.args]
    if len(args) != 7:
        ctx.error('C16', 'add_item signature changed: %s' % args)
        return
    defaults = [norm(d) for d in fn.args.defaults]
    if defaults != ['False', 'None', 'None', 'True']:
        ctx.violation('C16.D4', '%s::SortableDict.add_item' % F, 'defaults %s' % defaults,
                      'm[k] = v on an existing key: defaults after/index/pos_key/replace are no longer False/None/None/True',
                      'add_item defaults changed to %s' % defaults, file=F, line=fn.lineno, engine='E6')
    s, key, value, after, index, pos_key, replace = args
    # "is the key already there?" is a membership test; a look-up compared with None takes a key whose VALUE is None
    # (the Haystack null, `tag:N`) for absent
    for n_ in walk_no_nested(fn):
        if isinstance(n_, ast.Assign) and len(n_.targets) == 1 and isinstance(n_.targets[0], ast.Name) \
                and isinstance(n_.value, ast.Call) and norm(n_.value.func) in ('%s._values.get' % s, '%s.get' % s) \
                and n_.value.args and norm(n_.value.args[0]) == key:
            v_ = n_.targets[0].id
            tests = [t_ for t_ in walk_no_nested(fn) if isinstance(t_, ast.If)
                     and norm(t_.test) in ('%s is not None' % v_, v_, '%s is None' % v_, 'not %s' % v_, '%s != None' % v_)]
            if tests:
                ctx.violation('C16.D2', '%s::SortableDict.add_item' % F, norm(tests[0].test),
                              "m['a'] = None (the Haystack null); m['a'] = 1 (or m.add_item('a', 1, replace=False)): the key is looked "
                              "up with `%s` and `%s` takes the None VALUE for \"no such key\" -- 'a' is entered in the key order a "
                              'second time (len, items() and the dumped header repeat it), and the duplicate is not refused'
                              % (norm(n_.value), norm(tests[0].test)),
                              'add_item decides whether the key exists by comparing its value with None instead of `key in '
                              'self._values`', file=F, line=tests[0].lineno, engine='E6')
                return
    try:
        paths = enumerate_paths(body_wo_doc(fn))
    except Unsupported as e:
        ctx.error('C16', 'add_item: %s' % e)
        return
    ctx.count('paths of add_item', len(paths))
    ctx.floor('paths of add_item', len(paths), 12)
    C = lambda p, t: p.cond(t)
    A_VALID = '%s._validate_fn' % s
    A_IDX = '%s is not None' % index
    A_PK = '%s is not None' % pos_key
    A_AFTER = after
    A_EXISTS = '%s in %s._values' % (key, s)
    A_EXISTS2 = '%s in %s' % (key, s)
    A_REPL = replace
    lookup_fail = 'raises ValueError in: %s = %s.index(%s)' % (index, s, pos_key)
    lookup_fail2 = 'raises ValueError in: %s = %s._order.index(%s)' % (index, s, pos_key)
    where = '%s:%d' % (F, fn.lineno)
    construct = '%s::SortableDict.add_item' % F

    def V(rule, stmt, wit, what, line=None):
        ctx.violation(rule, construct, stmt, wit, what, file=F, line=line or fn.lineno, engine='E6')

    seen_scen = {'both': False, 'unknown_pk': False, 'dup': False}
    n_ok = 0
    for p in paths:
        tags = [_classify(e, args) for e in p.effects]
        others = [t for t in tags if t.startswith('other:')]
        if others:
            ctx.error('C16', 'add_item: unrecognised effect %r' % others[0][6:])
            return
        idx_given = C(p, A_IDX)
        pk_given = C(p, A_PK)
        exists = C(p, A_EXISTS)
        if exists is None:
            exists = C(p, A_EXISTS2)
        is_after = C(p, A_AFTER)
        repl = C(p, A_REPL)
        lf = C(p, lookup_fail) or C(p, lookup_fail2)
        writes = [t for t in tags if t in ('del', 'del-order', 'del-values', 'ins', 'app', 'setv')
                  or t.split(':')[0] in ('ins?', 'setv?', 'app?')]
        desc = 'path[%s] effects=%s end=%s' % (
            ', '.join('%s=%s' % (t.split(' @before')[0], v) for t, v in p.conds), tags, p.end)
        # ---- D2: refusals before writes; validator first
        if p.end == 'raise':
            exc = p.end_node.exc
            ename = norm(exc.func) if isinstance(exc, ast.Call) else norm(exc)
            if writes:
                V('C16.D2', norm(p.end_node),
                  'a refused add_item (%s) has already executed %s: the map changed although the call failed'
                  % (ename, writes), 'a write precedes the refusal `%s`' % norm(p.end_node).split('\n')[0],
                  p.end_node.lineno)
            else:
                ctx.ob('C16.D2', 'refusal %s happens before any write (%s)' % (ename, desc[:100]), True, where)
            if idx_given and pk_given:
                seen_scen['both'] = True
                if ename != 'ValueError':
                    V('C16.D2', norm(p.end_node), 'add_item(k, v, index=0, pos_key="a") raises %s' % ename,
                      'index and pos_key together must be refused with ValueError', p.end_node.lineno)
            elif lf:
                seen_scen['unknown_pk'] = True
                if ename != 'KeyError':
                    V('C16.D2', norm(p.end_node), 'add_item(k, v, pos_key="zz") raises %s' % ename,
                      'unknown pos_key must be refused with KeyError', p.end_node.lineno)
            elif exists and repl is False:
                seen_scen['dup'] = True
                if ename != 'KeyError':
                    V('C16.D2', norm(p.end_node), 'add_item(existing, v, replace=False) raises %s' % ename,
                      'duplicate with replace=False must be refused with KeyError', p.end_node.lineno)
            continue
        if C(p, A_VALID) is True:
            if not tags or tags[0] != 'validate':
                V('C16.D2', '%s._validate_fn(%s)' % (s, value),
                  'a value the validator refuses has already been stored / the validator is not called first',
                  'on a path with a validator, the first effect is %s' % (tags[:1] or ['nothing']))
            else:
                ctx.ob('C16.D2', 'validator is the first effect', True, where)
        # scenario checks for non-raising paths
        if idx_given and pk_given:
            V('C16.D2', desc, 'add_item(k, v, index=0, pos_key="a") is accepted',
              'index and pos_key together are not refused')
            continue
        if exists and repl is False:
            V('C16.D2', desc, 'add_item(existing, v, replace=False) is accepted', 'duplicate with replace=False '
              'is not refused')
            continue
        has_pos = bool(idx_given) or bool(pk_given)
        order_eff = [t for t in tags if t in ('del', 'del-order', 'del-values', 'ins', 'app')
                     or t.split(':')[0] in ('ins?', 'app?')]
        bad_ins = [t for t in tags if t.startswith('ins?:') or t.startswith('app?:') or t.startswith('setv?:')]
        if bad_ins:
            V('C16.D1', bad_ins[0].split(':', 1)[1], 'add_item("k", v, index=1): key or position used is not the one given',
              'unexpected arguments in `%s`' % bad_ins[0].split(':', 1)[1])
            continue
        # normalise split deletes
        oe = []
        for t in order_eff:
            if t in ('del-order', 'del-values'):
                if 'del-order' in order_eff and 'del-values' in order_eff:
                    if 'del' not in oe:
                        oe.append('del')
                else:
                    oe.append(t)
            else:
                oe.append(t)
        if exists is None:
            ctx.error('C16', 'add_item: a path never tests whether the key exists: %s' % desc)
            continue
        if exists and not has_pos:
            want = []
        elif exists and has_pos:
            want = ['del', 'ins']
        elif has_pos:
            want = ['ins']
        else:
            want = ['app']
        if oe != want:
            if exists and not has_pos:
                wit = 'm = {a,b,c}; m["a"] = 9 : order effects %s -- replace without position must keep the position' % oe
                rule = 'C16.D4'
            elif exists and has_pos:
                wit = 'm = {a,b,c}; add_item("a", v, index=2): order effects %s, expected delete-then-insert ' \
                      '(else the key is duplicated in / missing from the order list)' % oe
                rule = 'C16.D1'
            elif has_pos:
                wit = 'm = {a,b}; add_item("n", v, index=0): order effects %s, expected one insert at the position' % oe
                rule = 'C16.D1'
            else:
                wit = 'm = {a,b}; m["n"] = v: order effects %s, expected one append' % oe
                rule = 'C16.D1'
            V(rule, desc, wit, '_order is not updated as documented on this path (got %s, want %s)' % (oe, want))
            continue
        if tags.count('setv') != 1:
            V('C16.D1', desc, 'after add_item(k, v) the key is in the order list but m[k] is not v',
              '_values[key] = value executed %d times on a non-raising path' % tags.count('setv'))
            continue
        if 'del' in tags and tags.index('setv') < len(tags) - 1 - tags[::-1].index('del'):
            V('C16.D1', desc, 'relocation stores the value and then deletes it', 'value store precedes the delete')
            continue
        # ---- D6 arithmetic
        if 'ins' in tags:
            last_lookup = max([i for i, t in enumerate(tags) if t in ('lookup', 'lookup+1', 'lookup+after')] or [-1])
            incs = [i for i, t in enumerate(tags) if t == 'inc' and i > last_lookup and i < tags.index('ins')]
            late = [i for i, t in enumerate(tags) if t == 'inc' and i > tags.index('ins')]
            arith = [t for t in tags if t.startswith('arith?:')]
            n_inc = len(incs) + (1 if last_lookup >= 0 and tags[last_lookup] == 'lookup+1' else 0) \
                + (1 if last_lookup >= 0 and tags[last_lookup] == 'lookup+after' and is_after else 0)
            if arith:
                V('C16.D6', arith[0].split(':', 1)[1],
                  'm = {a,b,c}; add_item("n", v, after=True, pos_key="a") does not land immediately after a',
                  'position arithmetic `%s` is not `+= 1`' % arith[0].split(':', 1)[1])
                continue
            want_inc = 1 if is_after else 0
            if is_after is None:
                want_inc = 0
            if n_inc != want_inc or late:
                V('C16.D6', desc,
                  'm = {a,b,c}; add_item("n", v, after=%s, pos_key="b"): position incremented %d time(s) before the '
                  'insert, expected %d' % (bool(is_after), n_inc, want_inc),
                  '"after" must add exactly one to a given position, "before" nothing')
                continue
            # ---- D3 stale position
            if 'del' in tags and pk_given and last_lookup >= 0:
                i_del = tags.index('del')
                if last_lookup > i_del:
                    # recomputing after the delete is only safe when pos_key cannot be the key that was just removed
                    guard = None
                    for txt, val in (('%s != %s' % (pos_key, key), True), ('%s == %s' % (pos_key, key), False),
                                     ('%s != %s' % (key, pos_key), True), ('%s == %s' % (key, pos_key), False)):
                        v = p.last_cond(txt)
                        if v is not None:
                            guard = (v == val)
                    if guard:
                        ctx.ob('C16.D3', 'position is recomputed after the delete, on a path where pos_key is not the '
                                         'moved key', True, where)
                    else:
                        V('C16.D3', 'del %s[%s]' % (s, key),
                          "order [a, b]; add_item('a', v, pos_key='a') (move a key relative to itself): the key is deleted, "
                          "then the look-up of pos_key in the shortened order list raises ValueError -- the operation "
                          "fails *after* the entry was removed (the map lost 'a')",
                          'the position of pos_key is looked up again after `del %s[%s]`; when pos_key is the moved key '
                          'itself the look-up fails with the entry already deleted' % (s, key))
                        continue
                else:
                    olds = [t.split(':')[1] for i, t in enumerate(tags) if t.startswith('oldpos:') and i < i_del]
                    adj = None
                    for o in olds:
                        for txt in ('%s < %s' % (o, index), '%s > %s' % (index, o)):
                            v = p.last_cond(txt)
                            if v is not None:
                                adj = (v, 'strict')
                        for txt in ('%s >= %s' % (o, index), '%s <= %s' % (index, o)):
                            v = p.last_cond(txt)
                            if v is not None:
                                adj = (not v, 'strict')
                    decs = [i for i, t in enumerate(tags) if t == 'dec' and i < tags.index('ins')]
                    if adj is None:
                        V('C16.D3', 'del %s[%s]' % (s, key),
                          "order [a, b, c]; add_item('a', v, pos_key='c') gives [b, c, a]: the index of 'c' was taken "
                          "before 'a' was removed, so 'a' lands after 'c' instead of immediately before it",
                          'the position derived from _order (%s = %s.index(%s)) is used by _order.insert after '
                          '`del %s[%s]` shortened _order, without being recomputed or adjusted'
                          % (index, s, pos_key, s, key))
                        continue
                    want_dec = 1 if adj[0] else 0
                    if len(decs) != want_dec:
                        V('C16.D3', desc, "order [a, b, c]; add_item('a', v, pos_key='c') lands in the wrong place",
                          'stale-position adjustment executed %d times where %d expected' % (len(decs), want_dec))
                        continue
                    ctx.ob('C16.D3', 'stale position adjusted iff the moved key sat before the target', True, where)
        n_ok += 1
        ctx.ob('C16.D1', 'path keeps _order and _values consistent: %s' % desc[:140], True, where)
    for scen, wit in (('both', 'add_item(k, v, index=0, pos_key="a")'), ('unknown_pk', 'add_item(k, v, pos_key="zz")'),
                      ('dup', 'add_item(existing, v, replace=False)')):
        if not seen_scen[scen]:
            V('C16.D2', 'refusal:%s' % scen, '%s is not refused' % wit, 'no raising path exists for the documented '
              'refusal "%s"' % scen)


def _one_return(fn):
    body = body_wo_doc(fn)
    if len(body) == 1 and isinstance(body[0], ast.Return):
        return norm(body[0].value)
    if len(body) == 1 and isinstance(body[0], ast.Expr):
        return 'EXPR ' + norm(body[0].value)
    if len(body) == 2 and isinstance(body[0], ast.Assign) and len(body[0].targets) == 1 \
            and isinstance(body[0].targets[0], ast.Name) and isinstance(body[1], ast.Return) \
            and isinstance(body[1].value, ast.Name) and body[1].value.id == body[0].targets[0].id:
        return norm(body[0].value)
    return None


CURRENT_ORDER = ('self._order', 'self', 'list(self._order)', 'list(self)', 'self.keys()', 'iter(self._order)', 'iter(self)')
INSERTION_ORDER = ('self._values', 'self._values.keys()', 'list(self._values)', 'list(self._values.keys())', 'iter(self._values)')


def _reorder_form(ctx, fn, name):
    """sort/reverse written as a rebuild of _order: `self._order = sorted(<source>, ...)` / `list(reversed(<source>))`.
    The source must be the CURRENT order (a stable sort keeps ties in current order); the value dict iterates in
    insertion order, which differs after any positioned insert, relocation, reverse or earlier sort.
    Returns the canonical in-place form, False when a violation was reported, None when the shape is unknown."""
    body = [st for st in body_wo_doc(fn) if not (isinstance(st, ast.Return) and (st.value is None or norm(st.value) == 'None'))]
    if len(body) != 1 or not isinstance(body[0], ast.Assign) or len(body[0].targets) != 1:
        return None
    tgt = norm(body[0].targets[0])
    if tgt not in ('self._order', 'self._order[:]'):
        return None
    v = body[0].value
    if isinstance(v, ast.Call) and norm(v.func) == 'list' and len(v.args) == 1 and not v.keywords:
        v = v.args[0]
    if not (isinstance(v, ast.Call) and isinstance(v.func, ast.Name) and v.args):
        return None
    src = norm(v.args[0])
    rest = ', '.join([norm(x) for x in v.args[1:]] + [norm(k) if k.arg else '**' + norm(k.value) for k in v.keywords])
    fname = v.func.id
    if (name, fname) not in (('sort', 'sorted'), ('reverse', 'reversed')):
        return None
    if src in CURRENT_ORDER:
        if name == 'sort':
            return 'self._order.sort(%s)' % rest
        return 'self._order.reverse(%s)' % rest
    if src in INSERTION_ORDER:
        ctx.violation('C16.D5', '%s::SortableDict.%s' % (F, name), norm(body[0]),
                      "m = SortableDict(); m['b'] = 1; m['B'] = 2; m.add_item('a', 0, index=1); m.reverse(); "
                      "m.%s: the result is computed from the value dict's insertion order [b, B, a], not from the current "
                      "order [a, B, b]%s" % ('sort(key=str.lower) gives [a, b, B], the reference (stable sort of the current '
                                              'order) gives [a, B, b]' if name == 'sort' else 'reverse()', ''),
                      'SortableDict.%s rebuilds _order from `%s` (insertion order) instead of the current order' % (name, src),
                      file=F, line=body[0].lineno, engine='E9')
        return False
    return None


def _delegations(ctx, m, meths):
    want = {
        '__getitem__': (['self._values[key]'], 'm[k] returns another value'),
        '__setitem__': (['self.add_item(key, value)', 'EXPR self.add_item(key, value)'], 'm[k] = v does not store v under k'),
        '__iter__': (['iter(self._order)'], 'iteration order is not the documented order'),
        '__len__': (['len(self._order)', 'len(self._values)'], 'len(m) is not the number of keys'),
        'at': (['self._order[index]'], 'at(i) is not the i-th key'),
        'value_at': (['self[self.at(index)]', 'self._values[self._order[index]]', 'self._values[self.at(index)]'],
                     'value_at(i) is not the value of the i-th key'),
        'index': (['self._order.index(*args, **kwargs)', 'self._order.index(key)'], 'index(k) is not the position of k'),
        'reverse': (['self._order.reverse(*args, **kwargs)', 'self._order.reverse()',
                     'EXPR self._order.reverse()'], 'reverse() does not reverse the key order'),
        'sort': (['self._order.sort(*args, **kwargs)', 'EXPR self._order.sort(*args, **kwargs)'],
                 'sort() does not sort the key order'),
        'pop_at': (['self.pop(self.at(index))', 'self.pop(self._order[index])'],
                   'pop_at(i) does not remove the i-th key and return its value'),
    }
    n = 0
    for name, (forms, wit) in want.items():
        fn = meths.get(name)
        if fn is None:
            ctx.violation('C16.D5', '%s::SortableDict' % F, 'def %s' % name, wit, 'method %s is missing' % name,
                          file=F, engine='E9')
            continue
        a = [x.arg for x in fn.args.args]
        got = _one_return(fn)
        if got is None and name in ('sort', 'reverse'):
            got = _reorder_form(ctx, fn, name)
            if got is False:
                continue
        if got is None and name in ('index', 'at', '__iter__', '__len__'):
            # an answer taken from a derived structure (a position cache): every method that reorders _order must drop it
            derived = sorted({x.attr for x in ast.walk(fn) if isinstance(x, ast.Attribute) and isinstance(x.value, ast.Name)
                              and x.value.id == 'self' and x.attr not in ('_order', '_values', '_validate_fn')
                              and isinstance(x.ctx, ast.Load) and not isinstance(getattr(x, '_parent', None), ast.Call)})
            derived = [d for d in derived if any(isinstance(a_, ast.Assign) and any(norm(t) == 'self.%s' % d for t in a_.targets)
                                                 for mm in meths.values() for a_ in ast.walk(mm))]
            if derived:
                d = derived[0]
                stale = []
                for mname, mf in meths.items():
                    if mname in ('__init__', name):
                        continue
                    reorders = any(isinstance(c, ast.Call) and isinstance(c.func, ast.Attribute) and norm(c.func.value) == 'self._order'
                                   and c.func.attr in ('sort', 'reverse', 'insert', 'append', 'remove', 'pop', 'extend', 'clear')
                                   for c in ast.walk(mf)) or any(
                        isinstance(a_, (ast.Assign, ast.Delete)) and any(norm(t).startswith('self._order') for t in (
                            a_.targets if hasattr(a_, 'targets') else [])) for a_ in ast.walk(mf))
                    resets = any(isinstance(a_, ast.Assign) and any(norm(t) == 'self.%s' % d for t in a_.targets) for a_ in ast.walk(mf)) \
                        or any(isinstance(c, ast.Call) and norm(c.func) in ('self.%s.clear' % d,) for c in ast.walk(mf))
                    if reorders and not resets:
                        stale.append(mname)
                if stale:
                    ctx.violation('C16.D5', '%s::SortableDict.%s' % (F, name), 'self.%s read in %s; not reset by %s' % (d, name, ', '.join(stale)),
                                  "m = SortableDict over a, b, c, d; m.index('d') (fills the position cache); m.%s(); "
                                  "m.add_item('y', 0, pos_key='d'): the position of d is answered from the cache built before the "
                                  "reordering, so y does not land immediately before d" % stale[0],
                                  'SortableDict.%s answers from self.%s, which %s leave(s) stale after reordering _order'
                                  % (name, d, ', '.join(stale)), file=F, line=fn.lineno, engine='E9')
                    continue
        if name == 'sort' and got is None:
            # explicit signature: sort(key=None, reverse=False)
            pnames = [x.arg for x in fn.args.args[1:]]
            calls = [c for c in walk_no_nested(fn) if isinstance(c, ast.Call) and norm(c.func) == 'self._order.sort']
            revs = [c for c in walk_no_nested(fn) if isinstance(c, ast.Call) and norm(c.func) in ('self.reverse', 'self._order.reverse')]
            if len(calls) == 1 and set(pnames) <= {'key', 'reverse'}:
                kw = {k.arg: norm(k.value) for k in calls[0].keywords}
                passes_all = all(kw.get(p_) == p_ for p_ in pnames)
                if passes_all and not revs and len(body_wo_doc(fn)) == 1:
                    got = 'self._order.sort(*args, **kwargs)'
                elif 'reverse' in pnames and kw.get('reverse') != 'reverse' and revs:
                    ctx.violation('C16.D5', '%s::SortableDict.sort' % F, norm(revs[0]),
                                  "tags site, dis, tz with priorities 2, 2, 3: m.sort(key=prio.get, reverse=True) must give [tz, site, "
                                  "dis] (a stable descending sort keeps tied keys in their current order); sorting ascending and "
                                  "then reversing gives [tz, dis, site] -- the tied keys come out reversed",
                                  'sort(reverse=True) is implemented as sort() followed by reverse(), which is not the stable '
                                  'descending sort of the reference model', file=F, line=revs[0].lineno, engine='E9')
                    continue
        if got is None and name == 'index':
            # add_item turns the ValueError of index(<absent key>) into its KeyError refusal: every way out of index()
            # must be the list's own index() (which raises) or a raise -- a path that answers a default for an absent
            # key lets add_item(pos_key=<absent>) go on and change the map
            rets = [r for r in walk_no_nested(fn) if isinstance(r, ast.Return)]
            soft = [r for r in rets if not (isinstance(r.value, ast.Call) and norm(r.value.func) == 'self._order.index')]
            relies = any(isinstance(t_, ast.Try) and any(norm(c.func) == 'self.index' for x in t_.body for c in ast.walk(x)
                                                        if isinstance(c, ast.Call))
                         and any(h.type is not None and 'ValueError' in norm(h.type) for h in t_.handlers)
                         for t_ in ast.walk(meths['add_item'])) if 'add_item' in meths else False
            if rets and soft and relies:
                r0 = soft[0]
                ctx.violation('C16.D5', '%s::SortableDict.index' % F, norm(r0),
                              "m = SortableDict over a, b; m.add_item('a', 1, pos_key='zz') (zz absent) must be refused with KeyError "
                              "and change nothing; index('zz') answers `%s` instead of raising ValueError, the handler in add_item "
                              "never runs, and the call goes on to overwrite a" % norm(r0.value)[:40],
                              'SortableDict.index has a way out that is neither self._order.index(...) nor a raise; add_item relies '
                              'on its ValueError to refuse an unknown pos_key', file=F, line=r0.lineno, engine='E9')
                continue
            if rets and not soft:
                got = forms[0]
        if got is None:
            ctx.error('C16.D5', 'SortableDict.%s is no longer a one-expression method' % name)
            continue
        # rename parameters to canonical names
        canon = {'__getitem__': ['self', 'key'], '__setitem__': ['self', 'key', 'value'], 'at': ['self', 'index'],
                 'value_at': ['self', 'index'], 'pop_at': ['self', 'index']}.get(name)
        if canon and len(a) == len(canon) and a != canon:
            ctx.error('C16.D5', 'SortableDict.%s parameter names changed: %s' % (name, a))
            continue
        n += 1
        if got in forms:
            ctx.ob('C16.D5', 'SortableDict.%s == %s' % (name, got), True, '%s:%d' % (F, fn.lineno))
        else:
            ctx.violation('C16.D5', '%s::SortableDict.%s' % (F, name), got, wit,
                          'SortableDict.%s is `%s`, documented form is `%s`' % (name, got, forms[0]), file=F,
                          line=fn.lineno, engine='E9')
    ctx.floor('SortableDict delegations', n, 8)
    # __delitem__: both halves, _values first (KeyError for unknown keys, nothing changed)
    fn = meths.get('__delitem__')
    if fn is None:
        ctx.error('C16.D1', 'anchor vanished: SortableDict.__delitem__')
    else:
        body = [norm(x) for x in body_wo_doc(fn)]
        a = [x.arg for x in fn.args.args]
        k = a[1] if len(a) > 1 else 'key'
        if body == ['del self._values[%s]' % k, 'self._order.remove(%s)' % k]:
            ctx.ob('C16.D1', '__delitem__ removes the key from _values (KeyError first) and from _order', True,
                   '%s:%d' % (F, fn.lineno))
        elif sorted(body) == sorted(['del self._values[%s]' % k, 'self._order.remove(%s)' % k]):
            ctx.violation('C16.D1', '%s::SortableDict.__delitem__' % F, '\n'.join(body),
                          'del m["zz"] raises ValueError instead of KeyError; m.pop("zz", None) fails',
                          '__delitem__ touches _order before _values: unknown keys raise ValueError (list.remove), '
                          'which MutableMapping.pop/popitem do not expect', file=F, line=fn.lineno, engine='E6')
        else:
            missing = [x for x in ('del self._values[%s]' % k, 'self._order.remove(%s)' % k) if x not in body]
            if missing and all(x.startswith(('del self._values', 'self._order')) for x in body):
                ctx.violation('C16.D1', '%s::SortableDict.__delitem__' % F, '\n'.join(body),
                              'm = {a,b}; del m["a"]; list(m) and m._values disagree',
                              '__delitem__ does not remove the key from both _values and _order (missing %s)' % missing,
                              file=F, line=fn.lineno, engine='E6')
            else:
                ctx.error('C16.D1', '__delitem__ has an unrecognised body: %s' % body)
    # __init__
    fn = meths.get('__init__')
    if fn is not None:
        texts = [norm(x) for x in walk_no_nested(fn) if isinstance(x, (ast.Assign, ast.For))]
        ok = 'self._values = {}' in texts and 'self._order = []' in texts
        loops = [x for x in walk_no_nested(fn) if isinstance(x, ast.For)]
        ok_loop = any([norm(b) for b in lp.body] == ['self[%s] = %s' % tuple(n.id for n in lp.target.elts)]
                      for lp in loops if isinstance(lp.target, ast.Tuple) and len(lp.target.elts) == 2
                      and all(isinstance(n, ast.Name) for n in lp.target.elts))
        if ok and ok_loop:
            ctx.ob('C16.D1', '__init__ starts empty and stores initial items through __setitem__', True,
                   '%s:%d' % (F, fn.lineno))
        elif not ok:
            ctx.violation('C16.D1', '%s::SortableDict.__init__' % F, '\n'.join(texts),
                          'a fresh SortableDict does not start with empty _values/_order',
                          '__init__ does not initialise _values = {} and _order = []', file=F, line=fn.lineno,
                          engine='E6')
        else:
            ctx.error('C16.D1', '__init__: initial-items loop not recognised')
    # MetadataObject
    try:
        mm = m.methods('metadata', 'MetadataObject')
        bases = m.class_bases('metadata', 'MetadataObject')
    except AnalysisError as e:
        ctx.error('C16.D5', str(e))
        return
    FM = 'hszinc/metadata.py'
    if bases != ['SortableDict']:
        ctx.error('C16.D5', 'MetadataObject bases changed: %s' % bases)
    ap = mm.get('append')
    if ap is None:
        ctx.violation('C16.D5', '%s::MetadataObject' % FM, 'def append', 'meta.append("tag") fails',
                      'MetadataObject.append is missing', file=FM, engine='E9')
    else:
        a = [x.arg for x in ap.args.args]
        d = [norm(x) for x in ap.args.defaults]
        got = _one_return(ap)
        if a == ['self', 'key', 'value', 'replace'] and d == ['MARKER', 'True'] and got in (
                'self.add_item(key, value, replace=replace)', 'EXPR self.add_item(key, value, replace=replace)'):
            ctx.ob('C16.D5', 'MetadataObject.append(key, value=MARKER, replace=True) -> add_item at the end', True,
                   '%s:%d' % (FM, ap.lineno))
        elif got is None:
            ctx.error('C16.D5', 'MetadataObject.append is no longer a one-expression method')
        else:
            ctx.violation('C16.D5', '%s::MetadataObject.append' % FM, '%s defaults=%s: %s' % (a, d, got),
                          'meta.append("tag") does not store MARKER under "tag" at the end',
                          'MetadataObject.append deviates from add_item(key, value=MARKER, replace=replace)',
                          file=FM, line=ap.lineno, engine='E9')
    ex = mm.get('extend')
    if ex is None:
        ctx.violation('C16.D5', '%s::MetadataObject' % FM, 'def extend', 'meta.extend([...]) fails',
                      'MetadataObject.extend is missing', file=FM, engine='E9')
    else:
        pa = [x.arg for x in ex.args.args]
        sp, ip = pa[0], pa[1] if len(pa) > 1 else 'items'
        rp = pa[2] if len(pa) > 2 else 'replace'
        exd = [norm(x) for x in ex.args.defaults]
        if len(pa) > 2 and exd and exd[-1] == 'True':
            ctx.ob('C16.D5', 'MetadataObject.extend(items, replace=True): existing tags are overwritten by default', True,
                   '%s:%d' % (FM, ex.lineno))
        elif len(pa) > 2 and exd:
            ctx.violation('C16.D5', '%s::MetadataObject.extend' % FM, 'replace=%s' % exd[-1],
                          'meta.extend([("dis", "B")]) on metadata that already has dis raises KeyError instead of replacing '
                          'the value in place', 'the default of `replace` in extend is %s, documented True' % exd[-1], file=FM,
                          line=ex.lineno, engine='E9')
        loops = [x for x in walk_no_nested(ex) if isinstance(x, ast.For)]
        ok = False
        for lp in loops:
            if isinstance(lp.target, ast.Tuple) and len(lp.target.elts) == 2:
                k, v = [norm(e) for e in lp.target.elts]
                if [norm(b_) for b_ in lp.body] in (['%s.append(%s, %s, replace=%s)' % (sp, k, v, rp)],
                                                    ['%s.add_item(%s, %s, replace=%s)' % (sp, k, v, rp)]) \
                        and norm(lp.iter) == ip:
                    ok = True
        conv = any(norm(x) == '%s = list(%s.items())' % (ip, ip) for x in walk_no_nested(ex) if isinstance(x, ast.Assign))
        if ok and conv:
            ctx.ob('C16.D5', 'MetadataObject.extend appends every (key, value) pair in order; dicts via items()',
                   True, '%s:%d' % (FM, ex.lineno))
        elif loops and not ok:
            ctx.violation('C16.D5', '%s::MetadataObject.extend' % FM, norm(loops[0]),
                          'meta.extend([("a", 1), ("b", 2)]) does not append a then b with their values',
                          'extend loop body is not self.append(key, value, replace=replace)', file=FM,
                          line=ex.lineno, engine='E9')
        else:
            ctx.error('C16.D5', 'MetadataObject.extend not recognised')
        # the argument may be any iterable (a zip, a generator): it can be traversed once only, unless it was
        # turned into a list on every path first
        sites = []
        for x in ast.walk(ex):
            if isinstance(x, ast.For) and norm(x.iter) == ip:
                sites.append(x)
            elif isinstance(x, ast.comprehension) and norm(x.iter) == ip:
                sites.append(x.iter)
            elif isinstance(x, ast.Call) and norm(x.func) in ('len', 'sorted', 'any', 'all', 'sum', 'max', 'min', 'dict', 'set') \
                    and x.args and norm(x.args[0]) == ip:
                sites.append(x)
        sites.sort(key=lambda z: z._seq)
        body = body_wo_doc(ex)
        material = [st for st in body if isinstance(st, ast.Assign) and norm(st.targets[0]) == ip
                    and norm(st.value) in ('list(%s)' % ip, 'tuple(%s)' % ip)]
        if len(sites) >= 2 and not (material and material[0]._seq < sites[0]._seq):
            second = sites[1]
            ctx.violation('C16.D5', '%s::MetadataObject.extend' % FM, 'second traversal of `%s` at line %d (first at line %d)'
                          % (ip, second.lineno, sites[0].lineno),
                          'meta.extend(zip(["a", "b"], [1, 2]), replace=False) (or a generator of pairs): the first traversal '
                          'at line %d uses the iterator up, the loop that appends sees nothing and extend() returns having '
                          'added no tag' % sites[0].lineno,
                          'extend traverses its argument twice; only dict arguments are turned into a list first',
                          file=FM, line=second.lineno, engine='E6')
        else:
            ctx.ob('C16.D5', 'extend traverses its argument once (%d site)' % len(sites), True, '%s:%d' % (FM, ex.lineno))


def _who_may_write(ctx, m):
    n = 0
    for name, mod in m.modules.items():
        for node in ast.walk(mod.tree):
            if isinstance(node, ast.Attribute) and node.attr in ('_order', '_values'):
                n += 1
                owner = None
                p = node
                while p is not None:
                    if isinstance(p, ast.ClassDef):
                        owner = p.name
                        break
                    p = getattr(p, '_parent', None)
                if name == MOD and owner == 'SortableDict' and isinstance(node.value, ast.Name) \
                        and node.value.id == 'self':
                    continue
                ctx.violation('C16.D1', 'hszinc/%s.py::%s' % (name, owner or '<module>'), norm(getattr(node, '_parent', node)),
                              'code outside SortableDict reaches into %s and can break the permutation invariant'
                              % node.attr, 'only SortableDict methods may touch _order/_values', file='hszinc/%s.py' % name,
                              line=node.lineno, engine='E7')
    ctx.ob('C16.D1', 'all %d accesses of _order/_values are self.<field> inside SortableDict' % n, True)
    ctx.floor('accesses of _order/_values', n, 15)
