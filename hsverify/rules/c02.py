"""C02 -- JSON round trip: parse(dump(g)) is g, for every valid grid."""
from __future__ import annotations

import ast

from .. import lang as L
from .. import spec as S
from .. import templates as TP
from ..lang import Unsupported
from ..model import AnalysisError, body_wo_doc, norm, walk_no_nested
from . import _json as J
from . import _zinc

META = {
    'level': 'other',
    'explanation': (
        'Static agreement between the JSON writer and hszinc\'s JSON reader.  (D1) dispatch: the isinstance ladder of '
        'jsondumper.dump_scalar sends every kind to its own encoder (and accepts the same kinds as the ZINC ladder).  '
        '(D2) prefix/cascade agreement: the reader is an ordered cascade of predicates (constants, isinstance, anchored '
        'regexes with MULTILINE `$` modelled exactly, startswith) extracted from the AST; for the regular template of '
        'every kind\'s encoded string, the only cascade entry that can be first to accept any of its strings is the '
        'entry that rebuilds that kind.  (D3) payload capture: with marker symbols at the writer\'s payload boundaries '
        'and at the regex groups the reader feeds to the constructor, every marked writer string is a full match and '
        'no other placement of the group boundaries is accepted (so the captured groups are exactly the payloads, '
        'whatever the regex engine\'s priorities); split() on a payload containing the separator needs maxsplit.  '
        '(D4) Remove is written x: below 3.0 and -: from 3.0, both read as Remove.  (D5) only numbers, quantities and '
        'coordinates use %f (documented six decimals); everything else is exact.  (D6) assembly: every meta item but '
        'ver, every column with its remaining keys, every row key reach the grid; every column of every row is '
        'emitted.  (D7) date-time payloads: the reader converts the written instant into the named zone with astimezone (never replace/localize on the aware value), the writer emits isoformat() of the value itself plus the zone name.  Also: the h: time fields are converted with int() on digit text (no float leg, fraction cut/padded as text); the reader consumes private copies only (freshness, shared with C05.D3); SortableDict.items() pairs keys with their own values (shared with C16.D5).  Not decided: numerical closeness; equality of rebuilt objects; json.dumps/loads (trusted).'
        ' Also (D2): the JSON reference branch decides presence of the display string by `is not None` (the group can match the empty text); Ref.__init__ has_value table.'
        " Also (D6): ordered structures are not built by walking a set expression; dict comprehensions over items() accepted in the assembly script.  A `%` whose left operand carries a value's own text is a violation (data as format)."
        ' Also: a greedy first group of a decode regex cannot swallow the separator (x:type:data cut at the first colon); number texts are not trimmed in exponent form.'
        ' Round 9: (D4) Version.nearest, which decides the Remove spelling and the 3.0 gates for every value, is a function of its argument (no class/module memo keyed by the numeric groups alone, no two-slot memo); (D7) no writer memo keyed by the value; (D6) dump() traverses its argument once per path.'),
    'rule_text': 'obligations = ladder rows, kinds x (first-accepting entry, inclusion, capture markers) x 2 versions, '
                 'Remove rule, precision per kind, assembly facts',
    'trusted_base': ['re semantics of `.match`, `^`, `$`+MULTILINE, `.` without DOTALL; json.dumps/json.loads round-trip '
                     'str/bool/None/list/dict'],
}

FD = J.FD
FJ = J.FJ
LOSSY_OK = {'int', 'float', 'Quantity', 'Quantity-nounit', 'Coordinate'}
EXAMPLE = {'Ref+dis': "Ref('a', %r)", 'Uri': 'Uri(%r)', 'Bin': 'Bin(%r)', 'XStr': "XStr('Foo', %r)", 'str': '%r',
           'Quantity': 'Quantity(1, %r)'}


def run(ctx):
    zl = _zinc.ladder_check(ctx, 'C02.D1', 'jsondumper', 'json')
    try:
        fn, p, entries = J.extract_cascade(ctx.model)
    except (Unsupported, AnalysisError) as e:
        ctx.error('C02.D2', 'decode cascade: %s' % e)
        return
    ctx.count('decode cascade entries', len(entries))
    ctx.floor('decode cascade entries', len(entries), 16)
    ctx.count('decoder regexes', len([e for e in entries if e.pred == 'regex']))
    ctx.floor('decoder regexes', len([e for e in entries if e.pred == 'regex']), 8)
    _type_order(ctx, entries)
    for version in ('3.0', '2.0'):
        for kind in _zinc.kinds_for(version):
            _kind(ctx, entries, kind, version)
    J.verbatim_payload(ctx, 'C02.D3', entries, fn)
    J.greedy_group_splits(ctx, 'C02.D3', entries)
    J.time_fields_exact(ctx, 'C02.D5', entries, fn)
    J.number_branch(ctx, 'C02.D2', entries, fn)
    from . import _parse
    _parse.set_iteration(ctx, 'C02.D6', ('jsonparser', 'jsondumper'))
    from . import _ref
    _ref.json_ref_branch(ctx, 'C02.D2')
    _zinc.number_text_edits(ctx, 'C02.D5', 'jsondumper')
    _ref.ref_init(ctx, 'C02.D2')
    J.parse_scalar_entry(ctx, 'C02.D2')
    # a pre-decoded document can be parsed again: the reader consumes private copies only (clause shared with C05.D3)
    from . import c05
    c05._freshness(ctx, rule='C02.D6')
    from . import c16
    c16.mapping_overrides(ctx, ctx.model, rule='C02.D6')
    # the Remove spelling and the 3.0-only gates are decided through Version.nearest on every value
    from . import c18
    c18.nearest_pure(ctx, 'C02.D4')
    from . import c07
    c07.writer_memo(ctx, 'C02.D7', 'jsondumper')
    from . import _dump as _d9
    _d9.single_traversal(ctx, 'C02.D6')
    _assembly(ctx)
    J.dumps_call(ctx, 'C02.D6')
    # a list of grids is dumped grid for grid (clauses shared with C06.D1)
    from . import c06
    c06._shape(ctx, rule='C02.D6')
    J.loads_calls(ctx, 'C02.D6')
    _zinc.version_threading(ctx, 'C02.D4', 'jsondumper')
    _zinc.header_version(ctx, 'C02.D6', 'jsondumper')
    # date-time payloads: the reader converts the written instant, the writer never converts (shared with C17.D2)
    from . import c17
    c17._api(ctx, ctx.model, rule='C02.D7', only=('jsonparser', 'jsondumper'))
    c17._timezone_name(ctx, ctx.model, rule='C02.D7')


def _type_order(ctx, entries):
    """python-typed inputs are recognised before the first string method is applied"""
    first_str_op = min([e.order for e in entries if e.pred in ('regex', 'prefix')] or [999])
    for e in entries:
        if e.pred == 'pytype':
            ok = e.order < first_str_op
            if ok:
                ctx.ob('C02.D2', 'the %s test precedes every regex/startswith of the cascade' % e.label(), True,
                       '%s:%d' % (FJ, e.node.lineno))
            else:
                ctx.violation('C02.D2', '%s::parse_embedded_scalar' % FJ, norm(e.node.test),
                              'a JSON true/number cell reaches RE.match(scalar) / scalar.startswith and raises '
                              'TypeError/AttributeError', '%s comes after the first string operation' % e.label(),
                              file=FJ, line=e.node.lineno, engine='E6')


def _own(entries, want):
    return [e for e in entries if want in e.builds]


def _kind(ctx, entries, kind, version, rule='C02.D2', rule3='C02.D3', rule5='C02.D5'):
    want = J.READ_AS[kind]
    try:
        rets, node, lad = J.writer_value(ctx, rule, kind, version)
    except (Unsupported, AnalysisError) as e:
        from .. import templates as _TPL
        if isinstance(e, _TPL.DataAsFormat):
            _TPL.report_data_as_format(ctx, rule, e, 'hszinc/jsondumper.py', 'hszinc/jsondumper.py::dump_scalar[%s]' % kind)
        else:
            ctx.error(rule, 'JSON writer value for %s (%s): %s' % (kind, version, e))
        return
    if rets is None:
        return
    where = '%s:%s' % (FD, node.lineno if node is not None else '?')
    for r in rets:
        if r[0] == 'raise':
            continue
        if r[0] == 'str':
            _string_kind(ctx, entries, kind, version, r[1], node, rule, rule3)
            continue
        # non-string JSON values
        if r == ('const', None):
            ok = any(e.pred == 'none' and 'None' in e.builds for e in entries)
            shape = 'null'
        elif r[0] == 'obj' and r[1] == 'bool':
            ok = any(e.pred == 'pytype' and 'bool' in e.pytypes and 'itself' in e.builds for e in entries)
            shape = 'true/false'
        elif r[0] == 'seq':
            ok = any(e.pred == 'pytype' and 'list' in e.pytypes for e in entries)
            shape = 'array'
        elif r[0] in ('pydictcomp', 'pydict', 'jsonobj'):
            ok = any(e.pred == 'pytype' and 'dict' in e.pytypes for e in entries)
            shape = 'object'
        else:
            ctx.error(rule, 'JSON value shape %r for kind %s not recognised' % (r[0], kind))
            continue
        if ok:
            ctx.ob(rule, 'v%s: %s is written as JSON %s, which the reader maps back by type' % (version, kind, shape), True,
                   where)
        else:
            ctx.violation(rule, '%s::parse_embedded_scalar' % FJ, 'JSON %s' % shape,
                          'a %s is written as JSON %s, which the reader has no branch for' % (kind, shape),
                          'no decode branch for JSON %s' % shape, file=FJ, engine='E1')
    # D5 precision
    strs = [r[1] for r in rets if r[0] == 'str']
    if strs and version == '3.0':
        lossy = tuple(x for t in strs for x in t.lossy)
        if lossy and kind not in LOSSY_OK:
            ctx.violation(rule5, '%s::dump_scalar[%s]' % (FD, kind), 'lossy conversion %s' % (lossy,),
                          'a %s loses precision on the way through JSON (e.g. microseconds dropped)' % kind,
                          'the JSON encoder of %s uses the lossy conversion %s; only numbers, quantities and coordinates '
                          'may (six decimals)' % (kind, ', '.join(lossy)), file=FD,
                          line=node.lineno if node is not None else None, engine='E4')
        else:
            ctx.ob(rule5, '%s: %s' % (kind, 'documented %f precision' if lossy else 'exact conversions only'), True, where)


def _string_kind(ctx, entries, kind, version, tmpl, node, rule='C02.D2', rule3='C02.D3'):
    want = J.READ_AS[kind]
    where = '%s:%s' % (FD, node.lineno if node is not None else '?')
    line = node.lineno if node is not None else None
    try:
        hits = J.first_hits(entries, tmpl.rx, max_hits=len(entries))
    except Unsupported as e:
        ctx.error(rule, 'cascade dispatch of %s: %s' % (kind, e))
        return
    own = None
    for e, w in hits:
        builds = set(e.builds)
        if want in builds or (want == 'str' and e.pred == 'prefix' and 'str' in builds):
            own = own or e
            continue
        text = J.show(w)
        if e.pred == 'default':
            became = 'returned unchanged as the plain string %r' % text
        else:
            became = 'decoded by %s as %s' % (e.label(), sorted(builds))
        # is it a truncating match of the own regex?
        trunc = ''
        for o in _own(entries, want):
            if o.pred == 'regex':
                try:
                    if L.accepts(o.regex[2].truncating_lang(), w):
                        trunc = ' (%s matches only up to the line break and drops the rest)' % o.regex[0]
                except Unsupported:
                    pass
        ctx.violation(rule, '%s::parse_embedded_scalar' % FJ, 'writer(%s) vs %s' % (kind, e.label()),
                      'dump then parse of a %s: the writer can emit the JSON string %r; no earlier branch takes it and '
                      'it is %s%s' % (kind, text, became, trunc),
                      'for the encoded form of %s the first cascade entry that accepts some of its strings is %s, which '
                      'does not rebuild a %s' % (kind, e.label(), want), file=FJ, line=e.node.lineno, engine='E3')
    if own is None:
        if not hits:
            ctx.error(rule, 'no cascade entry accepts the encoded form of %s' % kind)
        return
    if all((want in e.builds) for e, w in hits):
        ctx.ob(rule, 'v%s: every encoded %s is first accepted by %s, which rebuilds %s' % (version, kind, own.label(), want),
               True, where)
    # own entry must not be accepted by truncation: the capture check
    _capture(ctx, own, kind, version, node, rule3)


def _capture(ctx, own, kind, version, node, rule='C02.D3'):
    want = J.READ_AS[kind]
    where = '%s:%d' % (FJ, own.node.lineno)
    if own.pred == 'const':
        ctx.ob(rule, 'v%s: %s is recognised by equality with a constant' % (version, kind), True, where)
        return
    if own.pred == 'prefix':
        if own.split is not None:
            sep, mx, frm = own.split
            arity = 2
            if frm != len(own.prefix):
                ctx.violation(rule, '%s::parse_embedded_scalar' % FJ, 'scalar[%s:]' % frm,
                              'the payload is cut at the wrong place', 'slice start %s != len(%r)' % (frm, own.prefix),
                              file=FJ, line=own.node.lineno, engine='E9')
            if mx is None or mx != arity - 1:
                ctx.violation(rule, '%s::parse_embedded_scalar' % FJ, norm(own.returns[0][0]),
                              "XStr('Foo', 'a:b') is written \"x:Foo:a:b\"; split(%r) without maxsplit yields 3 parts and "
                              "XStr(*parts) raises TypeError" % sep,
                              'the payload of %s may contain the separator %r, but the reader splits without '
                              'maxsplit=%d before star-unpacking into a %d-argument constructor' % (kind, sep, arity - 1, arity),
                              file=FJ, line=own.node.lineno, engine='E9')
            else:
                ctx.ob(rule, 'v%s: %s payload is split once at the first %r' % (version, kind, sep), True, where)
            # the writer must put exactly that separator between a first payload that cannot contain it and the rest
            try:
                rets, _, _ = J.writer_value(ctx, rule, kind, version, mark=True)
                tm = TP.Tmpl.union([r[1] for r in rets if r[0] == 'str'])
                nosep = L.rstar(L.rset(L.iv_compl(L.iv_chars(sep))))
                shape = L.rcat(L.rlit(own.prefix), L.rsym(TP.p_open(0)), nosep, L.rsym(TP.p_close(0)), L.rlit(sep),
                               L.rsym(TP.p_open(1)), L.rany_star(), L.rsym(TP.p_close(1)))
                w = L.find_not_included(tm.rx, shape, max_witnesses=1)
                if w:
                    ctx.violation(rule, '%s::dump_scalar[%s]' % (FD, kind), 'writer(%s) vs split(%r, 1)' % (kind, sep),
                                  'the writer emits %r; splitting it once at %r does not give back (type, data)' % (
                                      J.show(w[0]), sep),
                                  'the encoded %s is not `%s<type>%s<data>` with a type that cannot contain %r' % (
                                      kind, own.prefix, sep, sep), file=FD, line=node.lineno if node is not None else None,
                                  engine='E3')
                else:
                    ctx.ob(rule, 'v%s: encoded %s is %r type %r data, type without %r' % (version, kind, own.prefix, sep, sep),
                           True, where)
            except (Unsupported, AnalysisError) as e:
                ctx.error(rule, 'split shape of %s: %s' % (kind, e))
            return
        if own.slice_from == len(own.prefix):
            ctx.ob(rule, 'v%s: %s payload is everything after the %d-character prefix' % (version, kind, len(own.prefix)),
                   True, where)
        else:
            ctx.violation(rule, '%s::parse_embedded_scalar' % FJ, 'scalar[%s:]' % own.slice_from,
                          'the string "abc" comes back with a character missing or the prefix still attached',
                          'slice start %s != len(%r)' % (own.slice_from, own.prefix), file=FJ, line=own.node.lineno,
                          engine='E9')
        return
    if own.pred != 'regex':
        return
    # marker analysis
    try:
        rets, _, _ = J.writer_value(ctx, rule, kind, version, mark=True)
    except (Unsupported, AnalysisError) as e:
        ctx.error(rule, 'marked template for %s: %s' % (kind, e))
        return
    tm = [r[1] for r in rets if r[0] == 'str']
    if not tm:
        return
    tm = TP.Tmpl.union(tm)
    n_pay = _count_markers(tm.rx)
    cands = [g for _, k, g in own.returns if want in k.split('|')]
    all_groups = sorted({x for _, _, g in own.returns for x in g})
    rname, rc, pr = own.regex
    chosen = [g for g in cands if len(g) == n_pay]
    if not chosen or kind in ('date', 'time', 'datetime'):
        # payload not split the same way on both sides: inclusion in the full-match language only
        try:
            plain = L.erase_symbols(tm.rx, ((L.SYM_BASE + 0x800, L.SYM_BASE + 0x8FF),))
            w = L.find_not_included(plain, pr.full(), max_witnesses=2)
        except Unsupported as e:
            ctx.error(rule, '%s: %s' % (rname, e))
            return
        if w:
            ctx.violation(rule, '%s::%s' % (FJ, rname), rc.pattern,
                          'the encoded %s %r is matched by %s only in part (or only up to a line break)' % (
                              kind, J.show(w[0]), rname),
                          '%s does not match every encoded %s over its whole length' % (rname, kind), file=FJ,
                          line=own.node.lineno, engine='E3')
        else:
            ctx.ob(rule, 'v%s: every encoded %s is matched by %s over its whole length' % (version, kind, rname), True, where)
        return
    gis = chosen[0]
    try:
        prm = L.PyRegex(rc.pattern, rc.flags, mark_groups=tuple(all_groups))
        mapping = {}
        for i, gidx in enumerate(gis):
            mapping[TP.p_open(i)] = L.open_sym(gidx)
            mapping[TP.p_close(i)] = L.close_sym(gidx)
        t_marked = _rename(tm.rx, mapping)
        markers = L.iv_norm([(L.open_sym(g), L.close_sym(g)) for g in all_groups])
        t_plain = L.erase_symbols(t_marked, markers)
        w1 = L.find_not_included(t_marked, prm.full(marked=True), max_witnesses=2)
    except Unsupported as e:
        ctx.error(rule, 'capture analysis of %s: %s' % (rname, e))
        return
    ex = EXAMPLE.get(kind, '<%s with payload %%r>' % kind)
    if w1:
        text = J.show([c for c in w1[0] if c < L.SYM_BASE])
        payload = _payload_of(w1[0], gis)
        trunc = False
        try:
            trunc = L.accepts(pr.truncating_lang(), [c for c in w1[0] if c < L.SYM_BASE])
        except Unsupported:
            pass
        ctx.violation(rule, '%s::%s' % (FJ, rname), rc.pattern,
                      'dump then parse of %s: the JSON string %r is %s by %s, so group(s) %s do not capture the whole '
                      'payload' % (ex % payload if '%r' in ex else ex, text,
                                   'matched only up to the line break (MULTILINE `$`, `.` without DOTALL)' if trunc
                                   else 'not matched over its whole length', rname, gis),
                      '%s (flags %d) does not capture the payload of %s exactly: the marked writer string has no full '
                      'match with the groups at the payload boundaries' % (rname, rc.flags, kind), file=FJ,
                      line=own.node.lineno, engine='E3')
        return
    try:
        w2 = J._common_not_in(prm.full(marked=True), L.with_free_symbols(t_plain, markers), t_marked)
    except Unsupported as e:
        ctx.error(rule, 'ambiguity analysis of %s: %s' % (rname, e))
        return
    if w2 is not None:
        # The split is not unique as a language fact.  Python's engine resolves it by priority (greedy
        # quantifiers, alternation order): validate the witness string against the pattern itself.
        plain = ''.join(chr(c) for c in w2 if c < L.SYM_BASE)
        try:
            intended = L.find_common(t_marked, L.with_free_symbols(L.rlit(plain), markers))
        except Unsupported:
            intended = None
        benign = False
        if intended is not None:
            import re as _re
            try:
                mo = _re.compile(rc.pattern, rc.flags).match(plain)
            except _re.error:
                mo = None
            if mo is not None and mo.end() == len(plain):
                benign = all((mo.group(g) or '') == _group_text(intended, g) for g in gis) and \
                    all(mo.group(g) is None for g in all_groups if g not in gis)
        if benign:
            ctx.ob(rule, 'v%s: %s: %s admits a second split of %r, but the engine\'s priorities (greedy groups) pick '
                         'the writer\'s split' % (version, kind, rname, plain), True, where)
            ctx.note('%s: language-level ambiguity on %r resolved by regex priority (validated on the witness)' % (rname, plain))
            return
        ctx.violation(rule, '%s::%s' % (FJ, rname), rc.pattern,
                      'the encoded %s %r also matches with the group boundaries elsewhere: %r' % (
                          kind, J.show([c for c in w2 if c < L.SYM_BASE]), J.show(w2)),
                      '%s can split an encoded %s between its groups in more than one way' % (rname, kind), file=FJ,
                      line=own.node.lineno, engine='E3')
    else:
        ctx.ob(rule, 'v%s: %s: groups %s of %s capture exactly the writer\'s payloads (full match, unique split)'
               % (version, kind, gis, rname), True, where)


def _group_text(word, g):
    o, c = L.open_sym(g), L.close_sym(g)
    out = []
    inside = False
    for s_ in word:
        if s_ == o:
            inside = True
        elif s_ == c:
            inside = False
        elif inside and s_ < L.SYM_BASE:
            out.append(chr(s_))
    return ''.join(out)


def _payload_of(word, gis):
    """text between the markers of the last group in a marked word"""
    if not gis:
        return ''
    o, c = L.open_sym(gis[-1]), L.close_sym(gis[-1])
    out = []
    inside = False
    for s in word:
        if s == o:
            inside = True
        elif s == c:
            inside = False
        elif inside and s < L.SYM_BASE:
            out.append(chr(s))
    return ''.join(out)


def _count_markers(rx):
    syms = set()

    def go(r):
        if r[0] == 'set':
            for lo, hi in r[1]:
                if lo >= L.SYM_BASE + 0x800 and hi < L.SYM_BASE + 0x900:
                    for x in range(lo, hi + 1):
                        syms.add(x)
        elif r[0] in ('cat', 'alt'):
            for x in r[1]:
                go(x)
        elif r[0] == 'star':
            go(r[1])
    go(rx)
    return len({(s - L.SYM_BASE - 0x800) // 2 for s in syms})


def _rename(rx, mapping):
    k = rx[0]
    if k == 'set':
        ivs = rx[1]
        if len(ivs) == 1 and ivs[0][0] == ivs[0][1] and ivs[0][0] in mapping:
            s = mapping[ivs[0][0]]
            return ('set', ((s, s),))
        return rx
    if k in ('cat', 'alt'):
        return (k, [_rename(x, mapping) for x in rx[1]])
    if k == 'star':
        return ('star', _rename(rx[1], mapping))
    return rx


def remove_rule(ctx, entries, rule='C02.D4'):
    got = {}
    for version in ('2.0', '3.0'):
        try:
            rets, node, _ = J.writer_value(ctx, rule, 'REMOVE', version)
        except (Unsupported, AnalysisError) as e:
            ctx.error(rule, str(e))
            return
        strs = [r[1] for r in rets if r[0] == 'str']
        texts = set()
        for t in strs:
            w = L.shortest(t.rx)
            texts.add(J.show(w) if w is not None else None)
        got[version] = texts
    where = FD
    if got.get('2.0') == {'x:'} and got.get('3.0') == {'-:'}:
        ctx.ob(rule, 'Remove is written "x:" below 3.0 and "-:" from 3.0', True, where)
    else:
        ctx.violation(rule, '%s::dump_scalar[REMOVE]' % FD, 'REMOVE spelling %s' % got,
                      'a 2.0 grid writes Remove as %s and a 3.0 grid as %s' % (sorted(got.get('2.0', [])), sorted(got.get('3.0', []))),
                      'the Remove spelling does not follow the version (2.0: x:, 3.0: -:)', file=FD, engine='E4')
    for s_ in ('x:', '-:'):
        if any(e.pred == 'const' and s_ in e.consts and 'REMOVE' in e.builds for e in entries):
            ctx.ob(rule, 'the reader maps %r to Remove' % s_, True, FJ)
        else:
            ctx.violation(rule, '%s::parse_embedded_scalar' % FJ, 'scalar == %r' % s_,
                          'the JSON string %r is not read back as Remove' % s_, 'no constant branch maps %r to REMOVE' % s_,
                          file=FJ, engine='E1')


def _assembly(ctx):
    m = ctx.model
    try:
        fn, p, entries = J.extract_cascade(m)
        remove_rule(ctx, entries)
    except (Unsupported, AnalysisError) as e:
        ctx.error('C02.D4', str(e))
    try:
        pg = m.func('jsonparser', 'parse_grid')
    except AnalysisError as e:
        ctx.error('C02.D6', str(e))
        return
    from .. import match
    fns = [f_ for f_ in match.with_local_callees(m, 'jsonparser', pg) if f_.name not in ('parse_embedded_scalar', 'parse_scalar')]
    sc = match.Script(ctx, 'C02.D6', fns, FJ, '%s::parse_grid' % FJ, engine='E7')
    sc.need(['_R_parsed = json.loads(_R_input)'], 'text input is decoded with json.loads', 'a JSON text is not decoded')
    sc.need(["_R_meta = _R_parsed.pop('meta')", "_R_meta = _R_parsed['meta']"], 'the meta object is taken from the document',
            'grid metadata is lost')
    sc.need(["_R_version = Version(_R_meta.pop('ver'))"], 'the version is meta.ver (and is removed from the metadata)',
            'the parsed grid has the wrong version, or `ver` shows up as a metadata tag')
    # (a dict comprehension over items() is the loop and the store in one statement)
    if sc.need(['_R_metadata = {_R_mname: parse_embedded_scalar(_R_mvalue, version=_R_version) for (_R_mname, _R_mvalue) in _R_meta.items()}'],
               'grid metadata is decoded item by item in document order (dict comprehension over items())',
               'grid metadata comes back in another order', optional=True) is None:
        sc.need(['for (_R_mname, _R_mvalue) in _R_meta.items():\n    pass'], 'grid metadata is visited in document order',
                'grid metadata comes back in another order')
        sc.need(['_R_metadata[_R_mname] = parse_embedded_scalar(_R_mvalue, version=_R_version)'],
                'every remaining meta item is decoded into the grid metadata', 'grid metadata items are dropped or mis-keyed')
    sc.need(['_R_grid = Grid(version=_R_version, metadata=_R_metadata)'], 'the grid is built with that version and metadata',
            'version/metadata do not reach the grid')
    sc.need(["for _R_col in _R_parsed.pop('cols'):\n    pass", "for _R_col in _R_parsed['cols']:\n    pass"],
            'columns are read in document order', 'columns come back in another order')
    sc.need(["_R_cname = _R_col.pop('name')"], 'each column takes its name from cols[].name (removed from its metadata)',
            'columns lose their names, or `name` shows up as column metadata')
    if sc.need(['_R_cmeta = {_R_ckey: parse_embedded_scalar(_R_cvalue, version=_R_version) for (_R_ckey, _R_cvalue) in _R_col.items()}'],
               'column metadata is decoded item by item in document order (dict comprehension over items())',
               'column metadata comes back in another order', optional=True) is None:
        sc.need(['for (_R_ckey, _R_cvalue) in _R_col.items():\n    pass'], 'column metadata is visited in document order',
                'column metadata comes back in another order')
        sc.need(['_R_cmeta[_R_ckey] = parse_embedded_scalar(_R_cvalue, version=_R_version)'],
                'the remaining keys of a column are decoded as its metadata', 'column metadata is dropped')
    sc.need(['_R_grid.column[_R_cname] = _R_cmeta'], 'columns are added with their metadata', 'columns are lost or lose their metadata')
    sc.need(["for _R_row in _R_parsed.pop('rows', []) or []:\n    pass"],
            'rows may be missing or null, and are read in document order',
            'a grid object without rows (or with rows: null) raises, or rows come back in another order',
            bad=["for _R_row in _R_parsed.pop('rows'):\n    pass", "for _R_row in _R_parsed['rows']:\n    pass",
                 "for _R_row in _R_parsed.pop('rows', []):\n    pass", "for _R_row in _R_parsed.get('rows'):\n    pass",
                 "for _R_row in _R_parsed.get('rows', []):\n    pass"])
    if sc.need(['_R_grid.append({_R_rcol: parse_embedded_scalar(_R_rvalue, version=_R_version) for (_R_rcol, _R_rvalue) in _R_row.items()})'],
               'every cell of a row is decoded and the row appended (dict comprehension over items())', 'cells are dropped',
               optional=True) is None:
        if sc.need(['_R_prow = {_R_rcol: parse_embedded_scalar(_R_rvalue, version=_R_version) for (_R_rcol, _R_rvalue) in _R_row.items()}'],
                   'every cell of a row is decoded (dict comprehension over items())', 'cells are dropped', optional=True) is None:
            sc.need(['for (_R_rcol, _R_rvalue) in _R_row.items():\n    pass'], 'every key of a row is visited', 'cells are dropped')
            sc.need(['_R_prow[_R_rcol] = parse_embedded_scalar(_R_rvalue, version=_R_version)'], 'every cell of a row is decoded',
                    'cells are dropped or stored under the wrong column')
        sc.need(['_R_grid.append(_R_prow)'], 'rows are appended in document order', 'rows are lost')
    sc.need(['return _R_grid'], 'the assembled grid is returned', 'parse returns something else than the grid')
    # writer side shape
    try:
        dg = m.func('jsondumper', '_dump_grid_to_json')
        ret = [n for n in walk_no_nested(dg) if isinstance(n, ast.Return)]
        d = ret[0].value if ret else None
        if isinstance(d, ast.Name):
            defs = [st for st in ast.walk(dg) if isinstance(st, ast.Assign) and norm(st.targets[0]) == d.id]
            d = defs[0].value if len(defs) == 1 else d
        g = dg.args.args[0].arg
        if not isinstance(d, ast.Dict) or not all(isinstance(k, ast.Constant) for k in d.keys):
            ctx.error('C02.D6', '_dump_grid_to_json does not return a dict display; cannot decide')
        else:
            want = {'meta': ('dump_meta', '%s.metadata' % g), 'cols': ('dump_columns', '%s.column' % g), 'rows': ('dump_rows', g)}
            got = {}
            for k, v in zip(d.keys, d.values):
                if isinstance(v, ast.Name):
                    defs = [st for st in ast.walk(dg) if isinstance(st, ast.Assign) and norm(st.targets[0]) == v.id]
                    v = defs[0].value if len(defs) == 1 else v
                got[k.value] = (norm(v.func), norm(v.args[0])) if isinstance(v, ast.Call) and v.args else (norm(v), None)
            for k, w in want.items():
                if got.get(k) == w:
                    ctx.ob('C02.D6', 'the writer fills `%s` with %s(%s)' % (k, w[0], w[1]), True, '%s:%d' % (FD, dg.lineno))
                elif k not in got:
                    ctx.violation('C02.D6', '%s::_dump_grid_to_json' % FD, norm(d), 'a dumped grid lacks `%s`' % k,
                                  'grid object has the keys %s' % sorted(got), file=FD, line=dg.lineno, engine='E9')
                elif got[k][0] == w[0] and got[k][1] in [x[1] for x in want.values()]:
                    ctx.violation('C02.D6', '%s::_dump_grid_to_json' % FD, norm(d),
                                  '`%s` of the dumped grid is filled from %s instead of %s' % (k, got[k][1], w[1]),
                                  'grid object key %s is %s(%s)' % (k, got[k][0], got[k][1]), file=FD, line=dg.lineno, engine='E9')
                else:
                    ctx.error('C02.D6', '_dump_grid_to_json: `%s` is %s(%s); not recognised, cannot decide' % (k, got[k][0], got[k][1]))
        dr = m.func('jsondumper', 'dump_row')
        a = [x.arg for x in dr.args.args]
        gp, rp = a[0], a[1]
        calls = [n for n in ast.walk(dr) if isinstance(n, ast.Call) and norm(n.func) == 'dump_scalar' and n.args]
        comps = [n for n in ast.walk(dr) if isinstance(n, (ast.ListComp, ast.DictComp, ast.GeneratorExp, ast.For))]
        if len(calls) != 1 or len(comps) != 1:
            ctx.error('C02.D6', 'dump_row: %d dump_scalar calls in %d loops; cannot decide' % (len(calls), len(comps)))
        else:
            comp = comps[0]
            it = norm(comp.iter if isinstance(comp, ast.For) else comp.generators[0].iter)
            var = norm(comp.target if isinstance(comp, ast.For) else comp.generators[0].target)
            cell = norm(calls[0].args[0])
            cols_ok = it in ('list(%s.column.keys())' % gp, '%s.column.keys()' % gp, '%s.column' % gp, 'list(%s.column)' % gp)
            if cols_ok and cell == '%s.get(%s)' % (rp, var):
                ctx.ob('C02.D6', 'every column of every row is emitted (row.get: absent -> null)', True, '%s:%d' % (FD, dr.lineno))
            elif cols_ok and cell == '%s[%s]' % (rp, var):
                ctx.violation('C02.D6', '%s::dump_row' % FD, norm(calls[0]),
                              'a grid with columns a, b and the row {a: 1}: dumping raises KeyError instead of writing b as null',
                              'dump_row reads the cell with row[col]: sparse rows cannot be dumped', file=FD,
                              line=calls[0].lineno, engine='E9')
            else:
                ctx.error('C02.D6', 'dump_row iterates `%s` and writes `%s`; not recognised, cannot decide' % (it, cell))
        from .. import match
        dm = m.func('jsondumper', 'dump_meta')
        sd = match.Script(ctx, 'C02.D6', [dm], FD, '%s::dump_meta' % FD)
        sd.need(["_R_out['ver'] = str(_R_version)"], 'grid meta carries ver = str(version)',
                'the dumped grid has no (or a wrong) meta.ver')
        dc = m.func('jsondumper', 'dump_column')
        sc2 = match.Script(ctx, 'C02.D6', [dc], FD, '%s::dump_column' % FD)
        sc2.seed('col', dc.args.args[0].arg)
        sc2.need(["_R_out['name'] = _R_col"], 'each column object carries its name', 'dumped columns have no (or a wrong) name')
    except (AnalysisError, IndexError) as e:
        ctx.error('C02.D6', 'writer shape: %s' % e)
