"""Shared ZINC-side obligations (used by C01, C03, C04, C08, C09): escape pairing, ladders,
writer templates vs reader grammar vs spec tables, structure templates."""
from __future__ import annotations

import ast

from .. import lang as L
from .. import ppgrammar as G
from .. import spec as S
from .. import templates as TP
from .. import transducer as T
from ..lang import Unsupported
from ..model import AnalysisError, body_wo_doc, norm, walk_no_nested

FZ = 'hszinc/zincdumper.py'
FP = 'hszinc/zincparser.py'

# writer kind -> reader kind (what the parse action must build)
READ_AS = {'None': 'None', 'NA': 'NA', 'MARKER': 'MARKER', 'REMOVE': 'REMOVE', 'bool': 'bool', 'int': 'float',
           'float': 'float', 'str': 'str', 'Uri': 'Uri', 'Bin': 'Bin', 'XStr': 'XStr', 'Ref': 'Ref', 'Ref+dis': 'Ref',
           'Coordinate': 'Coordinate', 'Quantity': 'Quantity', 'Quantity-nounit': 'float', 'date': 'date',
           'time': 'time', 'datetime': 'datetime', 'list': 'list', 'dict': 'dict', 'Grid': 'Grid'}
SPEC_KIND = {'None': 'null', 'NA': 'na', 'MARKER': 'marker', 'REMOVE': 'remove', 'bool': 'bool', 'int': 'number',
             'float': 'number', 'str': 'str', 'Uri': 'uri', 'Bin': 'bin', 'XStr': 'xstr', 'Ref': 'ref', 'Ref+dis': 'ref',
             'Coordinate': 'coord', 'Quantity': 'quantity', 'Quantity-nounit': 'number', 'date': 'date', 'time': 'time',
             'datetime': 'datetime', 'list': 'list', 'dict': 'dict', 'Grid': 'grid'}
WITNESS_VALUE = {
    'str': 'the string %r', 'Uri': 'Uri(%r)', 'Ref+dis': "Ref('a', %r)", 'XStr': "XStr('Foo', %r)",
}


def kinds_for(version):
    return [k for k in TP.KINDS if version == '3.0' or k not in TP.V3_ONLY]


def show(word):
    return L.render(word, S.NAMES)


# ------------------------------------------------------------------ escapes (E5)

def multipass(ctx, rule, e, what):
    if e.written is not None and getattr(e, 'guarded', False):
        wit = ('%s: the text %r (an escaped backslash directly followed by the escape %r) denotes %s; the reader yields %s'
               % (what, e.written, e.written[2:], e.single, e.multi))
    elif e.written is not None:
        wit = ('%s: the text %r (an escaped backslash, then %r) denotes %r; the reader rewrites %r first and returns %s'
               % (what, e.written, e.written[2:], e.single, e.written[1:], e.multi))
    else:
        wit = '%s: %s' % (what, e.text)
    ctx.violation(rule, 'hszinc/zincparser.py::_unescape', norm(e.node), wit,
                  'escape decoding is not one left-to-right pass (%s): a sequence is recognised where the scan would be '
                  'in the middle of another escape' % e.text, file='hszinc/zincparser.py', line=e.node.lineno, engine='E5')


def escape_pair(ctx, rule, which, check_spec=False):
    """writer pipeline `dump_<which>` vs reader token regex + _unescape.  which: 'str' | 'uri'."""
    m = ctx.model
    fname = 'dump_%s' % which
    try:
        pipe = T.extract_pipeline(m, 'zincdumper', fname)
        classes, notes = T.compose(pipe)
        sp = T.extract_unescape(m)
        g = G.grammar_of(m, 'zincparser')
        char_el = g.get('hs_%sChar' % which)
        whole_el = g.get('hs_%s' % which)
    except T.MultiPass as e:
        multipass(ctx, rule, e, 'parse(dump(%s))' % ('a Uri' if which == 'uri' else 'a string'))
        return None
    except (Unsupported, AnalysisError) as e:
        ctx.error(rule, '%s: %s' % (fname, e))
        return None
    uri = which == 'uri'
    delim = pipe.prefix
    ctx.count('escape phases (%s)' % which, len(pipe.phases))
    if getattr(sp, 'loop_exits', None):
        ex = sp.loop_exits[0]
        ctx.violation(rule, '%s::_unescape' % FP, norm(ex),
                      'parse(dump(the string "a\u00e9b")): the scanning loop of _unescape leaves with `%s` after the first escape, '
                      'so everything after it is dropped -- the text comes back as "a\u00e9"' % norm(ex),
                      'a branch of the escape decoder ends the scan (`%s`) instead of going on with the rest of the text'
                      % norm(ex), file=FP, line=ex.lineno, engine='E5')
        return None
    # a fast path that emits the text raw must only be taken for texts made of characters the pipeline leaves alone
    for rc, how, fmt, node in getattr(pipe, 'fast', []):
        try:
            pr = L.PyRegex(rc.pattern, rc.flags)
            if how == 'search' or not pr.anchored_start and how != 'fullmatch' and False:
                raise Unsupported('fast path uses %s' % how)
            lang = pr.full() if how == 'fullmatch' else pr.match_lang()
            must = ()
            for ivs, t in classes:
                ident = t is None or t == [('ident',)]
                if not ident:
                    must = L.iv_union(must, ivs)
            bad = L.find_common(L.build(lang), L.build(L.rcat(L.rany_star(), L.rset(must), L.rany_star())))
        except (Unsupported, AttributeError) as e:
            ctx.error(rule, '%s: fast path `%s`: %s' % (fname, norm(node.test), e))
            continue
        if fmt != pipe.prefix + '%s' + pipe.suffix:
            ctx.error(rule, '%s: fast path wraps the text as %r, the pipeline as %r' % (fname, fmt, pipe.prefix + '%s' + pipe.suffix))
        elif bad is not None:
            w = ''.join(chr(c) for c in bad)
            ctx.violation(rule, '%s::%s' % (FZ, fname), norm(node.test),
                          'parse(dump(the string %r)): `%s` accepts it%s, so it is written raw -- %r reaches the document '
                          'unescaped and the line/cell structure of the grid is broken (or the text comes back different)'
                          % (w, norm(node.test), ' (`$` also matches before one final newline)' if w.endswith('\n') else '', w),
                          'the raw fast path of %s is taken for texts containing characters the escaping pipeline must rewrite'
                          % fname, file=FZ, line=node.lineno, engine='E5')
        else:
            ctx.ob(rule, '%s: the raw fast path `%s` only admits characters the pipeline leaves unchanged' % (fname, rc.pattern),
                   True, '%s:%d' % (FZ, node.lineno))
    for cnt, text, node in getattr(pipe, 'limited', []):
        ctx.violation(rule, '%s::%s' % (FZ, fname), norm(node),
                      'parse(dump(the string of %d backslashes followed by `","injected`)): Pattern.sub(repl, text, %s) takes its '
                      'third argument as the COUNT of replacements (%s = %d): the %dth and later metacharacters are written raw, the '
                      'quote closes the literal early and the rest is read as further cells'
                      % (cnt, text, text, cnt, cnt + 1),
                      'the escaping substitution of %s is limited to the first %d matches' % (fname, cnt), file=FZ,
                      line=node.lineno, engine='E5')
    # refine the partition with the reader's distinguished characters and the hex-width boundaries
    special = {ord(sp.bs)} | {ord(c) for c in sp.uni} | {ord(c) for c in sp.simple} | {ord(c) for c in sp.uri_keep}
    special |= {ord(c) for c in (pipe.prefix + pipe.suffix)} | {10, 13, 0x20, 0x7f}
    for v in sp.simple.values():
        special |= {ord(c) for c in v}
    try:
        char_rx = G.ToRx().rx(char_el)
        token_star = L.build(L.rstar(char_rx))
    except Unsupported as e:
        ctx.error(rule, 'hs_%sChar: %s' % (which, e))
        return None
    # ... and with every class boundary of the reader's character regex, so that reader and writer
    # both act uniformly on each piece (representatives then decide the whole piece)
    for ivs in _sets_of(char_rx):
        for lo_, hi_ in ivs:
            special.add(lo_)
            special.add(hi_ + 1)
    cuts = sorted(special | {x + 1 for x in special} | {0x10, 0x100, 0x1000, 0x10000, 0x100000})
    pieces = []
    for ivs, tmpl in classes:
        for lo, hi in ivs:
            cur = lo
            for c in cuts:
                if lo < c <= hi:
                    pieces.append(((cur, c - 1), tmpl))
                    cur = c
            pieces.append(((cur, hi), tmpl))
    ctx.count('code-point classes (%s)' % which, len(pieces))
    ctx.floor('code-point classes (%s)' % which, len(pieces), 8)
    covered = sum(hi - lo + 1 for (lo, hi), _ in pieces)
    if covered != L.MAXCP + 1:
        ctx.error(rule, '%s: partition covers %d of %d code points' % (fname, covered, L.MAXCP + 1))
    for kind, lo, a, b, ph in notes:
        ctx.violation(rule, '%s::%s' % (FZ, fname), norm(ph.node).split('\n')[0],
                      '%s(%r): the output %r of an earlier escaping step is rewritten to %r by %s' % (
                          fname, chr(lo), a, b, ph.desc),
                      'escape phases interfere (%s): a later phase rewrites text produced by an earlier one, so the '
                      'reader decodes something else' % kind, file=FZ, line=ph.node.lineno, engine='E5')
    n_bad = 0
    reported = set()
    for (lo, hi), tmpl in pieces:
        cls = ((lo, hi),)
        desc = '%s class %s -> %s' % (which, T.show_class(cls), T.show_template(tmpl))
        where = '%s:%d' % (FZ, pipe.fn.lineno)
        if tmpl is None:
            key = ('deleted', T.show_template(tmpl))
            if key not in reported:
                reported.add(key)
                ctx.violation(rule, '%s::%s' % (FZ, fname), 'substitution callback returns None',
                              '%s(%r) loses the character: the substitution callback falls off its last branch and '
                              'returns None, which re.sub treats as the empty string' % (fname, chr(lo)),
                              'characters %s are deleted by the escape callback' % T.show_class(cls), file=FZ,
                              line=pipe.fn.lineno, engine='E5')
            n_bad += 1
            continue
        ok = True
        why = None
        wit_cp = None
        for cp in T.representative_points(cls):
            image = T.concretise(tmpl, cp)
            # (1) token acceptance of the image
            if not L.accepts(token_star, image):
                ok, why, wit_cp = False, 'rejected', cp
                break
            # (2) the image contains no raw delimiter / line break
            if any(ch in image for ch in set(delim) | {'\n', '\r'}) and not _escaped_only(image, sp.bs, set(delim)):
                ok, why, wit_cp = False, 'delimiter', cp
                break
            # (3) the reader transducer maps the image back to the character
            try:
                out, steps = T.decode_char(sp, image, uri)
            except ValueError as e:
                ok, why, wit_cp = False, 'decode-error %s' % e, cp
                break
            if out != chr(cp):
                ok, why, wit_cp = False, 'decodes to %r' % out, cp
                break
            # (4) ... also with text around it: the decoder must consume exactly the image (a hex digit and a letter follow)
            try:
                out2, _ = T.decode_char(sp, 'a' + image + '0Z', uri)
            except ValueError as e:
                ok, why, wit_cp = False, 'decode-error %s' % e, cp
                break
            if out2 != 'a' + chr(cp) + '0Z':
                ok, why, wit_cp = False, 'in-context %r' % out2, cp
                break
        if ok:
            ctx.ob(rule, desc + ': accepted as token(s) of hs_%sChar, decoded back by _unescape' % which, True, where)
            continue
        n_bad += 1
        cp = wit_cp
        image = T.concretise(tmpl, cp)
        key = (why.split(' ')[0], T.show_template(tmpl))
        if key in reported:
            ctx.ob(rule, desc + ': ' + why, False, where)
            continue
        reported.add(key)
        val = (WITNESS_VALUE.get('Uri' if uri else 'str') % chr(cp))
        if why == 'rejected':
            what = ('%s emits %s as %r, which the reader\'s character rule hs_%sChar does not accept: the value '
                    'cannot be parsed back' % (fname, T.show_class(cls), image, which))
            wit = 'dump_scalar(%s) = %s%s%s is rejected by the ZINC reader (whole class %s)' % (
                val, pipe.prefix, image, pipe.suffix, T.show_class(cls))
        elif why == 'delimiter':
            what = '%s emits a raw delimiter/line break for %s' % (fname, T.show_class(cls))
            wit = 'dump_scalar(%s) = %s%s%s ends the token (or the row) early' % (val, pipe.prefix, image, pipe.suffix)
        elif why.startswith('in-context'):
            what = ('_unescape does not consume exactly the escape %r emitted for %s: followed by other text it reads %s'
                    % (image, T.show_class(cls), why[11:]))
            wit = ('parse(dump(the string %r)): the text %r comes back as %s -- the decoder takes too many / too few '
                   'characters for the escape' % ('a' + chr(cp) + '0Z', 'a' + image + '0Z', why[11:]))
        else:
            what = '%s emits %s as %r, which _unescape %s' % (fname, T.show_class(cls), image, why)
            wit = 'parse(dump(%s)): the text %r %s instead of %r' % (val, image, why, chr(cp))
        ctx.violation(rule, '%s::%s' % (FZ, fname), 'class %s -> %s' % (T.show_class(cls), T.show_template(tmpl)),
                      wit, what, file=FZ, line=pipe.fn.lineno, engine='E5')
    # whole-token language: prefix . images* . suffix  is a subset of  L(hs_<which>)
    try:
        whole = L.rcat(L.rlit(pipe.prefix), T.image_language(classes), L.rlit(pipe.suffix))
        reader = G.ToRx().rx(whole_el)
        w = L.find_not_included(whole, reader, max_witnesses=3)
        if w and not n_bad:
            ctx.violation(rule, '%s::%s' % (FZ, fname), norm(pipe.ret),
                          'the writer can emit %r, which hs_%s rejects' % (show(w[0]), which),
                          'L(%s) is not included in L(hs_%s)' % (fname, which), file=FZ, line=pipe.fn.lineno,
                          engine='E3')
        elif not w:
            ctx.ob(rule, 'L(%s) = %r (images)* %r is included in L(hs_%s)' % (fname, pipe.prefix, pipe.suffix, which),
                   True, '%s:%d' % (FZ, pipe.fn.lineno))
    except Unsupported as e:
        ctx.error(rule, 'whole-token inclusion for %s: %s' % (which, e))
    # the parse action of hs_<which> applies _unescape with the right flag
    act = whole_el.action
    calls = []
    if act is not None and hasattr(act, 'node'):
        for c in ast.walk(act.node):
            if isinstance(c, ast.Call) and norm(c.func) == '_unescape':
                kw = {k.arg: norm(k.value) for k in c.keywords}
                calls.append(kw.get('uri', norm(c.args[1]) if len(c.args) > 1 else 'False'))
    if calls == [str(uri)]:
        ctx.ob(rule, 'hs_%s applies _unescape(uri=%s) to the matched text' % (which, uri), True,
               '%s:%s' % (FP, whole_el.lineno))
    else:
        ctx.violation(rule, '%s::hs_%s' % (FP, which), norm(act.node) if act is not None and hasattr(act, 'node') else 'no action',
                      'parse(dump(%s)) comes back with its backslash escapes undecoded / decoded by the wrong rules'
                      % (WITNESS_VALUE['Uri' if uri else 'str'] % 'a"b\\c'),
                      'hs_%s does not apply _unescape(uri=%s) (calls: %s)' % (which, uri, calls), file=FP,
                      line=whole_el.lineno, engine='E2')
    # delimiters of the token are the writer's prefix/suffix
    return {'pipe': pipe, 'classes': classes, 'pieces': pieces, 'sp': sp, 'n_bad': n_bad}


def _sets_of(rx):
    k = rx[0]
    if k == 'set':
        yield rx[1]
    elif k in ('cat', 'alt'):
        for x in rx[1]:
            for y in _sets_of(x):
                yield y
    elif k == 'star':
        for y in _sets_of(rx[1]):
            yield y


def _escaped_only(image, bs, delims):
    """every delimiter occurrence in image is preceded by an (unescaped) backslash"""
    i = 0
    while i < len(image):
        if image[i] == bs and i + 1 < len(image):
            i += 2
            continue
        if image[i] in delims or image[i] in '\n\r':
            return False
        i += 1
    return True


def escapes_spec_legal(ctx, rule, info, which):
    """C04: only spec-legal escapes appear in the writer's output."""
    spec_char = S.zinc('tokens', '%sChar' % which)
    star = L.build(L.rstar(spec_char))
    pipe = info['pipe']
    seen = set()
    for (lo, hi), tmpl in info['pieces']:
        if tmpl is None:
            continue
        for cp in T.representative_points(((lo, hi),)):
            image = T.concretise(tmpl, cp)
            if L.accepts(star, image):
                continue
            key = T.show_template(tmpl)
            if key in seen:
                break
            seen.add(key)
            val = (WITNESS_VALUE.get('Uri' if which == 'uri' else 'str') % chr(cp))
            ctx.violation(rule, '%s::dump_%s' % (FZ, which), 'class %s -> %s' % (T.show_class(((lo, hi),)), key),
                          'dump_scalar(%s) contains %r, which is not a %sChar of the Haystack grammar (an independent '
                          'reader rejects the document)' % (val, image, which),
                          'the %s writer emits %s as %s: not a spec-legal character or escape' % (
                              which, T.show_class(((lo, hi),)), key), file=FZ, line=pipe.fn.lineno, engine='E5')
            break
        else:
            ctx.ob(rule, '%s class %s -> %s is spec-legal' % (which, T.show_class(((lo, hi),)), T.show_template(tmpl)),
                   True, '%s:%d' % (FZ, pipe.fn.lineno))


# ------------------------------------------------------------------ ladders (E1)

def ladder_check(ctx, rule, modname, mode):
    """dump_scalar: every kind reaches its own writer; none is captured by a supertype's branch."""
    m = ctx.model
    F = 'hszinc/%s.py' % modname
    try:
        fn = m.func(modname, 'dump_scalar', 'nested')
    except AnalysisError as e:
        ctx.error(rule, str(e))
        return {}
    interp = TP.Interp(m, modname, mode)
    lad = TP.ladder(fn)
    ctx.count('ladder branches (%s)' % modname, len(lad))
    ctx.floor('ladder branches (%s)' % modname, len(lad), 17)
    # which branch is the "own" branch of a kind: the first branch whose test mentions the most specific class
    own_test = {
        'None': ['%s is None'], 'NA': ['%s is NA'], 'MARKER': ['%s is MARKER'], 'REMOVE': ['%s is REMOVE'],
        'bool': ['isinstance(%s, bool)'], 'Ref': ['isinstance(%s, Ref)'], 'Ref+dis': ['isinstance(%s, Ref)'],
        'Bin': ['isinstance(%s, Bin)'], 'XStr': ['isinstance(%s, XStr)'], 'Uri': ['isinstance(%s, Uri)'],
        'str': ['isinstance(%s, six.string_types)', 'isinstance(%s, str)', 'isinstance(%s, six.text_type)'],
        'datetime': ['isinstance(%s, datetime.datetime)'], 'time': ['isinstance(%s, datetime.time)'],
        'date': ['isinstance(%s, datetime.date)'], 'Coordinate': ['isinstance(%s, Coordinate)'],
        'Quantity': ['isinstance(%s, Quantity)'], 'Quantity-nounit': ['isinstance(%s, Quantity)'],
        'list': ['isinstance(%s, list)'], 'dict': ['isinstance(%s, dict)'], 'Grid': ['isinstance(%s, Grid)'],
        'int': None, 'float': None,
    }
    p = fn.args.args[0].arg
    result = {}
    for kind in TP.KINDS:
        try:
            idx, _ = TP.branch_of(interp, fn, kind)
        except Unsupported as e:
            ctx.error(rule, '%s ladder: %s' % (modname, e))
            continue
        result[kind] = idx
        test, body, node = lad[idx]
        if test is None:
            raises = any(isinstance(x, ast.Raise) for x in body)
            cont = list(body)
            if not cont:
                # an if-chain without else: what follows the chain in dump_scalar is the continuation
                top = body_wo_doc(fn)
                chains = [i for i, x in enumerate(top) if isinstance(x, ast.If)]
                cont = top[chains[0] + 1:] if chains else []
            raises = any(isinstance(x, ast.Raise) for x in cont)
            delegates = [c for x in cont for c in ast.walk(x) if isinstance(c, ast.Call) and isinstance(c.func, ast.Name)
                         and any(isinstance(a, ast.Name) and a.id == p for a in c.args)]
            if not raises and delegates:
                # the ladder goes on in another function: not a refusal of the kind
                ctx.error(rule, '%s ladder: kind %s falls through to `%s`, the dispatch continues outside dump_scalar'
                          % (modname, kind, norm(delegates[0])[:60]))
                continue
            ctx.violation(rule, '%s::dump_scalar' % F, 'else: %s' % (norm(body[0]).split('\n')[0] if body else ''),
                          'dump_scalar(<%s value>) reaches the final else branch%s' % (
                              kind, ' and raises NotImplementedError' if raises else ''),
                          'no ladder branch accepts the kind %s' % kind, file=F, line=node.lineno, engine='E1')
            continue
        want = own_test.get(kind)
        t = norm(test)
        if want is None:
            ok = 'float' in t or 'int' in t or 'numbers.Number' in t
        else:
            ok = any((w % p) == t or (w % p) in t.split(' or ') for w in want)
        if ok:
            ctx.ob(rule, '%s: kind %s is dispatched by its own branch `%s`' % (modname, kind, t[:60]), True,
                   '%s:%d' % (F, node.lineno))
        else:
            ctx.violation(rule, '%s::dump_scalar' % F, 'elif %s:' % t,
                          'dump_scalar(<%s value>) is handled by the branch `%s`, which sits before the branch for %s: '
                          'the value is written as another kind' % (kind, t, kind),
                          'ladder order: a supertype/other test captures kind %s before its own branch' % kind, file=F,
                          line=node.lineno, engine='E1')
    return result


# ------------------------------------------------------------------ writer templates / reader alternatives

def writer_templates(ctx, rule, modname, mode, version):
    """kind -> Tmpl (string results only); problems are reported as analysis errors."""
    m = ctx.model
    out = {}
    for kind in kinds_for(version):
        try:
            interp, idx, rets, lad = TP.scalar_template(m, modname, mode, kind, version)
        except (Unsupported, AnalysisError) as e:
            from .. import templates as _TPL
            if isinstance(e, _TPL.DataAsFormat):
                _TPL.report_data_as_format(ctx, rule, e, 'hszinc/%s.py' % modname, 'hszinc/%s.py::dump_scalar[%s]' % (modname, kind))
            else:
                ctx.error(rule, '%s writer template for %s (%s): %s' % (modname, kind, version, e))
            continue
        if rets is None:
            continue
        strs = [r[1] for r in rets if r[0] == 'str']
        raises = [r for r in rets if r[0] == 'raise']
        other = [r for r in rets if r[0] not in ('str', 'raise')]
        node_ = lad[idx][2] if idx is not None else None
        out[kind] = {'tmpl': TP.Tmpl.union(strs) if strs else None, 'raises': raises, 'other': other, 'node': node_}
        if mode == 'zinc' and other:
            # a ZINC writer function answers with text; None / a number / a container reaches ','.join and '%s'
            ctx.violation(rule, 'hszinc/%s.py::dump_scalar[%s]' % (modname, kind), 'returns %r' % (other[0],),
                          'dump_scalar(<%s>, version=%s) does not produce text: the writer for that kind returns %s, so the cell '
                          'is written as the word "None" (or the join of the row fails with TypeError)'
                          % (kind, version, 'None' if other[0] == ('const', None) else repr(other[0])),
                          'the ZINC writer of %s returns a non-string value on some path' % kind,
                          file='hszinc/%s.py' % modname, line=node_.lineno if node_ is not None else None, engine='E4')
    return out


def reader_alts(ctx, version):
    m = ctx.model
    g = G.grammar_of(m, 'zincparser')
    sc = g.get('hs_scalar_%s' % version.replace('.', '_'))
    nts = nonterminals(g)
    kind, alts0 = G.alternatives(sc)
    # flatten action-free nested alternations (hs_number = quantity | decimal | INF..)
    alts = []
    for a in alts0:
        n = a
        if n.kind in ('Or', 'MatchFirst') and n.action is None:
            alts.extend(n.children)
        else:
            alts.append(a)
    out = []
    for i, a in enumerate(alts):
        tr = G.ToRx(nts)
        rx = tr.rx(a)
        out.append({'node': a, 'rx': rx, 'nfa': L.build(rx), 'kinds': G.built_kinds(a), 'index': i})
    return kind, out, g, nts


def nonterminals(g):
    nts = {}
    for name, sym in (('hs_scalar_2_0', S.SYM_S), ('hs_scalar_3_0', S.SYM_S), ('hs_grid_2_0', S.SYM_G),
                      ('hs_grid_3_0', S.SYM_G)):
        v = g.env.get(name)
        if isinstance(v, G.GNode):
            nts[v.id] = sym
    return nts


def pairing(ctx, rule, version, templates):
    """C01.D2: L(writer_k) inside an alternative that builds k; no earlier/equal-length alternative of another kind."""
    try:
        kind_of_or, alts, g, nts = reader_alts(ctx, version)
    except (Unsupported, AnalysisError) as e:
        ctx.error(rule, 'reader alternatives (%s): %s' % (version, e))
        return
    ctx.count('scalar alternatives (%s)' % version, len(alts))
    ctx.floor('scalar alternatives (%s)' % version, len(alts), 13 if version == '2.0' else 17)
    n = 0
    for kind, info in templates.items():
        t = info['tmpl']
        if t is None:
            continue
        want = READ_AS[kind]
        own = [a for a in alts if want in a['kinds'] or (want == 'Grid' and 'forward:hs_grid_%s' % version.replace('.', '_') in a['kinds'])]
        node = info['node']
        where = '%s:%s' % (FZ, node.lineno if node is not None else '?')
        if not own:
            ctx.violation(rule, '%s::hs_scalar_%s' % (FP, version.replace('.', '_')), 'no alternative builds %s' % want,
                          'dump_scalar(<%s>, version=%s) = %r cannot be read back as a %s: the %s grammar has no '
                          'alternative that builds that kind' % (kind, version, show(L.shortest(t.rx) or []), want, version),
                          'the ZINC %s scalar alternation has no alternative constructing %s, but the writer emits it '
                          'for that version' % (version, want), file=FP, engine='E2')
            continue
        try:
            own_rx = L.ralt(*[a['rx'] for a in own])
            w = L.find_not_included(t.rx, own_rx, max_witnesses=3)
        except Unsupported as e:
            ctx.error(rule, 'inclusion %s/%s: %s' % (kind, version, e))
            continue
        n += 1
        if w:
            texts = [show(x) for x in w]
            ctx.violation(rule, '%s::dump_scalar[%s]' % (FZ, kind), 'writer(%s) ⊆ %s' % (kind, '|'.join(a['node'].label() for a in own)),
                          'the ZINC writer can emit %s for a %s value (version %s); the reader rule %s does not accept it'
                          % (' / '.join(repr(x) for x in texts), kind, version, '|'.join(a['node'].label() for a in own)),
                          'L(writer of %s) is not included in the language of the reader alternative(s) that build %s'
                          % (kind, want), file=FZ, line=node.lineno if node is not None else None, engine='E3')
        else:
            ctx.ob(rule, 'v%s: L(writer of %s) ⊆ L(%s)' % (version, kind, '|'.join(a['node'].label() for a in own)), True,
                   where)
        # other alternatives: overlap only if they build the same kind, or come later in a longest-match tie
        first_own = min(a['index'] for a in own)
        for a in alts:
            if a in own or want in a['kinds']:
                continue
            try:
                c = L.find_common(t.rx, a['rx'])
            except Unsupported as e:
                ctx.error(rule, 'overlap %s/%s: %s' % (kind, a['node'].label(), e))
                continue
            n += 1
            if c is None:
                ctx.ob(rule, 'v%s: L(writer of %s) ∩ L(%s) = ∅' % (version, kind, a['node'].label()), True, where)
            elif kind_of_or == 'Or' and a['index'] > first_own:
                ctx.ob(rule, 'v%s: text %r of a %s is also matched by %s, which comes later (longest-match tie goes to '
                             'the earlier alternative)' % (version, show(c), kind, a['node'].label()), True, where)
            else:
                w_real, n_val, win = real_tie(kind_of_or, alts, want, t.rx, a['rx'])
                if w_real is None:
                    ctx.ob(rule, 'v%s: %r (a %s) is in the regular language of %s, but under pyparsing\'s commitment '
                                 'semantics the alternative for %s wins (%d witnesses validated on the grammar model)'
                           % (version, show(c), kind, a['node'].label(), kind, n_val), True, where)
                    continue
                c = w_real
                ctx.violation(rule, '%s::hs_scalar_%s' % (FP, version.replace('.', '_')),
                              '%s before %s' % (a['node'].label(), own[0]['node'].label()),
                              'dump_scalar(<%s>) can be %r, which the earlier alternative %s also matches in full: the '
                              'value is read back as %s' % (kind, show(c), a['node'].label(), sorted(a['kinds'])),
                              'first-match/longest-match tie: an alternative of another kind shadows the one for %s' % kind,
                              file=FP, line=a['node'].lineno, engine='E3')
    ctx.count('pairing obligations (%s)' % version, n)


def spec_inclusion(ctx, rule, version, templates):
    """C04.D1: L(writer_k) inside the Haystack grammar for k (hszinc's reader is not consulted)."""
    legal = set(S.zinc_kinds(version))
    for kind, info in templates.items():
        t = info['tmpl']
        if t is None:
            continue
        sk = SPEC_KIND[kind]
        if sk == 'bin' and version == '3.0':
            sk = 'bin3'
        node = info['node']
        if sk not in legal:
            ctx.violation(rule, '%s::dump_scalar[%s]' % (FZ, kind), 'version %s' % version,
                          'dump_scalar(<%s>, version=%s) = %r: the Haystack %s grammar has no %s literal' % (
                              kind, version, show(L.shortest(t.rx) or []), version, sk),
                          'the ZINC writer emits a %s spelling under version %s, where the grammar does not define one'
                          % (sk, version), file=FZ, line=node.lineno if node is not None else None, engine='E3')
            continue
        try:
            w = L.find_not_included(t.rx, S.zinc('kinds', sk), max_witnesses=3)
        except Unsupported as e:
            ctx.error(rule, 'spec inclusion %s: %s' % (kind, e))
            continue
        if w:
            ctx.violation(rule, '%s::dump_scalar[%s]' % (FZ, kind), 'writer(%s) ⊆ spec(%s)' % (kind, sk),
                          'the ZINC writer can emit %s for a %s value; the Haystack grammar for %s does not derive it'
                          % (' / '.join(repr(show(x)) for x in w), kind, sk),
                          'L(writer of %s) is not included in the specification language of %s (version %s)'
                          % (kind, sk, version), file=FZ, line=node.lineno if node is not None else None, engine='E3')
        else:
            ctx.ob(rule, 'v%s: L(writer of %s) ⊆ spec(%s)' % (version, kind, sk), True,
                   '%s:%s' % (FZ, node.lineno if node is not None else '?'))


def raw_positions(ctx, rule, templates, version):
    """C08.D1: no any-text payload is formatted into ZINC without an escape pipeline."""
    for kind, info in templates.items():
        t = info['tmpl']
        if t is None:
            continue
        node = info['node']
        if t.raw:
            ctx.violation(rule, '%s::dump_scalar[%s]' % (FZ, kind), 'raw payload %s' % (t.raw,),
                          'a %s whose %s is the text  a"b  (or contains a newline): the quote is written as is, the '
                          'cell ends early and the rest is read as further cells / a parse error' % (kind, t.raw[0]),
                          'the ZINC text of %s contains the payload %s unescaped (it does not pass through dump_str/'
                          'dump_uri)' % (kind, ', '.join(t.raw)), file=FZ, line=node.lineno if node is not None else None,
                          engine='E4')
        else:
            ctx.ob(rule, 'v%s: every text payload of %s passes through an escape pipeline (%s)' % (
                version, kind, ', '.join(t.notes) or 'no text payload'), True,
                '%s:%s' % (FZ, node.lineno if node is not None else '?'))


# ------------------------------------------------------------------ structure

def grid_template(ctx, rule, version):
    """Template of zincdumper.dump_grid over code points and the nonterminal ⟨value⟩."""
    m = ctx.model
    interp = TP.Interp(m, 'zincdumper', 'zinc')
    interp.version = version
    try:
        res = interp.invoke('zincdumper', 'dump_grid', [('obj', 'Grid')], {}, None)
    except (Unsupported, AnalysisError) as e:
        ctx.error(rule, 'template of dump_grid: %s' % e)
        return None
    if res[0] != 'str':
        ctx.error(rule, 'dump_grid does not return a string template: %r' % (res[0],))
        return None
    return res[1]


def reader_grid_rx(ctx, version):
    g = G.grammar_of(ctx.model, 'zincparser')
    gr = g.get('hs_grid_%s' % version.replace('.', '_'))
    sc = g.get('hs_scalar_%s' % version.replace('.', '_'))
    nts = {sc.id: S.SYM_S}
    if gr.content is None:
        raise Unsupported('hs_grid forward not assigned')
    return G.ToRx(nts).rx(gr.content), g


def spec_grid_rx():
    return L.rcat(S.zinc('structure', 'header'), S.zinc('structure', 'cols'), L.rstar(S.zinc('structure', 'row')))


# ------------------------------------------------------------------ PEG re-validation of tie witnesses

CANON = {S.SYM_S: 'N', S.SYM_G: 'ver:"3.0"\na\nN\n', S.SYM_ID: 'a'}


def concretise(word):
    return ''.join(CANON.get(c, chr(c) if c < L.SYM_BASE else '') for c in word)


def real_tie(kind_of_or, alts, want, rx_a, rx_b, n=5):
    """Among up to n shortest common words of the two languages, one that pyparsing really hands to an
    alternative that does not build `want` (validated on the extracted grammar under PEG semantics).
    Returns (word or None, number validated)."""
    peg = G.Peg()
    words = L.find_common_many(rx_a, rx_b, n)
    nodes = [a['node'] for a in alts]
    for w in words:
        text = concretise(w)
        idx, end = peg.winner(nodes, kind_of_or, text)
        if idx is None:
            continue
        if end != len(text):
            continue        # the text is not consumed as one scalar at all: not a mis-read of this kind
        if want not in alts[idx]['kinds'] and not (want == 'Grid' and any(k.startswith('forward:hs_grid') for k in alts[idx]['kinds'])):
            return w, len(words), alts[idx]
    return None, len(words), None


# ------------------------------------------------------------------ version threading

def version_threading(ctx, rule, modname):
    """Every call of a version-sensitive dump function passes the version of its context.

    A function is version-sensitive if it has a `version` parameter and tests it (a gate, the Remove
    spelling) or hands it to a sensitive function.  A call that omits the argument silently encodes with the
    default (latest) version: a 2.0 grid would get 3.0 spellings / lose its refusals in that position."""
    m = ctx.model
    F = 'hszinc/%s.py' % modname
    mod = m.mod(modname)
    fns = {n.name: n for n in mod.tree.body if isinstance(n, ast.FunctionDef)}
    has_ver = {k for k, f in fns.items() if 'version' in [a.arg for a in f.args.args]}

    def uses_version(f):
        for n in ast.walk(f):
            if isinstance(n, ast.Compare) and 'version' in norm(n):
                return True
        return False

    sensitive = {k for k in has_ver if uses_version(fns[k])}
    changed = True
    while changed:
        changed = False
        for k in has_ver - sensitive:
            for n in ast.walk(fns[k]):
                callee = _callee_name(n)
                if callee in sensitive:
                    sensitive.add(k)
                    changed = True
                    break
    ctx.count('version-sensitive functions (%s)' % modname, len(sensitive))
    n_calls = 0
    for k, f in fns.items():
        in_scope = 'version' in [a.arg for a in f.args.args]
        gridp = [a.arg for a in f.args.args if a.arg == 'grid']
        for n in ast.walk(f):
            callee = _callee_name(n)
            if callee not in sensitive:
                continue
            n_calls += 1
            kw = {x.arg: norm(x.value) for x in n.keywords} if isinstance(n, ast.Call) else {}
            call = n
            if isinstance(n, ast.Call) and norm(n.func) == 'functools.partial':
                kw = {x.arg: norm(x.value) for x in n.keywords}
            pos = [a.arg for a in fns[callee].args.args]
            vidx = pos.index('version')
            if norm(call.func) in ('map', 'itertools.starmap', 'starmap'):
                kw = {}
                nargs_map = len(call.args) - 1
                if nargs_map <= vidx:
                    ctx.violation(rule, '%s::%s' % (F, k), norm(call)[:160],
                                  'a version-2.0 grid with Remove (or NA, a list...) in the position written by `%s`: `%s` calls it '
                                  'with %d positional argument(s) only, so it encodes with the default (latest) version although '
                                  'the document says 2.0' % (callee, norm(call)[:60], nargs_map),
                                  '%s maps the version-sensitive %s over its arguments without passing the version' % (k, callee),
                                  file=F, line=n.lineno, engine='E7')
                else:
                    ctx.error(rule, '%s:%d map() passes %d sequences to %s; whether one of them carries the version is not decided'
                              % (F, n.lineno, nargs_map, callee))
                continue
            nargs = len(call.args) - (1 if norm(call.func) == 'functools.partial' else 0)
            passed = kw.get('version')
            if passed is None and nargs > vidx:
                passed = norm(call.args[vidx + (1 if norm(call.func) == 'functools.partial' else 0)])
            ok_values = {'version'} if in_scope else set()
            for g in gridp:
                ok_values |= {'%s.version' % g, '%s._version' % g}
            if passed is not None and passed not in ok_values:
                passed = resolve_local(f, passed, params=ok_values)
            verdict = version_source(passed, ok_values) if passed is not None else None
            if verdict == 'unknown':
                ctx.error(rule, '%s:%d %s passes version=%s to %s: source of that value not recognised; cannot decide'
                          % (F, n.lineno, k, passed, callee))
            elif verdict in ('ok', 'nearest'):
                ctx.ob(rule, '%s -> %s passes the version on (%s)' % (k, callee, passed), True, '%s:%d' % (F, n.lineno))
            elif passed is None:
                ctx.violation(rule, '%s::%s' % (F, k), norm(call)[:160],
                              'a version-2.0 grid with Remove (or NA, a list...) in the position written by `%s`: it is '
                              'encoded with the default (latest) version -- Remove comes out as the 3.0 spelling and 3.0-only '
                              'kinds are not refused there, although the rest of the document is 2.0' % callee,
                              '%s calls the version-sensitive %s without passing the version' % (k, callee), file=F,
                              line=n.lineno, engine='E7')
            else:
                ctx.violation(rule, '%s::%s' % (F, k), norm(call)[:160],
                              'the position written by `%s` is encoded for version %s, not for the version of the grid being '
                              'dumped' % (callee, passed),
                              '%s passes version=%s to %s' % (k, passed, callee), file=F, line=n.lineno, engine='E7')
    ctx.count('calls of version-sensitive functions (%s)' % modname, n_calls)
    ctx.floor('calls of version-sensitive functions (%s)' % modname, n_calls, 8)


def resolve_local(fn, text, params=(), depth=4):
    """follow `name = expr` single assignments of fn; returns the text of the defining expression"""
    for _ in range(depth):
        if text in params or not text.isidentifier():
            return text
        defs = [st for st in ast.walk(fn) if isinstance(st, ast.Assign) and len(st.targets) == 1
                and isinstance(st.targets[0], ast.Name) and st.targets[0].id == text]
        if len(defs) != 1:
            return text
        text = norm(defs[0].value)
    return text


def version_source(text, ok_values=()):
    """'ok': the version of the grid/context itself; 'bad': a substituted version; 'unknown'"""
    if text in ok_values or text.endswith(('.version', '._version')):
        return 'ok'
    import re as _re
    mo = _re.match(r'^Version\.nearest\((.+)\)$', text)
    if (mo and version_source(mo.group(1), ok_values) == 'ok') or text.endswith('.nearest_version'):
        return 'nearest'
    if 'nearest' in text or 'LATEST_VER' in text or 'VER_' in text or text.startswith(('Version(', "'", '"')):
        return 'bad'
    return 'unknown'


def header_version(ctx, rule, modname):
    """the version written into the document header is the grid's own version (not the nearest supported one,
    not a constant): a grid of version 2.5 must come back as 2.5."""
    m = ctx.model
    F = 'hszinc/%s.py' % modname
    try:
        if modname == 'zincdumper':
            fn = m.func(modname, 'dump_grid')
            g = fn.args.args[0].arg
            srcs = []
            for n in ast.walk(fn):
                if isinstance(n, ast.BinOp) and isinstance(n.op, ast.Mod) and isinstance(n.left, ast.Constant) \
                        and isinstance(n.left.value, str) and n.left.value.startswith('ver:'):
                    v = n.right
                    while isinstance(v, ast.Call) and norm(v.func) in ('dump_str', 'str', 'six.text_type') and v.args:
                        v = v.args[0]
                    srcs.append((n, norm(v)))
        else:
            fn = m.func(modname, '_dump_grid_to_json')
            g = fn.args.args[0].arg
            dm = m.func(modname, 'dump_meta')
            stores = [st for st in ast.walk(dm) if isinstance(st, ast.Assign) and len(st.targets) == 1
                      and isinstance(st.targets[0], ast.Subscript) and norm(st.targets[0].slice) == "'ver'"]
            if len(stores) != 1:
                raise AnalysisError('dump_meta: %d stores of the ver key' % len(stores))
            v = stores[0].value
            while isinstance(v, ast.Call) and norm(v.func) in ('str', 'six.text_type') and v.args:
                v = v.args[0]
            inner = resolve_local(dm, norm(v), params=('version',))
            if inner != 'version':
                raise AnalysisError('dump_meta writes ver from `%s`' % inner)
            srcs = []
            for n in ast.walk(fn):
                if isinstance(n, ast.Call) and norm(n.func) == 'dump_meta':
                    kw = {k.arg: k.value for k in n.keywords}
                    if 'grid' in kw and 'version' in kw:
                        srcs.append((n, norm(kw['version'])))
                    elif 'grid' in kw:
                        srcs.append((n, 'LATEST_VER (default)'))
    except AnalysisError as e:
        ctx.error(rule, 'header version (%s): %s' % (modname, e))
        return
    if len(srcs) != 1:
        ctx.error(rule, 'header version (%s): %d candidate sites' % (modname, len(srcs)))
        return
    node, text = srcs[0]
    # `grid.version` is the own version only if the property says so
    try:
        vp = m.func('grid', 'Grid.version')
        vr = [norm(n.value) for n in walk_no_nested(vp) if isinstance(n, ast.Return)]
        if any('nearest' in r for r in vr):
            ctx.violation(rule, 'hszinc/grid.py::Grid.version', '; '.join(vr),
                          'a grid of version 2.5 reports and is written with version %s: Grid.version does not return the grid\'s own '
                          'version' % vr, 'Grid.version returns the nearest official version', file='hszinc/grid.py',
                          line=vp.lineno, engine='E7')
    except AnalysisError:
        pass
    ok_values = {'%s.version' % g, '%s._version' % g}
    text = resolve_local(fn, text, params=ok_values)
    verdict = version_source(text, ok_values)
    if verdict == 'ok':
        ctx.ob(rule, '%s: the header carries the grid\'s own version (%s)' % (modname, text), True, '%s:%d' % (F, node.lineno))
    elif verdict in ('bad', 'nearest'):
        ctx.violation(rule, '%s::%s' % (F, fn.name), norm(node)[:160],
                      'a grid of version 2.5 (parsed from ver:"2.5") is written with the header version taken from `%s`: it '
                      'comes back as another version, so ZINC->JSON->ZINC is not the identity' % text,
                      'the document header is written from %s instead of the grid\'s own version' % text, file=F,
                      line=node.lineno, engine='E7')
    else:
        ctx.error(rule, 'header version (%s): source `%s` not recognised; cannot decide' % (modname, text))


def _callee_name(n):
    if not isinstance(n, ast.Call):
        return None
    if norm(n.func) in ('map', 'itertools.starmap', 'starmap') and n.args and isinstance(n.args[0], ast.Name):
        return n.args[0].id          # map(f, ...) calls f with positional arguments only
    if isinstance(n.func, ast.Name):
        return n.func.id
    if norm(n.func) == 'functools.partial' and n.args and isinstance(n.args[0], ast.Name):
        return n.args[0].id
    if norm(n.func) in ('map', 'itertools.starmap', 'starmap') and n.args and isinstance(n.args[0], ast.Name):
        return n.args[0].id          # map(f, ...) calls f with positional arguments only
    return None


# ---------------------------------------------------------------- XStr payload codec (datatypes.XStr.data_to_string)

_B64_OK = ('binascii.b2a_base64', 'base64.b64encode', 'base64.standard_b64encode')
_B64_WRAP = ('base64.encodebytes', 'base64.encodestring')
_B64_OTHER_ALPHABET = ('base64.urlsafe_b64encode', 'base64.b32encode', 'base64.b16encode', 'base64.a85encode', 'base64.b85encode')
_HEX_OK = ('binascii.b2a_hex', 'binascii.hexlify', 'base64.b16encode')


def _call_chain(e):
    """peel method calls / subscripts off an expression: returns (innermost call, [post-ops as text])"""
    ops = []
    while True:
        if isinstance(e, ast.Call) and isinstance(e.func, ast.Attribute) and not (
                isinstance(e.func.value, ast.Name) and e.func.value.id in ('binascii', 'base64', 'codecs')):
            ops.append('.%s(%s)' % (e.func.attr, ', '.join([norm(a) for a in e.args] + [norm(k) for k in e.keywords])))
            e = e.func.value
        elif isinstance(e, ast.Subscript):
            ops.append('[%s]' % norm(e.slice))
            e = e.value
        else:
            break
    return e, list(reversed(ops))


def xstr_codec(ctx, rule):
    """The text payload of an XStr (x:<enc>:<payload> in JSON, Type("payload") in ZINC) is produced by
    XStr.data_to_string.  For b64 it must be standard-alphabet base64 on ONE line; for hex, plain hex digits."""
    m = ctx.model
    FDT = 'hszinc/datatypes.py'
    try:
        fn = m.func('datatypes', 'XStr.data_to_string')
    except AnalysisError as e:
        ctx.error(rule, str(e))
        return
    s = fn.args.args[0].arg
    n = 0
    # decoding (XStr.__init__) and encoding (data_to_string) must recognise the encoding name the same way
    try:
        init = m.func('datatypes', 'XStr.__init__')

        def tested(f_, selfname):
            out = {}
            for t in [x for x in ast.walk(f_) if isinstance(x, ast.Compare) and len(x.ops) == 1 and isinstance(x.ops[0], ast.Eq)]:
                sides = [t.left, t.comparators[0]]
                lit = [x for x in sides if isinstance(x, ast.Constant) and x.value in ('hex', 'b64')]
                oth = [x for x in sides if not isinstance(x, ast.Constant)]
                if lit and oth:
                    out[lit[0].value] = norm(oth[0]).replace('%s.' % selfname, '')
            return out
        ti = tested(init, init.args.args[0].arg)
        # locals of __init__ that hold (a transform of) the encoding
        for a_ in [x for x in ast.walk(init) if isinstance(x, ast.Assign) and len(x.targets) == 1 and isinstance(x.targets[0], ast.Name)]:
            for k_ in list(ti):
                if ti[k_] == a_.targets[0].id:
                    ti[k_] = norm(a_.value)
        td = tested(fn, s)
        for enc_ in ('hex', 'b64'):
            if enc_ in ti and enc_ in td:
                if ti[enc_] == td[enc_]:
                    ctx.ob(rule, 'XStr: %s is recognised by `%s == %r` when decoding and when encoding' % (enc_, ti[enc_], enc_), True,
                           '%s:%d' % (FDT, init.lineno))
                else:
                    ctx.violation(rule, '%s::XStr' % FDT, '__init__ tests `%s`, data_to_string tests `%s`' % (ti[enc_], td[enc_]),
                                  'the value Hex("deadbeef") (encoding name in another letter case): the constructor decodes the '
                                  'payload to bytes because `%s == %r`, but data_to_string tests `%s == %r`, takes the not-decoded '
                                  'branch and hands the bytes back as if they were text -- the ZINC dump raises TypeError, the JSON '
                                  'dump writes x:Hex:bytearray(b\'...\')' % (ti[enc_], enc_, td[enc_], enc_),
                                  'XStr recognises the %s encoding differently when decoding and when encoding' % enc_, file=FDT,
                                  line=init.lineno, engine='E4')
            else:
                ctx.error(rule, 'XStr: test for the %s encoding not found in __init__/data_to_string' % enc_)
    except AnalysisError as e:
        ctx.error(rule, str(e))
    for node in walk_no_nested(fn):
        if not isinstance(node, ast.Return) or node.value is None:
            continue
        # which encoding branch?
        enc = None
        dead = False
        p = node
        while getattr(p, '_parent', None) is not None and p is not fn:
            par = p._parent
            if isinstance(par, ast.If):
                t = norm(par.test)
                in_body = p in par.body
                if t in ("'hex' == %s.encoding" % s, "%s.encoding == 'hex'" % s) and in_body:
                    enc = 'hex'
                elif t in ("'b64' == %s.encoding" % s, "%s.encoding == 'b64'" % s) and in_body:
                    enc = 'b64'
                elif t == 'six.PY2' and in_body:
                    dead = True
            p = par
        if dead:
            continue
        inner, ops = _call_chain(node.value)
        where = '%s:%d' % (FDT, node.lineno)
        if enc is None:
            if norm(node.value) == '%s.data' % s:
                ctx.ob(rule, 'XStr of another encoding: the text is passed through', True, where)
            else:
                ctx.error(rule, 'XStr.data_to_string: return `%s` outside the hex/b64 branches' % norm(node.value)[:60])
            continue
        if not (isinstance(inner, ast.Call) and inner.args and norm(inner.args[0]) == '%s.data' % s):
            if enc == 'hex' and norm(node.value) == '%s.data.hex()' % s:
                n += 1
                ctx.ob(rule, 'XStr hex payload: bytes.hex()', True, where)
                continue
            ctx.error(rule, 'XStr.data_to_string (%s): `%s` is not a call of an encoder on self.data; cannot decide'
                      % (enc, norm(node.value)[:70]))
            continue
        f = norm(inner.func)
        kw = {k.arg: norm(k.value) for k in inner.keywords}
        n += 1
        if enc == 'hex':
            if f in _HEX_OK and not [o for o in ops if not o.startswith(('.decode(', '.lower('))]:
                ctx.ob(rule, 'XStr hex payload: %s, decoded as ASCII' % f, True, where)
            else:
                ctx.error(rule, 'XStr hex payload `%s`: encoder not tabled' % norm(node.value)[:70])
            continue
        strips_all = any(o in (".replace('\\n', '')", ".replace(b'\\n', b'')") for o in ops) or \
            any(o.startswith('.translate(') for o in ops)
        strips_end = any(o in ('[:-1]', ".rstrip('\\n')", '.rstrip()', '.strip()', ".rstrip(b'\\n')", ".strip('\\n')") for o in ops)
        if f in _B64_OTHER_ALPHABET:
            ctx.violation(rule, '%s::XStr.data_to_string' % FDT, norm(node.value),
                          "XStr('b64', ...) holding the bytes fb ff: the payload is written with %s, whose output ('-_' or "
                          "another alphabet) is not standard base64; an independent reader rejects or mis-decodes it" % f,
                          'the b64 payload of an XStr is not standard-alphabet base64', file=FDT, line=node.lineno, engine='E4')
        elif f in _B64_WRAP and not strips_all:
            ctx.violation(rule, '%s::XStr.data_to_string' % FDT, norm(node.value),
                          "an XStr('b64', ...) of 58 bytes or more: %s inserts a newline after every 76 output characters, "
                          "and `%s` removes only the last one -- the payload of x:b64:... contains a line break, which is "
                          "not in the lexical form of base64 text" % (f, ''.join(ops) or 'nothing'),
                          'the b64 payload of an XStr is wrapped into lines', file=FDT, line=node.lineno, engine='E4')
        elif f == 'binascii.b2a_base64' and kw.get('newline') != 'False' and not (strips_all or strips_end):
            ctx.violation(rule, '%s::XStr.data_to_string' % FDT, norm(node.value),
                          "any XStr('b64', ...): binascii.b2a_base64 appends a newline that is never removed; the payload "
                          "of x:b64:... ends in a line break", 'the b64 payload of an XStr ends in a newline', file=FDT,
                          line=node.lineno, engine='E4')
        elif f in _B64_OK or f in _B64_WRAP:
            ctx.ob(rule, 'XStr b64 payload: %s%s -- standard alphabet, one line' % (f, ''.join(ops)), True, where)
        else:
            ctx.error(rule, 'XStr b64 payload `%s`: encoder not tabled; cannot decide' % norm(node.value)[:70])
    ctx.floor('XStr payload encoders', n, 2)


# ---------------------------------------------------------------- parse actions use every token, in constructor order

CTOR_ARG_ORDER = {'FilterBinary': [1, 0, 2]}     # (op, left, right) from tokens (left, op, right); all others: 0, 1, 2 ...


def token_use_rule(ctx, rule, modname, floor=4):
    """Every lambda parse action that picks tokens by position uses each token 0..max exactly where it belongs: on every
    branch the set of positions used is gapless, and constructor arguments take the positions in order.  A position
    used twice while another is skipped (Quantity(toks[0], toks[0]), Bin(toks[0]) for `Bin("mime")`) builds a value
    from the wrong token."""
    m = ctx.model
    F_ = 'hszinc/%s.py' % modname
    try:
        g = G.grammar_of(m, modname)
        uses = G.token_use(g)
    except (Unsupported, AnalysisError) as e:
        ctx.error(rule, 'token use (%s): %s' % (modname, e))
        return
    n = 0
    for node, branches, mx in uses:
        n += 1
        want = list(range(mx + 1))
        bad = [(t, ix) for t, ix in branches if ix != want]
        where = '%s:%s' % (F_, node.lineno)
        if bad:
            t, ix = bad[0]
            missing = sorted(set(want) - set(ix))
            ctx.violation(rule, '%s::%s' % (F_, node.label()), t,
                          'the element %s yields %d tokens, but the branch `%s` of its parse action uses only position(s) %s: '
                          'token %s never reaches the value and another one is used in its place (e.g. a quantity built with its '
                          'number as unit, a Bin built from the word "Bin")' % (node.label(), mx + 1, t, ix, missing),
                          'a parse action of %s skips token position(s) %s' % (node.label(), missing), file=F_,
                          line=node.lineno, engine='E2')
            continue
        # argument order of the constructor calls
        act = G.action_returns(node.action)[0]
        # words compared with a token must be words the grammar can produce for that token
        for cmp_ in ast.walk(act):
            if isinstance(cmp_, ast.Compare) and len(cmp_.ops) == 1 and isinstance(cmp_.ops[0], (ast.Eq, ast.NotEq)) \
                    and isinstance(cmp_.comparators[0], ast.Constant) and isinstance(cmp_.comparators[0].value, str) \
                    and 'toks[' in norm(cmp_.left):
                word = cmp_.comparators[0].value
                kinds_ = set()
                for c2 in ast.walk(act):
                    if isinstance(c2, ast.Call) and isinstance(c2.func, ast.Name):
                        kinds_.add(c2.func.id)
                if word not in kinds_:
                    ctx.violation(rule, '%s::%s' % (F_, node.label()), norm(cmp_),
                                  'the action of %s tests a token against %r, but the value it builds in that case is one of %s: '
                                  'the test never holds, so e.g. Bin("text/plain") is read as an XStr of type "Bin"'
                                  % (node.label(), word, sorted(kinds_)),
                                  'a parse action compares a token with a word (%r) that is not the head it builds' % word,
                                  file=F_, line=node.lineno, engine='E2')
        okorder = True
        for c in ast.walk(act):
            if isinstance(c, ast.Call) and isinstance(c.func, ast.Name) and c.func.id[:1].isupper():
                pos = []
                for a in list(c.args) + [k.value for k in c.keywords]:
                    ii = [x.slice.value for x in ast.walk(a) if isinstance(x, ast.Subscript) and isinstance(x.value, ast.Name)
                          and x.value.id == 'toks' and isinstance(x.slice, ast.Constant) and isinstance(x.slice.value, int)]
                    if ii:
                        pos.append(ii[0])
                wantpos = CTOR_ARG_ORDER.get(c.func.id, sorted(pos))
                if len(pos) > 1 and len(set(pos)) < len(pos):
                    okorder = False
                    ctx.violation(rule, '%s::%s' % (F_, node.label()), norm(c),
                                  '%s receives the same token twice (positions %s): one of its fields is filled from the wrong '
                                  'token (a quantity whose unit is its number, an XStr whose type is its payload)' % (c.func.id, pos),
                                  'constructor arguments of %s repeat a token position' % c.func.id, file=F_,
                                  line=node.lineno, engine='E2')
                elif pos and pos != wantpos[:len(pos)] and len(pos) > 1:
                    okorder = False
                    ctx.violation(rule, '%s::%s' % (F_, node.label()), norm(c),
                                  '%s is built with its tokens in the order %s (expected %s): e.g. latitude and longitude, or '
                                  'name and display text, change places' % (c.func.id, pos, wantpos[:len(pos)]),
                                  'constructor arguments of %s take the tokens out of order' % c.func.id, file=F_,
                                  line=node.lineno, engine='E2')
        if okorder:
            ctx.ob(rule, '%s: the action uses token positions %s, each where it belongs' % (node.label(), want), True, where)
    ctx.floor('parse actions picking tokens by position (%s)' % modname, n, floor)


def quantity_split(ctx, rule, templates=None):
    """A Quantity is written <number><unit> with nothing in between; the reader finds the boundary by matching its
    NUMBER token as far as it goes.  So no text <number as written> + <non-empty start of a unit> may itself be a number
    for the reader: L(reader number) ∩ L(writer number)·L(unit) = ∅.  (Units are made of letters, % _ / $ and every
    character above U+007F -- among them the non-ASCII decimal digits that `\\d` and float() accept.)"""
    m = ctx.model
    try:
        g = G.grammar_of(m, 'zincparser')
        nts = nonterminals(g)
        q = g.get('hs_quantity')
    except (Unsupported, AnalysisError) as e:
        ctx.error(rule, 'quantity grammar: %s' % e)
        return
    parts = [c for c in q.children] if q is not None and q.kind == 'And' else []
    if len(parts) != 2:
        ctx.error(rule, 'hs_quantity is not <number> <unit>; cannot decide where the unit starts')
        return
    try:
        tr = G.ToRx(nts)
        rnum = tr.rx(parts[0])
        runit = tr.rx(parts[1])
        wnum = L.ralt(S.lexform('str_float_finite'), S.lexform('str_int'))
        wunit = S.domain('unit')
        w = L.find_common(rnum, L.rcat(wnum, wunit))
    except Unsupported as e:
        ctx.error(rule, 'quantity split: %s' % e)
        return
    where = '%s:%s' % (FP, parts[0].lineno)
    if w is None:
        ctx.ob(rule, 'no <number as written><start of a unit> is itself a number for the reader: the number token stops where '
                     'the unit begins', True, where)
    else:
        text = show(w)
        ctx.violation(rule, '%s::%s' % (FP, parts[0].label() or 'hs_decimal'), 'L(number token) ∩ L(written number)·L(unit)',
                      'dump then parse of a Quantity whose unit starts with a character the number token also accepts: the text %r '
                      '(a number followed by a unit) is matched by the reader\'s number token as a whole -- the leading unit '
                      'character is absorbed into the number (float() accepts non-ASCII decimal digits), value and unit both change'
                      % text,
                      'the reader\'s number token also matches <written number> + <start of a unit>: the boundary between number and '
                      'unit is lost', file=FP, line=parts[0].lineno, engine='E3')
    _ = runit


def time_literal_exact(ctx, rule, modname, fname='_parse_time'):
    """The parse action of a time literal: hh:mm:ss[.fraction] denotes exactly that time.  Either strptime with %f on
    the text cut to six fraction digits, or datetime.time(h, m, s, usec) where usec is the first six fraction digits,
    ZERO-PADDED AS TEXT, then int().  float()/round()/math on the fraction loses a microsecond for ~1% of values;
    int() of the un-padded digits reads `.5` as 5 microseconds."""
    m = ctx.model
    F_ = 'hszinc/%s.py' % modname
    try:
        fn = m.func(modname, fname)
    except AnalysisError as e:
        ctx.error(rule, str(e))
        return
    con = '%s::%s' % (F_, fname)
    for c in ast.walk(fn):
        if isinstance(c, ast.Call) and (norm(c.func) in ('float', 'round', 'Decimal', 'decimal.Decimal') or norm(c.func).startswith('math.')):
            ctx.violation(rule, con, norm(c)[:100],
                          'the well-formed time 08:12:05.000249 is read as 08:12:05.000248: the fraction goes through binary floating '
                          'point (`%s`) and is truncated, which loses one microsecond for about 1%% of all microsecond values'
                          % norm(c)[:40],
                          'the fraction of a time literal is converted through float arithmetic instead of int() on its digits',
                          file=F_, line=c.lineno, engine='E7')
            return
    sp = [c for c in ast.walk(fn) if isinstance(c, ast.Call) and norm(c.func).endswith('strptime')]
    ctor = [c for c in ast.walk(fn) if isinstance(c, ast.Call) and norm(c.func) in ('datetime.time', 'time')]
    where = '%s:%d' % (F_, fn.lineno)
    if sp and not ctor:
        cuts = [int(norm(s_.slice.upper)) for s_ in ast.walk(fn) if isinstance(s_, ast.Subscript) and isinstance(s_.slice, ast.Slice)
                and s_.slice.lower is None and s_.slice.upper is not None and norm(s_.slice.upper).isdigit()]
        fmts = ' '.join(x.value for x in ast.walk(fn) if isinstance(x, ast.Constant) and isinstance(x.value, str))
        if '%f' in fmts and cuts == [6]:
            ctx.ob(rule, '%s.%s: strptime with %%f on the text cut to six fraction digits' % (modname, fname), True, where)
        elif '%f' in fmts and cuts and cuts[0] != 6:
            ctx.violation(rule, con, 'fraction cut to %d digits' % cuts[0],
                          'the well-formed time 08:12:05.1234567: %%f takes at most six digits and the text is cut to %d -- %s'
                          % (cuts[0], 'strptime raises ValueError' if cuts[0] > 6 else 'digits of the microsecond are dropped'),
                          'the fraction of a time literal is cut to %d digits, %%f needs exactly the first six' % cuts[0], file=F_,
                          line=fn.lineno, engine='E7')
        else:
            ctx.error(rule, '%s.%s: strptime form not recognised (formats %r, cuts %s); cannot decide' % (modname, fname, fmts[:40], cuts))
        return
    if len(ctor) != 1:
        ctx.error(rule, '%s.%s: %d datetime.time(...) calls; cannot decide' % (modname, fname, len(ctor)))
        return
    call = ctor[0]
    usec = call.args[3] if len(call.args) >= 4 else next((k.value for k in call.keywords if k.arg == 'microsecond'), None)
    if usec is None:
        ctx.violation(rule, con, norm(call), 'the fraction of 08:12:05.5 is dropped', 'datetime.time(...) is built without microseconds',
                      file=F_, line=call.lineno, engine='E7')
        return
    exprs = [usec]
    if isinstance(usec, ast.Name):
        exprs = [d.value for d in ast.walk(fn) if isinstance(d, ast.Assign) and len(d.targets) == 1 and norm(d.targets[0]) == usec.id]
    from ._json import USEC_OK
    import re as _re
    for e in exprs:
        # `X if frac else 0` / `X or 0`: judge X
        while isinstance(e, ast.IfExp):
            e = e.body
        if isinstance(e, ast.Constant) and e.value == 0:
            continue
        t = norm(e)
        names = sorted({x.id for x in ast.walk(e) if isinstance(x, ast.Name) and x.id not in ('int', 'len', 'str')})
        if any(t == form.format(f=nm) for nm in names for form in USEC_OK):
            ctx.ob(rule, '%s.%s: microseconds = first six fraction digits, zero-padded as text, then int()' % (modname, fname), True, where)
            continue
        if any(_re.match(r'^int\(%s(\[:\d+\])?( or 0| or \'0\')?\)$' % _re.escape(nm), t) for nm in names):
            ctx.violation(rule, con, t,
                          'the well-formed time 12:00:00.5 is read as 12:00:00.000005: the fraction digits are taken as a COUNT of '
                          'microseconds (`%s`) instead of being padded to six digits first -- every literal with one to five '
                          'fraction digits denotes the wrong time' % t,
                          'the fraction of a time literal is converted with int() without zero-padding it to six digits', file=F_,
                          line=getattr(e, 'lineno', fn.lineno), engine='E7')
            continue
        ctx.error(rule, '%s.%s: microsecond expression `%s` not tabled; cannot decide' % (modname, fname, t[:70]))


def number_text_edits(ctx, rule, modname):
    """str(float) may be in exponent form ('2.5e+20', '1.5e-10').  Trimming zeros / dots from the END of such a text
    (`rstrip('0')`) eats the zeros of the exponent: the text then denotes another number.  A strip-family call with a
    digit in its set, applied to the text of a number in a writer, needs a guard that excludes the exponent form."""
    from .c17 import _guards
    m = ctx.model
    F_ = 'hszinc/%s.py' % modname
    n = 0
    for fname in ('dump_decimal', 'dump_quantity', 'dump_coord'):
        try:
            fn = m.func(modname, fname, 'nested')
        except AnalysisError:
            continue
        for c in ast.walk(fn):
            if isinstance(c, ast.Call) and isinstance(c.func, ast.Attribute) and c.func.attr in ('rstrip', 'strip') and c.args \
                    and isinstance(c.args[0], ast.Constant) and isinstance(c.args[0].value, str) \
                    and any(ch.isdigit() for ch in c.args[0].value):
                n += 1
                st = c
                while not isinstance(st, ast.stmt):
                    st = st._parent
                gs = [(norm(t), pol) for t, pol in _guards(fn, st)]
                excl = any((("'e' not in" in t or "'E' not in" in t) and pol) or (("'e' in" in t or "'E' in" in t) and not pol)
                           for t, pol in gs)
                if excl:
                    ctx.ob(rule, '%s.%s: zeros are trimmed only from texts without an exponent' % (modname, fname), True,
                           '%s:%d' % (F_, c.lineno))
                else:
                    ctx.violation(rule, '%s::%s' % (F_, fname), norm(st),
                                  'dump of the number 2.5e+20 (str() gives "2.5e+20"): `%s` trims the zero of the EXPONENT, the '
                                  'document says 2.5e+2 = 250; parsing the dump gives another grid, and a second pass turns it into '
                                  '250 -- 1.5e-10 becomes 0.15, 1.5e+300 becomes 1500' % norm(c)[:40],
                                  'the text of a number is trimmed with %s(%r) without excluding the exponent form'
                                  % (c.func.attr, c.args[0].value), file=F_, line=c.lineno, engine='E5')
    ctx.count('strip-family edits of number texts (%s)' % modname, n)
