"""C06 -- the JSON writer emits well-formed Haystack JSON that denotes the grid."""
from __future__ import annotations

import ast

from .. import lang as L
from .. import spec as S
from .. import templates as TP
from ..lang import Unsupported
from ..model import AnalysisError, body_wo_doc, norm, walk_no_nested
from . import _json as J
from . import _zinc

META = {
    'level': 'other',
    'explanation': (
        'Static analysis of jsondumper.py against spec/json_spec.json (written from the published Haystack JSON '
        'encoding; hszinc\'s reader is not consulted).  (D1) shape: _dump_grid_to_json returns exactly {meta, cols, rows}; '
        'ver is injected into grid meta and name into every column object after user metadata; a list of grids is '
        'wrapped as a JSON array; the document text comes from json.dumps (JSON well-formedness is the library\'s; no '
        'manual quoting anywhere in the module).  (D2) for every kind and version, the regular template of the encoded '
        'string is included in the specification language of that kind: type prefix of its kind, payload in that '
        'kind\'s lexical form (non-finite numbers n:INF/-INF/NaN); non-string kinds map to JSON null/true/false/array/'
        'object.  (D3) keys written by the dumper itself (ver, name) are reported.  Also: dates/times formatted with strftime are modelled with %Y as 1-4 digits (unpadded); the list of grids is never filtered by truthiness; SortableDict.items() conformance (shared with C16.D5).  Not decided: independent-reader '
        'execution; six-decimal closeness.'
        ' Also (D1): dump() compares the mode with the MODE constants only after _parse_mode.'
        ' Also (D4): the stamp written is isoformat() of the value itself (no conversion / re-assembly).  (D2) no scalar writer hands a re-wrapped value to the writer of another kind.'
        ' Round 9: (D1) dump() traverses its argument at most once per path (one-shot iterables of grids); (D4) no writer memo keyed by the value.'),
    'rule_text': 'obligations = shape facts + kinds x versions (inclusion in the spec language)',
    'trusted_base': ['json.dumps emits valid JSON for dict/list/str/bool/None'],
}

FD = J.FD
SPEC_OF = {'MARKER': ['marker'], 'NA': ['na'], 'int': ['number', 'number_inf'], 'float': ['number', 'number_inf'],
           'Quantity-nounit': ['number', 'number_inf'], 'Quantity': ['quantity'], 'str': ['str'], 'Uri': ['uri'],
           'Bin': ['bin'], 'XStr': ['xstr'], 'Ref': ['ref'], 'Ref+dis': ['ref_dis'], 'Coordinate': ['coord'],
           'date': ['date'], 'time': ['time'], 'datetime': ['datetime']}


def json_spec(names):
    t = S.load('json_spec.json')
    return L.ralt(*[S.rx_of(S.expand(t['tokens'], t['kinds'][n]['re'])) for n in names])


def run(ctx):
    _zinc.ladder_check(ctx, 'C06.D2', 'jsondumper', 'json')
    _shape(ctx)
    from . import _dump
    _dump.mode_sanitised(ctx, 'C06.D1', 'dumper')
    _dump.single_traversal(ctx, 'C06.D1')
    _rewrapped(ctx)
    _zinc.version_threading(ctx, 'C06.D2', 'jsondumper')
    for version in ('3.0', '2.0'):
        for kind in _zinc.kinds_for(version):
            _kind(ctx, kind, version)
    # date-time payloads: the zone name written is one whose offset at that instant is the value's (shared with C17)
    from . import c17
    c17._timezone_name(ctx, ctx.model, rule='C06.D4')
    from . import c07
    c07.writer_memo(ctx, 'C06.D4', 'jsondumper')
    # ... and the stamp written is isoformat() of the value itself, not of a converted / re-assembled one
    c17._api(ctx, ctx.model, rule='C06.D4', only=('jsondumper',), conversions_only=True)
    # XStr payloads: hex digits / one-line standard base64 (XStr.data_to_string, datatypes.py)
    _zinc.xstr_codec(ctx, 'C06.D2')
    # the writers read metadata and columns through items(): keys must come with their own values (shared with C16.D5)
    from . import c16
    c16.mapping_overrides(ctx, ctx.model, rule='C06.D3')


def _rewrapped(ctx):
    """(D2) every value carries the prefix of ITS kind: the writer of one kind does not hand a re-wrapped value
    (`XStr('Bin', v)`) to the writer of another kind -- hszinc's own reader may map it back, an independent reader
    recovers the other kind."""
    m = ctx.model
    F_ = 'hszinc/jsondumper.py'
    try:
        ladder = m.func('jsondumper', 'dump_scalar', 'nested')
        mod = m.mod('jsondumper')
    except AnalysisError as e:
        ctx.error('C06.D2', str(e))
        return
    routed = {}
    for n in ast.walk(ladder):
        if isinstance(n, ast.If) and isinstance(n.test, ast.Call) and norm(n.test.func) == 'isinstance' and len(n.test.args) == 2:
            classes = [norm(x) for x in n.test.args[1].elts] if isinstance(n.test.args[1], ast.Tuple) else [norm(n.test.args[1])]
            for b_ in n.body:
                for r in ast.walk(b_):
                    if isinstance(r, ast.Return) and isinstance(r.value, ast.Call) and isinstance(r.value.func, ast.Name):
                        routed.setdefault(r.value.func.id, set()).update(classes)
    n = 0
    for fn in [x for x in mod.tree.body if isinstance(x, ast.FunctionDef) and x.name in routed]:
        for c in ast.walk(fn):
            if isinstance(c, ast.Call) and isinstance(c.func, ast.Name) and c.func.id in routed and c.func.id != fn.name and c.args \
                    and isinstance(c.args[0], ast.Call) and norm(c.args[0].func) in routed[c.func.id] \
                    and not (routed[c.func.id] & routed[fn.name]):
                n += 1
                ctx.violation('C06.D2', '%s::%s' % (F_, fn.name), norm(c),
                              'a %s value is written by %s as `%s`: the JSON text carries the prefix of a %s (hszinc\'s own reader '
                              'may map it back; an independent reader recovers a %s, not a %s)'
                              % ('/'.join(sorted(routed[fn.name])), fn.name, norm(c)[:60], '/'.join(sorted(routed[c.func.id])),
                                 '/'.join(sorted(routed[c.func.id])), '/'.join(sorted(routed[fn.name]))),
                              'the writer of %s re-wraps the value as a %s and delegates to %s'
                              % ('/'.join(sorted(routed[fn.name])), norm(c.args[0].func), c.func.id), file=F_, line=c.lineno, engine='E7')
    ctx.count('scalar writers routed by the JSON ladder', len(routed))
    if not n:
        ctx.ob('C06.D2', 'no scalar writer re-wraps its value as another kind', True, F_)


def _kind(ctx, kind, version):
    rule = 'C06.D2'
    try:
        rets, node, lad = J.writer_value(ctx, rule, kind, version)
    except (Unsupported, AnalysisError) as e:
        from .. import templates as _TPL
        if isinstance(e, _TPL.DataAsFormat):
            _TPL.report_data_as_format(ctx, rule, e, 'hszinc/jsondumper.py', 'hszinc/jsondumper.py::dump_scalar[%s]' % kind)
        else:
            ctx.error(rule, 'JSON writer value for %s (%s): %s' % (kind, version, e))
        return
    if rets is None:
        return
    where = '%s:%s' % (FD, node.lineno if node is not None else '?')
    line = node.lineno if node is not None else None
    for r in rets:
        if r[0] == 'raise':
            continue
        if r[0] != 'str':
            shape = {'const': 'null', 'obj': 'true/false', 'seq': 'array', 'pydictcomp': 'object', 'pydict': 'object',
                     'jsonobj': 'object (nested grid)'}.get(r[0])
            want = {'None': 'null', 'bool': 'true/false', 'list': 'array', 'dict': 'object', 'Grid': 'object (nested grid)'}.get(kind)
            if shape == want:
                ctx.ob(rule, 'v%s: %s is written as JSON %s' % (version, kind, shape), True, where)
            else:
                ctx.violation(rule, '%s::dump_scalar[%s]' % (FD, kind), 'JSON shape %s' % shape,
                              'a %s is written as JSON %s instead of %s' % (kind, shape, want),
                              'wrong JSON shape for %s' % kind, file=FD, line=line, engine='E4')
            continue
        t = r[1]
        if kind == 'REMOVE':
            names = ['remove2'] if version == '2.0' else ['remove3']
        else:
            names = SPEC_OF.get(kind)
        if names is None:
            ctx.violation(rule, '%s::dump_scalar[%s]' % (FD, kind), 'string for %s' % kind,
                          'a %s is written as the JSON string %r' % (kind, J.show(L.shortest(t.rx) or [])),
                          '%s must not be encoded as a prefixed string' % kind, file=FD, line=line, engine='E4')
            continue
        try:
            w = L.find_not_included(t.rx, json_spec(names), max_witnesses=3)
        except Unsupported as e:
            ctx.error(rule, 'spec inclusion of %s: %s' % (kind, e))
            continue
        if w:
            ctx.violation(rule, '%s::dump_scalar[%s]' % (FD, kind), 'writer(%s) ⊆ spec(%s)' % (kind, '|'.join(names)),
                          'the JSON writer can emit %s for a %s; Haystack JSON has no such spelling for that kind'
                          % (' / '.join(repr(J.show(x)) for x in w), kind),
                          'the encoded form of %s is not included in the specification language %s (version %s)'
                          % (kind, '|'.join(names), version), file=FD, line=line, engine='E3')
        else:
            ctx.ob(rule, 'v%s: encoded %s ⊆ spec(%s)' % (version, kind, '|'.join(names)), True, where)


def _shape(ctx, rule='C06.D1'):
    m = ctx.model
    try:
        J.dumps_call(ctx, rule)
        to = m.func('jsondumper', '_dump_grid_to_json')
        ret = [n for n in walk_no_nested(to) if isinstance(n, ast.Return)]
        d = ret[0].value if ret else None
        keys = [k.value for k in d.keys if isinstance(k, ast.Constant)] if isinstance(d, ast.Dict) else None
        if keys is not None and sorted(keys) == ['cols', 'meta', 'rows'] and len(d.keys) == 3:
            ctx.ob(rule, 'a grid object has exactly the keys meta, cols, rows', True, '%s:%d' % (FD, to.lineno))
        else:
            ctx.violation(rule, '%s::_dump_grid_to_json' % FD, norm(d) if d is not None else '',
                          'json.loads(dump(g)) has keys %s instead of meta/cols/rows' % keys,
                          'grid object shape is not {meta, cols, rows}', file=FD, line=to.lineno, engine='E9')
        # no manual JSON quoting in the module: no string literal containing a double quote or brace is concatenated
        n_lit = 0
        for node in ast.walk(m.mod('jsondumper').tree):
            if isinstance(node, ast.Constant) and isinstance(node.value, str) and not _is_doc(node):
                n_lit += 1
                if any(ch in node.value for ch in '"{}[]') and not node.value.startswith(('Project', 'Unhandled')):
                    ctx.violation('C06.D1', '%s::%r' % (FD, node.value), repr(node.value),
                                  'JSON syntax is assembled by hand from the literal %r; a payload containing a quote or '
                                  'brace breaks the document' % node.value,
                                  'jsondumper builds JSON syntax by string formatting instead of json.dumps', file=FD,
                                  line=node.lineno, engine='E4')
        ctx.ob(rule, 'no string literal of jsondumper contains JSON syntax (%d literals scanned)' % n_lit, True, FD)
        # multi-grid wrapping in dumper.dump
        from . import _dump
        try:
            r = _dump.document_shaping(m)
            forms = r['json_multi']
            dd = m.func('dumper', 'dump')
            if r.get('truthiness_filter') is not None:
                tf = r['truthiness_filter']
                ctx.violation(rule, 'hszinc/dumper.py::dump', norm(tf),
                              'dump([g1, Grid(columns=["a"]), g3], MODE_JSON): the grid without rows is falsy (len 0) and is dropped '
                              'by `%s`: the array holds 2 grid objects for 3 grids' % norm(tf.value)[:50],
                              'the list of grids is filtered by truthiness before dumping', file='hszinc/dumper.py',
                              line=tf.lineno, engine='E6')
            lenconds = [c for f in forms for c in r['extra'].get(('json_multi', f), []) if 'len(' in c[0]]
            if forms == {'JARR'} and not lenconds:
                ctx.ob(rule, 'a list of grids is wrapped as a JSON array of grid documents (whatever its length)', True,
                       'hszinc/dumper.py:%d' % dd.lineno)
            elif 'ELEM' in forms or 'ONE' in forms:
                f = 'ELEM' if 'ELEM' in forms else 'ONE'
                node = r['nodes'][('json_multi', f)]
                ctx.violation(rule, 'hszinc/dumper.py::dump', norm(node),
                              'dump([g], MODE_JSON) with a one-element list returns the bare grid object {...} instead of the '
                              'array [{...}] (condition: %s)' % (r['extra'].get(('json_multi', f)) or 'none'),
                              'a list of grids is not always written as a JSON array', file='hszinc/dumper.py',
                              line=node.lineno, engine='E6')
            elif any(f.startswith(('WRAP:', 'JOIN:')) for f in forms):
                f = [x for x in forms if x.startswith(('WRAP:', 'JOIN:'))][0]
                node = r['nodes'][('json_multi', f)]
                ctx.violation(rule, 'hszinc/dumper.py::dump', norm(node), 'dump([g1, g2], MODE_JSON) is not a JSON array',
                              'multi-grid JSON is assembled as %s, not "[" + ",".join(documents) + "]"' % f,
                              file='hszinc/dumper.py', line=node.lineno, engine='E6')
            else:
                ctx.error(rule, 'dump(): JSON multi-grid result has forms %s (conditions %s); cannot decide' % (sorted(forms), lenconds))
        except (AnalysisError, Unsupported) as e:
            ctx.error(rule, 'dump(): %s' % e)
        # D3 reserved keys
        dm = m.func('jsondumper', 'dump_meta')
        stmts = [norm(x) for x in body_wo_doc(dm)]
        ctx.note('keys written by the dumper after user metadata: ver (grid meta), name (column objects): a user tag of '
                 'that name is overwritten (observation, not a violation)')
        order_ok = any('= dict(map(' in s for s in stmts) and any("['ver'] = " in s for s in stmts)
        if order_ok:
            ctx.ob('C06.D3', 'ver is written after the user metadata was collected', True, '%s:%d' % (FD, dm.lineno))
    except (AnalysisError, IndexError) as e:
        ctx.error(rule, str(e))


def _is_doc(node):
    p = getattr(node, '_parent', None)
    return isinstance(p, ast.Expr)
