"""Shared facts about hszinc.parser.parse: which pieces of a document are handed to the grid parser, and what
is returned for `single`.  Path-based (E6): every returning path of parse() is classified by the conditions it
fixed on `single` and on emptiness of the piece list, and by the normal form of the returned expression.

    ALL      list(map(P, D)) / [P(x) for x in D]      every piece parsed, in order
    FIRST    ALL[0] / next(iter(ALL))                   first grid, all pieces parsed
    FIRST1   P(D[0])                                    first grid, later pieces never parsed
    FIRST1-OR-NONE  next(iter(map(P, D)), None)          the same lazily, None for no piece (FIRST-OR-NONE: over the parsed list)
    NONE     None

Outcomes of result_shaping(): dict(single_nonempty=set of forms, single_empty=..., multi=..., nodes={form: node})
or raises AnalysisError when a return cannot be classified."""
from __future__ import annotations

import ast
import re

from .. import flow
from ..model import AnalysisError, body_wo_doc, norm

FR = 'hszinc/parser.py'


def _resolve(text, env, depth=6):
    for _ in range(depth):
        changed = False
        for name, val in env.items():
            pat = r'(?<![\w.])%s(?![\w(])' % re.escape(name)
            if re.search(pat, text) and name != val:
                new = re.sub(pat, lambda mo: '(%s)' % val if not re.match(r'^[\w.]+(\(.*\))?$|^\[.*\]$', val) else val, text)
                if new != text:
                    text = new
                    changed = True
        if not changed:
            break
    return text


def classify(text, pieces, parser_names):
    """normal form of a returned expression (text already resolved through locals)"""
    P = '(?:%s)' % '|'.join(re.escape(p) for p in parser_names)
    D = '(?:%s)' % '|'.join(re.escape(p) for p in pieces)
    ALL = r'(?:list\(map\(%s, %s\)\)|\[%s\((\w+)\) for \1 in %s\])' % (P, D, P, D)
    if text in ('None',):
        return 'NONE'
    if re.match('^%s$' % ALL, text):
        return 'ALL'
    if re.match(r'^%s\[0\]$' % ALL, text) or re.match(r'^next\(iter\(%s\)\)$' % ALL, text):
        return 'FIRST'
    if re.match(r'^%s\(%s\[0\]\)$' % (P, D), text):
        return 'FIRST1'
    LAZY = r'(?:map\(%s, %s\)|\(%s\((\w+)\) for \w+ in %s\))' % (P, D, P, D)
    if re.match(r'^next\(iter\(%s\), None\)$' % LAZY, text) or re.match(r'^next\(%s, None\)$' % LAZY, text):
        return 'FIRST1-OR-NONE'      # lazily: only the first piece is ever parsed; None when there is none
    if re.match(r'^next\(iter\(%s\), None\)$' % ALL, text):
        return 'FIRST-OR-NONE'
    if re.match(r'^%s\[-?\d+\]$' % ALL, text) or re.match(r'^%s\(%s\[-?\d+\]\)$' % (P, D), text):
        return 'OTHER-ELEMENT'
    return None


def result_shaping(model):
    fn = model.func('parser', 'parse')
    params = [a.arg for a in fn.args.args]
    if 'single' not in params:
        raise AnalysisError('parse() has no `single` parameter')
    body = body_wo_doc(fn)
    paths = flow.enumerate_paths(body)
    out = {'single_nonempty': set(), 'single_empty': set(), 'multi': set(), 'nodes': {}, 'n_paths': 0}
    # names of the piece list and of the per-piece parser: any local assigned a partial/alias of parse_grid
    parser_names = set()
    for n in ast.walk(fn):
        if isinstance(n, ast.Assign) and len(n.targets) == 1 and isinstance(n.targets[0], ast.Name):
            t = norm(n.value)
            if t.startswith(('functools.partial(parse_grid', 'partial(parse_grid')) or t in ('parse_grid', 'parse_zinc_grid', 'parse_json_grid'):
                parser_names.add(n.targets[0].id)
    if not parser_names:
        raise AnalysisError('parse(): per-piece parser not recognised')
    for p in paths:
        if p.end not in ('return', 'fall'):      # falling off the end of parse() returns None
            continue
        out['n_paths'] += 1
        env = {}
        pieces = set()
        for e in p.effects:
            if isinstance(e, ast.Assign) and len(e.targets) == 1 and isinstance(e.targets[0], ast.Name):
                name = e.targets[0].id
                val = norm(e.value)
                if name in parser_names:
                    continue
                # the piece list: the last data assignment that is not itself a parse result
                if not any(pn + '(' in val or 'map(%s' % pn in val for pn in parser_names):
                    pieces.add(name)
                    env.pop(name, None)
                else:
                    env[name] = _resolve(val, env)
        rv = p.end_node.value if isinstance(p.end_node, ast.Return) else None
        text = 'None' if rv is None else _resolve(norm(rv), env)
        text = re.sub(r'^\((.*)\)$', r'\1', text)
        form = classify(text, pieces or {'grid_data'}, parser_names)
        if form is None:
            raise AnalysisError('parse(): return value `%s` (line %d) not classified' % (text[:80], getattr(p.end_node, 'lineno', fn.lineno)))
        single = p.last_cond('single')
        if single is None:
            neg = p.last_cond('not single')
            single = None if neg is None else (not neg)
        # emptiness: a test on the piece list or on the parsed list
        empt = None
        for t, v in p.conds:
            base = t.split(' @before')[0]
            r = _resolve(base, env)
            names = set(pieces) | set(env)
            if base in names or any(base == 'len(%s) > 0' % x or base == 'len(%s)' % x for x in names):
                empt = not v
            elif any(base == 'not %s' % x or base == 'len(%s) == 0' % x for x in names):
                empt = v
        if single is None:
            raise AnalysisError('parse(): a return (line %d) does not depend on `single`' % getattr(p.end_node, 'lineno', fn.lineno))
        if single and form in ('FIRST1-OR-NONE', 'FIRST-OR-NONE'):
            # one expression covers both cases
            first = form.split('-')[0]
            out['single_nonempty'].add(first)
            out['single_empty'].add('NONE')
            out['nodes'].setdefault(('single_nonempty', first), p.end_node)
            out['nodes'].setdefault(('single_empty', 'NONE'), p.end_node)
            continue
        key = 'multi' if not single else ('single_empty' if empt else 'single_nonempty')
        if single and empt is None:
            # no emptiness test on this path: the form must cover both (e.g. next(iter(..), None)) -- not modelled
            raise AnalysisError('parse(): single=True return `%s` without an emptiness test' % text[:60])
        out[key].add(form)
        out['nodes'].setdefault((key, form), p.end_node if p.end_node is not None else fn)
    return out


# ---------------------------------------------------------------- the document text reaches the grammar unchanged

FRAMING_OK = ('decode',)
REWRITERS = ('normalize', 'replace', 'lower', 'upper', 'translate', 'expandtabs', 'casefold', 'strip', 'lstrip', 'rstrip',
             'sub', 'subn', 'encode', 'format', 'title', 'swapcase', 'join', 'splitlines')


def _split_guards(ctx, rule, m, fn, st, text_vars):
    """the GRID_SEP split must not depend on a weaker test of the text: `if '\\n\\n' in text:` misses the separators
    GRID_SEP matches but the literal does not (a CRLF blank line is \\n\\r\\n)"""
    from .. import lang as L
    p = getattr(st, '_parent', None)
    child = st
    while p is not None and p is not fn:
        if isinstance(p, ast.If) and child in p.body:
            t = p.test
            names = {x.id for x in ast.walk(t) if isinstance(x, ast.Name)}
            if names & set(text_vars) and not (isinstance(t, ast.Name)):
                lit = None
                if isinstance(t, ast.Compare) and len(t.ops) == 1 and isinstance(t.ops[0], ast.In) \
                        and isinstance(t.left, ast.Constant) and isinstance(t.left.value, str) \
                        and norm(t.comparators[0]) in text_vars:
                    lit = t.left.value
                if lit is None:
                    ctx.error(rule, '%s:%d the split at GRID_SEP is guarded by `%s`; cannot decide' % (FR, p.lineno, norm(t)[:60]))
                else:
                    try:
                        sep = m.const('parser', 'GRID_SEP')
                        pr = L.PyRegex(sep.pattern, sep.flags)
                        lb = pr.lookbehind if pr.lookbehind is not None else L.rlit('')
                        has_sep = L.rcat(L.rany_star(), lb, pr.body, L.rany_star())
                        has_lit = L.rcat(L.rany_star(), L.rlit(lit), L.rany_star())
                        w = L.find_not_included(has_sep, has_lit, max_witnesses=1)
                    except Exception as e:
                        ctx.error(rule, 'guard of the GRID_SEP split: %s' % e)
                        w = None
                    if w:
                        wt = ''.join(chr(c) for c in w[0])
                        ctx.violation(rule, '%s::parse' % FR, norm(t),
                                      'a two-grid document with CRLF line ends: the blank line between the grids is %r, which '
                                      'GRID_SEP matches but which does not contain %r -- the document is handed to the grammar as '
                                      'ONE grid and rejected' % (wt, lit),
                                      'the split at GRID_SEP only happens when %r occurs in the text; GRID_SEP matches more '
                                      'separators than that' % lit, file=FR, line=p.lineno, engine='E3')
                    else:
                        ctx.ob(rule, 'the guard %r of the split is implied by every GRID_SEP match' % lit, True, '%s:%d' % (FR, p.lineno))
        child = p
        p = getattr(p, '_parent', None)


def text_flow(ctx, rule, what='parse(dump(g))'):
    """Every statement of parser.parse that rebinds the document text is either the charset decode or one of the
    two framing steps on line ends (strip trailing line ends with TRAILING_NL_RE, append one newline).  Any
    other rewrite of the whole text (Unicode normalisation, replace, case, strip of blanks) also rewrites the
    strings inside the document."""
    m = ctx.model
    try:
        fn = m.func('parser', 'parse')
    except AnalysisError as e:
        ctx.error(rule, str(e))
        return
    tparam = fn.args.args[0].arg
    n = 0
    text_vars = {tparam}
    stmts = sorted([st for st in ast.walk(fn) if isinstance(st, (ast.Assign, ast.AugAssign))], key=lambda x: (x.lineno, x.col_offset))
    for st in stmts:
        if isinstance(st, ast.Assign):
            if len(st.targets) != 1 or not isinstance(st.targets[0], ast.Name):
                continue
            tgt, val = st.targets[0].id, st.value
        else:
            if not isinstance(st.target, ast.Name):
                continue
            tgt, val = st.target.id, st.value
        uses = {x.id for x in ast.walk(val) if isinstance(x, ast.Name) and x.id in text_vars}
        if isinstance(st, ast.AugAssign) and tgt in text_vars:
            uses = uses | {tgt}
        if not uses:
            if tgt in text_vars and tgt != tparam:
                text_vars.discard(tgt)
            continue
        n += 1
        where = '%s:%d' % (FR, st.lineno)
        t = norm(st)
        tv = sorted(uses)[0]
        if isinstance(st, ast.AugAssign):
            v = m.fold('parser', val)
            if isinstance(st.op, ast.Add) and v in ('\n', '\r\n'):
                ctx.ob(rule, 'framing: one line end is appended to the text', True, where)
            else:
                ctx.error(rule, '%s `%s`: not a tabled framing step; cannot decide' % (where, t[:70]))
            continue
        if isinstance(val, ast.Name) and val.id in text_vars:
            text_vars.add(tgt)
            continue
        if isinstance(val, ast.Call) and isinstance(val.func, ast.Attribute):
            attr = val.func.attr
            recv = norm(val.func.value)
            if attr == 'decode' and recv in text_vars:
                ctx.ob(rule, 'bytes input is decoded once (`%s`)' % t[:60], True, where)
                text_vars.add(tgt)
                continue
            if attr == 'sub' and recv == 'TRAILING_NL_RE' and len(val.args) == 2 and norm(val.args[1]) in text_vars \
                    and m.fold('parser', val.args[0]) in ('', '\n'):
                ctx.ob(rule, 'framing: trailing line ends are normalised with TRAILING_NL_RE', True, where)
                text_vars.add(tgt)
                continue
            if norm(val.func) == 'json.loads':
                ctx.ob(rule, 'JSON text is handed to json.loads as it is', True, where)
                continue
            if attr == 'split' and recv == 'GRID_SEP':
                ctx.ob(rule, 'framing: the text is split into grids at GRID_SEP', True, where)
                continue
        if isinstance(val, (ast.ListComp, ast.GeneratorExp)) and len(val.generators) == 1 \
                and isinstance(val.generators[0].iter, ast.Call) and norm(val.generators[0].iter.func) == 'GRID_SEP.split' \
                and norm(val.elt) == norm(val.generators[0].target):
            ctx.ob(rule, 'framing: the text is split into grids at GRID_SEP (empty pieces dropped)', True, where)
            _split_guards(ctx, rule, m, fn, st, text_vars)
            continue
        if isinstance(val, ast.IfExp) and norm(val.test) in text_vars and norm(val.body) in ['[%s]' % v for v in text_vars] \
                and norm(val.orelse) == '[]':
            continue        # the whole text as one piece (reached only under a guard, judged where the split is)
        if isinstance(val, ast.BinOp) and isinstance(val.op, ast.Add) and norm(val.left) in text_vars \
                and m.fold('parser', val.right) in ('\n', '\r\n'):
            ctx.ob(rule, 'framing: one line end is appended to the text', True, where)
            text_vars.add(tgt)
            continue
        rew = [x.func.attr for x in ast.walk(val) if isinstance(x, ast.Call) and isinstance(x.func, ast.Attribute)
               and x.func.attr in REWRITERS]
        callees = {norm(x.func) for x in ast.walk(val) if isinstance(x, ast.Call)}
        parsers = {'parse_grid', 'parse_zinc_grid', 'parse_json_grid'}
        for d in ast.walk(fn):
            if isinstance(d, ast.Assign) and len(d.targets) == 1 and isinstance(d.targets[0], ast.Name) \
                    and norm(d.value).startswith(('functools.partial(parse_grid', 'partial(parse_grid')):
                parsers.add(d.targets[0].id)
        arg_names = {x.id for c in ast.walk(val) if isinstance(c, ast.Call) for x in c.args if isinstance(x, ast.Name)}
        if not rew and callees and (callees | arg_names) & parsers and callees <= (parsers | {'list', 'map', 'tuple'}):
            n -= 1
            continue        # the pieces are handed to the grid parser
        if rew:
            ctx.violation(rule, '%s::parse' % FR, t[:160],
                          '%s for a grid holding the string with the character U+1D15E (or U+2F800, or any text the '
                          'rewrite changes): the whole document is passed through `%s` before it is parsed, so the '
                          'characters inside strings, URIs and units change with it' % (what, norm(val)[:60]),
                          'parse() rewrites the document text (%s) before handing it to the grammar' % ', '.join(rew),
                          file=FR, line=st.lineno, engine='E7')
            text_vars.add(tgt)
            continue
        if isinstance(val, ast.List) and len(val.elts) == 1 and norm(val.elts[0]) in text_vars:
            continue        # [grid_data]: one pre-decoded object wrapped
        ctx.error(rule, '%s `%s`: the document text is used in a way that is not tabled; cannot decide' % (where, t[:70]))
    ctx.count('rebindings of the document text in parse()', n)
    ctx.floor('rebindings of the document text in parse()', n, 3)
    _splitter(ctx, rule, m, fn, tparam, what)


def _splitter(ctx, rule, m, fn, tparam, what):
    """The ZINC text is cut into grids at GRID_SEP (a blank line) and nowhere else, without looking inside: the writers
    never emit a raw line break inside a value (C08.D1), so a blank line is a separator wherever it stands.  A splitter
    that scans the text with its own token regex is a second lexer; it must know every quoting construct of the ZINC
    grammar -- strings "..." AND URIs `...` -- or a delimiter-looking character inside the construct it does not know
    changes its state."""
    import re as _re
    text_vars = {tparam}
    for st in ast.walk(fn):
        if isinstance(st, ast.Assign) and len(st.targets) == 1 and isinstance(st.targets[0], ast.Name) \
                and any(isinstance(x, ast.Name) and x.id in text_vars for x in ast.walk(st.value)) \
                and isinstance(st.value, ast.Call) and isinstance(st.value.func, ast.Attribute) \
                and st.value.func.attr in ('decode', 'sub'):
            text_vars.add(st.targets[0].id)
    have_sep = False
    others = []
    for c in ast.walk(fn):
        if not (isinstance(c, ast.Call) and isinstance(c.func, ast.Attribute)):
            continue
        recv, attr = norm(c.func.value), c.func.attr
        on_text = any(isinstance(a, ast.Name) and a.id in text_vars for a in c.args)
        if recv == 'GRID_SEP' and attr == 'split' and on_text:
            have_sep = True
        elif on_text and attr in ('finditer', 'findall', 'split', 'scanner', 'search', 'match', 'fullmatch') and recv not in ('TRAILING_NL_RE',):
            others.append((c, recv, attr))
        elif recv in text_vars and attr in ('split', 'partition', 'rpartition', 'find', 'index', 'rsplit'):
            others.append((c, recv, attr))
    where = '%s:%d' % (FR, fn.lineno)
    for c, recv, attr in others:
        pat = None
        try:
            rc = m.fold('parser', c.func.value)
            pat = getattr(rc, 'pattern', None)
        except Exception:
            pat = None
        if pat is None and recv == 're' and c.args:
            try:
                pat = m.fold('parser', c.args[0])
            except Exception:
                pat = None
        if not isinstance(pat, str):
            ctx.error(rule, '%s:%d the document is scanned with `%s`: not a tabled framing step; cannot decide' % (FR, c.lineno, norm(c)[:60]))
            continue
        try:
            parsed = _re._parser.parse(pat)
        except Exception as e:
            ctx.error(rule, 'splitter regex %r: %s' % (pat[:40], e))
            continue
        items = list(parsed)
        alts = [items]
        if len(items) == 1 and items[0][0] == _re._constants.BRANCH:
            alts = [list(a) for a in items[0][1][1]]
        firsts = set()
        for a in alts:
            if a and a[0][0] == _re._constants.LITERAL:
                firsts.add(chr(a[0][1]))
        if '"' in firsts and '`' not in firsts:
            ctx.violation(rule, '%s::parse' % FR, norm(c)[:120],
                          '%s for two grids of which the first holds the URI `<<` (or `a<<b`, or a URI with one "): the splitter '
                          'steps over "..." strings but not over `...` URIs, takes the `<<` inside the URI for the start of a nested '
                          'grid (or the " for the start of a string), ignores the blank line that follows and hands both grids to '
                          'the grammar as one -- the document is rejected or the grids merge' % what,
                          'the document is cut by a scanner (`%s` over %r) that recognises the string quoting of ZINC but not the '
                          'URI quoting: text inside a URI changes the scanner\'s state' % (norm(c.func)[:40], pat[:60]),
                          file=FR, line=c.lineno, engine='E3')
        else:
            ctx.error(rule, '%s:%d the document is scanned with the regex %r: not a tabled framing step; cannot decide'
                      % (FR, c.lineno, pat[:60]))
    if not others:
        if have_sep:
            ctx.ob(rule, 'the ZINC text is cut into grids by GRID_SEP.split and by nothing else (no second lexer over the raw text)',
                   True, where)
        else:
            ctx.error(rule, 'parse(): no GRID_SEP.split over the document text found; how the text is cut into grids is not decided')


# ---------------------------------------------------------------- order-carrying structures are not built from sets

def _is_set_expr(e):
    """syntactic: does the expression denote a set (iteration order = hash order)?"""
    if isinstance(e, (ast.Set, ast.SetComp)):
        return True
    if isinstance(e, ast.Call) and norm(e.func) in ('set', 'frozenset'):
        return True
    if isinstance(e, ast.BinOp) and isinstance(e.op, (ast.Sub, ast.BitAnd, ast.BitOr, ast.BitXor)):
        def viewish(x):
            return _is_set_expr(x) or (isinstance(x, ast.Call) and isinstance(x.func, ast.Attribute)
                                       and x.func.attr in ('keys', 'items', 'viewkeys', 'viewitems') and not x.args)
        return viewish(e.left) or viewish(e.right)
    if isinstance(e, ast.Call) and isinstance(e.func, ast.Attribute) and e.func.attr in (
            'difference', 'intersection', 'union', 'symmetric_difference') and _is_set_expr(e.func.value):
        return True
    return False


def set_iteration(ctx, rule, modnames, file_of=lambda mn: 'hszinc/%s.py' % mn):
    """Grid metadata, column metadata and column order are ORDERED (they are written back in that order).  A loop or
    comprehension that walks a set expression (set(...), keys() - {...}, a set literal) to build a dict / list hands the
    order over to the string hash: it differs between tag sets, and between processes under hash randomisation."""
    m = ctx.model
    n = 0
    for mn in modnames:
        try:
            tree = m.mod(mn).tree
        except AnalysisError as e:
            ctx.error(rule, str(e))
            continue
        for node in ast.walk(tree):
            iters = []
            if isinstance(node, ast.For):
                builds = any(isinstance(x, ast.Assign) and any(isinstance(t, ast.Subscript) for t in x.targets) for x in ast.walk(node)) \
                    or any(isinstance(x, ast.Call) and isinstance(x.func, ast.Attribute) and x.func.attr in ('append', 'add_item', 'extend', 'insert')
                           for x in ast.walk(node))
                if builds:
                    iters.append(node.iter)
            elif isinstance(node, (ast.DictComp, ast.ListComp, ast.GeneratorExp)):
                iters.extend(g.iter for g in node.generators)
            for it in iters:
                n += 1
                if _is_set_expr(it):
                    ctx.violation(rule, '%s::%s' % (file_of(mn), _enclosing(node)), norm(it)[:80],
                                  'a grid whose metadata holds the tags dis, site, equip, navId (in that order): after the round '
                                  'trip the tags come back in the order of their string hashes, e.g. equip, navId, dis, site -- and '
                                  'in another order in the next process (PYTHONHASHSEED)',
                                  'an ordered structure (tags / columns) is built by walking the set `%s`' % norm(it)[:60],
                                  file=file_of(mn), line=node.lineno, engine='E7')
    ctx.count('loops and comprehensions that build ordered structures (%s)' % ','.join(modnames), n)


def _enclosing(node):
    p = node
    while p is not None and not isinstance(p, ast.FunctionDef):
        p = getattr(p, '_parent', None)
    return p.name if p is not None else '<module>'
