"""Shared facts about hszinc.parser.parse: which pieces of a document are handed to the grid parser, and what
is returned for `single`.  Path-based (E6): every returning path of parse() is classified by the conditions it
fixed on `single` and on emptiness of the piece list, and by the normal form of the returned expression.

    ALL      list(map(P, D)) / [P(x) for x in D]      every piece parsed, in order
    FIRST    ALL[0] / next(iter(ALL))                   first grid, all pieces parsed
    FIRST1   P(D[0])                                    first grid, later pieces never parsed
    NONE     None

Outcomes of result_shaping(): dict(single_nonempty=set of forms, single_empty=..., multi=..., nodes={form: node})
or raises AnalysisError when a return cannot be classified."""
from __future__ import annotations

import ast
import re

from .. import flow
from ..model import AnalysisError, body_wo_doc, norm

FR = 'hszinc/parser.py'


def _resolve(text, env, depth=6):
    for _ in range(depth):
        changed = False
        for name, val in env.items():
            pat = r'(?<![\w.])%s(?![\w(])' % re.escape(name)
            if re.search(pat, text) and name != val:
                new = re.sub(pat, lambda mo: '(%s)' % val if not re.match(r'^[\w.]+(\(.*\))?$|^\[.*\]$', val) else val, text)
                if new != text:
                    text = new
                    changed = True
        if not changed:
            break
    return text


def classify(text, pieces, parser_names):
    """normal form of a returned expression (text already resolved through locals)"""
    P = '(?:%s)' % '|'.join(re.escape(p) for p in parser_names)
    D = '(?:%s)' % '|'.join(re.escape(p) for p in pieces)
    ALL = r'(?:list\(map\(%s, %s\)\)|\[%s\((\w+)\) for \1 in %s\])' % (P, D, P, D)
    if text in ('None',):
        return 'NONE'
    if re.match('^%s$' % ALL, text):
        return 'ALL'
    if re.match(r'^%s\[0\]$' % ALL, text) or re.match(r'^next\(iter\(%s\)\)$' % ALL, text):
        return 'FIRST'
    if re.match(r'^%s\(%s\[0\]\)$' % (P, D), text):
        return 'FIRST1'
    if re.match(r'^%s\[-?\d+\]$' % ALL, text) or re.match(r'^%s\(%s\[-?\d+\]\)$' % (P, D), text):
        return 'OTHER-ELEMENT'
    return None


def result_shaping(model):
    fn = model.func('parser', 'parse')
    params = [a.arg for a in fn.args.args]
    if 'single' not in params:
        raise AnalysisError('parse() has no `single` parameter')
    body = body_wo_doc(fn)
    paths = flow.enumerate_paths(body)
    out = {'single_nonempty': set(), 'single_empty': set(), 'multi': set(), 'nodes': {}, 'n_paths': 0}
    # names of the piece list and of the per-piece parser: any local assigned a partial/alias of parse_grid
    parser_names = set()
    for n in ast.walk(fn):
        if isinstance(n, ast.Assign) and len(n.targets) == 1 and isinstance(n.targets[0], ast.Name):
            t = norm(n.value)
            if t.startswith(('functools.partial(parse_grid', 'partial(parse_grid')) or t in ('parse_grid', 'parse_zinc_grid', 'parse_json_grid'):
                parser_names.add(n.targets[0].id)
    if not parser_names:
        raise AnalysisError('parse(): per-piece parser not recognised')
    for p in paths:
        if p.end != 'return':
            continue
        out['n_paths'] += 1
        env = {}
        pieces = set()
        for e in p.effects:
            if isinstance(e, ast.Assign) and len(e.targets) == 1 and isinstance(e.targets[0], ast.Name):
                name = e.targets[0].id
                val = norm(e.value)
                if name in parser_names:
                    continue
                # the piece list: the last data assignment that is not itself a parse result
                if not any(pn + '(' in val or 'map(%s' % pn in val for pn in parser_names):
                    pieces.add(name)
                    env.pop(name, None)
                else:
                    env[name] = _resolve(val, env)
        rv = p.end_node.value if isinstance(p.end_node, ast.Return) else None
        text = 'None' if rv is None else _resolve(norm(rv), env)
        text = re.sub(r'^\((.*)\)$', r'\1', text)
        form = classify(text, pieces or {'grid_data'}, parser_names)
        if form is None:
            raise AnalysisError('parse(): return value `%s` (line %d) not classified' % (text[:80], p.end_node.lineno))
        single = p.last_cond('single')
        if single is None:
            neg = p.last_cond('not single')
            single = None if neg is None else (not neg)
        # emptiness: a test on the piece list or on the parsed list
        empt = None
        for t, v in p.conds:
            base = t.split(' @before')[0]
            r = _resolve(base, env)
            names = set(pieces) | set(env)
            if base in names or any(base == 'len(%s) > 0' % x or base == 'len(%s)' % x for x in names):
                empt = not v
            elif any(base == 'not %s' % x or base == 'len(%s) == 0' % x for x in names):
                empt = v
        if single is None:
            raise AnalysisError('parse(): a return (line %d) does not depend on `single`' % p.end_node.lineno)
        key = 'multi' if not single else ('single_empty' if empt else 'single_nonempty')
        if single and empt is None:
            # no emptiness test on this path: the form must cover both (e.g. next(iter(..), None)) -- not modelled
            raise AnalysisError('parse(): single=True return `%s` without an emptiness test' % text[:60])
        out[key].add(form)
        out['nodes'].setdefault((key, form), p.end_node)
    return out
