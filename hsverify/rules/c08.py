"""C08 -- no string payload can alter grid structure (escaping is injective and contained)."""
from __future__ import annotations

from ..lang import Unsupported
from ..model import AnalysisError
from . import _json as J
from . import _zinc
from . import c02, c06

META = {
    'level': 'other',
    'explanation': (
        'Static table agreement.  ZINC (D1): the writer\'s escape pipelines (regex class + callback + replace table, '
        'extracted from the AST and composed into one character homomorphism) are compared with the reader\'s '
        'admissible-character regex and the _unescape transducer (also extracted from the AST) on a partition of all '
        '1 114 112 code points, refined so that both sides act uniformly on every class: each class image must be '
        'accepted as token text, contain no raw delimiter or line break, and be decoded back to the same character; '
        'because the writer is a homomorphism and the reader a deterministic left-to-right transducer, the per-class '
        'facts give parse(dump(s)) == s for every string of any length.  Position routing: the abstract '
        'interpretation of every dump_* function shows that each any-text payload (Str, Uri, Ref display, XStr '
        'payload, version header; metadata/dict/list/nested-grid values through dump_scalar) passes through such a '
        'pipeline.  JSON (D2): structure is delegated to json.dumps (no manual quoting in jsondumper); identity of the '
        'string is the prefix/cascade agreement with capture markers (shared with C02).  Also (D1) every rebinding of the document text in parser.parse is the decode or a framing step (no normalisation/replace of the whole text), escape decoding is one left-to-right pass (no whole-text pre-pass), and (D2) JSON text payloads reach their constructors verbatim.  Not decided: counting '
        'grids/rows/cells of an executed round trip.'
        ' Also: the empty display string of a reference is a display string -- Ref.__init__ (decision table of has_value), the hs_ref action (presence by token count) and the JSON reference branch (presence by `is not None`; the display group of REF_RE has minimum width 0).'
        ' Also (D1): the escaping substitution has no replacement count.  (D2) no value text is part of a %-format template.'
        ' Also (D1): str.translate tables are modelled as an escaping phase.  (D2) greedy group splits in the decode cascade.'
        ' Round 9: (D1) the document is cut into grids by GRID_SEP.split only; a splitter regex that knows the string quoting but not the URI quoting is a violation with a derived witness.'),
    'rule_text': 'obligations = code-point classes x {accepted, contained, decoded} for strings and URIs, whole-token '
                 'inclusions, text-carrying positions x routing, JSON text kinds x cascade/capture',
    'trusted_base': ['re.sub with a single-character class and str.replace with a single-character key are character '
                     'homomorphisms; json.dumps/json.loads round-trip every str'],
}


def run(ctx):
    for which in ('str', 'uri'):
        _zinc.escape_pair(ctx, 'C08.D1', which)
    for version in ('3.0', '2.0'):
        t = _zinc.writer_templates(ctx, 'C08.D1', 'zincdumper', 'zinc', version)
        _zinc.raw_positions(ctx, 'C08.D1', t, version)
    from . import _parse
    _parse.text_flow(ctx, 'C08.D1')
    from . import _ref
    _ref.ref_init(ctx, 'C08.D1')
    _ref.zinc_ref_action(ctx, 'C08.D1')
    _ref.json_ref_branch(ctx, 'C08.D2')
    # JSON (D2)
    try:
        fn, p, entries = J.extract_cascade(ctx.model)
    except (Unsupported, AnalysisError) as e:
        ctx.error('C08.D2', 'decode cascade: %s' % e)
        return
    for version in ('3.0', '2.0'):
        for kind in ('str', 'Uri', 'Ref+dis', 'Ref', 'XStr', 'Bin'):
            if kind in _zinc.kinds_for(version):
                c02._kind(ctx, entries, kind, version, rule='C08.D2', rule3='C08.D2', rule5='C08.D2')
    J.verbatim_payload(ctx, 'C08.D2', entries, fn)
    J.greedy_group_splits(ctx, 'C08.D2', entries)
    J.parse_scalar_entry(ctx, 'C08.D2')
    c06._shape(ctx)
