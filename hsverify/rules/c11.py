"""C11 -- Grid.filter selects exactly the rows the Haystack filter denotes (structure of the compiler)."""
from __future__ import annotations

import ast

from .. import lang as L
from .. import ppgrammar as G
from ..model import AnalysisError, body_wo_doc, norm, walk_no_nested

META = {
    'level': 'other',
    'explanation': (
        'Static analysis of the filter compiler (hszinc/grid_filter.py, filter_ast.py, Grid.filter).  The pyparsing '
        'grammar is extracted from the AST and the code generator is read branch by branch.  Decides: (D1) precedence '
        'structure -- filter -> or-chain of and-chains of terms, parentheses re-enter the filter, `not` applies to a '
        'path, alternatives ordered so that no earlier one shadows a later one; (D2) fold completeness -- the parse '
        'action of `X (op X)*` consumes every operand (index arithmetic of the fold is checked for 2, 3 and 4 '
        'operands); (D3) operator tables -- the six comparison literals and and/or map to the Python operators of '
        'the same meaning, has/not map to identity tests against the NOT_FOUND sentinel, every binary node is '
        'parenthesised, operands are emitted in source order; (D4) absent or incomparable is false -- the sentinel '
        'defines all six comparisons as False, generated comparisons run under a construct that turns TypeError '
        'into False, path lookup maps every non-traversable step to NOT_FOUND; (D5) literal fidelity -- for every '
        'kind a literal alternative can build, the head of its repr resolves in the exec namespace to the class '
        'that built it; (D6) the row loop keeps order, appends exactly on truth, stops at limit, carries '
        'version/metadata/columns; (D7) references are followed only on non-final segments, through the id index; '
        '(D8) the literal sub-grammar agrees with its ZINC sibling (token languages and unescape step).  (D8) text chain: the filter text reaches hs_filter.parseString unchanged through filter_function, _filter_function and parse_filter.  (D7 also) the id index that `->` dereferencing uses is rebuilt/updated on every mutation (clauses shared with C15.D1/D3).  Also (D3): the binary branch template keeps the node or each operand parenthesised; (D5) __repr__ of every literal class shows its fields exactly (no rounding/formatting); (D8) the text chain starts at Grid.filter.  Not decided: '
        'semantic equivalence of compiled code and filter over all programs x data as an execution; spacing variants.'
        ' Also (D7): the last hop of a path is recognised by position, not by the name of the segment.'
        ' Also (D5): the generated source is never the left operand of `%`.'
        ' Also (D4): a mapping method called on the walked value needs AttributeError in the handler.  (D5) time literals are exact.'
        ' Round 9: (D1) the words not/and/or are pyparsing Keywords wherever a name can follow; (D8) one-return helpers on the text chain are read at their call site.'),
    'rule_text': 'obligations = grammar-structure facts, fold index coverage, operator-table rows, sentinel methods, '
                 'literal kinds x resolvability, generator branches, loop facts, sibling pairs',
    'trusted_base': ['pyparsing And/MatchFirst/ZeroOrMore token order; Python evaluates `a and b or c` with the usual '
                     'precedence only where the generator parenthesises'],
}

MOD = 'grid_filter'
F = 'hszinc/grid_filter.py'
FF = F
PY_CMP = {'==': 'eq', '!=': 'ne', '<': 'lt', '<=': 'le', '>': 'gt', '>=': 'ge'}


def run(ctx):
    m = ctx.model
    g = G.grammar_of(m, MOD)
    ctx.count('grammar nodes (grid_filter)', g.nodes)
    if g.opaque:
        ctx.error('C11', 'opaque grammar constructs: %s' % g.opaque[:3])
    _structure(ctx, g)
    _folds(ctx, m, g)
    _operators(ctx, m, g)
    _sentinel(ctx, m)
    _literals(ctx, m, g)
    _row_loop(ctx, m)
    _get_path(ctx, m)
    _siblings(ctx, m, g)
    _text_chain(ctx, m)
    keyword_boundaries(ctx, m)
    filter_bypass(ctx, m, 'C11.D6')
    # `a->b` resolves the reference through the grid's id index: the index must describe the rows currently in the
    # grid after every mutation (clauses shared with C15.D1/D3)
    from . import _grid
    meths = _grid.grid_methods(ctx)
    _grid.index_pairing(ctx, meths, 'C11.D7')
    _grid.reindex_shape(ctx, meths, 'C11.D7')
    _grid.lookups(ctx, meths, 'C11.D7')
    # the function a filter is compiled to stays ITS function: generated names are allocated uniquely and never reused
    # while a filter is cached (the name-allocation clauses of C13.D1/D2, recorded here as C11.D9)
    from . import c13
    c13.run(_Renamed(ctx, 'C13.', 'C11.D9/'))
    # literals reach the generated function as their repr(): the assembled source is not itself a %-format template
    from . import c12
    c12.format_of_fragments(ctx, m, 'C11.D5')
    # a time literal denotes exactly the time it spells
    from . import _zinc as _z
    _z.time_literal_exact(ctx, 'C11.D5', MOD)


def keyword_boundaries(ctx, m, rule='C11.D1'):
    """The words of the filter language (`not`, `and`, `or`) are whole words: a tag name that merely starts with one of
    them (notes, note, nothing, android, order ...) is a tag name.  Decides: every alphabetic word of the grammar that is
    followed, in a sequence, by a rule that can start with a name is a pyparsing Keyword / CaselessKeyword (or a Regex
    ending in \\b), never a Literal -- Literal("not") also matches the first three letters of `notes`."""
    try:
        mod = m.mod(MOD)
    except AnalysisError as e:
        ctx.error(rule, str(e))
        return
    name_starts = {'hs_path', 'hs_term', 'hs_condAnd', 'hs_condOr', 'hs_filter', 'hs_name', 'hs_id', 'hs_has', 'hs_cmp', 'hs_missing'}
    n_words = 0
    for n in ast.walk(mod.tree):
        if not (isinstance(n, ast.BinOp) and isinstance(n.op, ast.Add)):
            continue
        left = n.left
        # the element right before the `+`: the right-most operand of a nested sum
        while isinstance(left, ast.BinOp) and isinstance(left.op, ast.Add):
            left = left.right
        inner = left
        while isinstance(inner, ast.Call) and norm(inner.func) in ('Suppress', 'Optional', 'Group') and inner.args:
            inner = inner.args[0]
        if not (isinstance(inner, ast.Call) and inner.args and isinstance(inner.args[0], ast.Constant)
                and isinstance(inner.args[0].value, str) and inner.args[0].value.isalpha()):
            continue
        right = n.right
        while isinstance(right, ast.Call) and norm(right.func) in ('Suppress', 'Optional', 'Group', 'ZeroOrMore', 'OneOrMore') and right.args:
            right = right.args[0]
        if not (isinstance(right, ast.Name) and right.id in name_starts):
            continue
        word = inner.args[0].value
        kind = norm(inner.func)
        n_words += 1
        if kind in ('Keyword', 'CaselessKeyword'):
            ctx.ob(rule, 'the word `%s` is a %s: it ends at a word boundary' % (word, kind), True, '%s:%d' % (F, inner.lineno))
        elif kind in ('Literal', 'CaselessLiteral'):
            w = {'not': ('notes', 'the rows WITHOUT a tag `es`', 'not es'), 'and': ('a android', 'the rows with a and roid', 'a and roid'),
                 'or': ('a order', 'the rows with a or der', 'a or der')}.get(word, (word + 'x', '?', word + ' x'))
            ctx.violation(rule, '%s::%s("%s")' % (F, kind, word), norm(n)[:100],
                          'grid.filter(%r) is read as `%s` and selects %s instead of %s'
                          % (w[0], w[2], w[1], 'the rows that have the tag `notes`' if word == 'not' else 'raising a parse error'),
                          'the word `%s` is a %s followed by a rule that starts with a name: it also matches the first letters of a '
                          'longer name' % (word, kind), file=F, line=inner.lineno, engine='E2')
        else:
            ctx.error(rule, 'the word `%s` is matched by %s(...): word boundary not decided' % (word, kind))
    ctx.count('words of the filter language followed by a name', n_words)
    ctx.floor('words of the filter language followed by a name', n_words, 3)


class _Renamed(object):
    """context proxy that files another property's rule ids under this property"""

    def __init__(self, ctx, old, new):
        self._ctx, self._old, self._new = ctx, old, new
        self.model = ctx.model

    def _r(self, rule):
        return rule.replace(self._old, self._new) if isinstance(rule, str) else rule

    def ob(self, rule, *a, **k):
        return self._ctx.ob(self._r(rule), *a, **k)

    def violation(self, rule, *a, **k):
        return self._ctx.violation(self._r(rule), *a, **k)

    def error(self, rule, *a, **k):
        return self._ctx.error(self._r(rule), *a, **k)

    def note(self, *a, **k):
        return self._ctx.note(*a, **k)

    def count(self, *a, **k):
        return self._ctx.count(*a, **k)

    def floor(self, *a, **k):
        return self._ctx.floor(*a, **k)

    def __getattr__(self, name):
        return getattr(self._ctx, name)


TEXT_REWRITERS = ('split', 'join', 'lower', 'upper', 'replace', 'sub', 'translate', 'casefold', 'title', 'swapcase',
                  'encode', 'format', 'expandtabs')


def filter_bypass(ctx, m, rule='C11.D6'):
    """Every non-empty filter text goes through filter_function (the grammar).  A fast path in Grid.filter that decides by a
    regular expression on the text must not admit texts the grammar refuses: its language has to be inside the grammar's
    tag-name language."""
    try:
        fn = m.func('grid', 'Grid.filter')
        g = G.grammar_of(m, MOD)
    except (AnalysisError, Unsupported) as e:
        ctx.error(rule, str(e))
        return
    fparam = fn.args.args[1].arg
    binds = [a for a in ast.walk(fn) if isinstance(a, ast.Assign) and isinstance(a.value, (ast.Lambda,))]
    guards = [t for t in ast.walk(fn) if isinstance(t, ast.If) and isinstance(t.test, ast.Call) and isinstance(t.test.func, ast.Attribute)
              and t.test.func.attr in ('match', 'fullmatch', 'search') and t.test.args and norm(t.test.args[0]) == fparam]
    if not guards and not binds:
        ctx.ob(rule, 'Grid.filter has no path that selects rows without the compiled filter', True, 'hszinc/grid.py:%d' % fn.lineno)
        return
    for gd in guards:
        rc = m.fold('grid', gd.test.func.value)
        try:
            pr = L.PyRegex(rc.pattern, rc.flags)
            lang = pr.full() if gd.test.func.attr == 'fullmatch' else pr.match_lang()
            name_el = g.get('hs_name') if 'hs_name' in g.env else g.get('hs_id')
            names = G.ToRx().rx(name_el)
            w = L.find_not_included(lang, names, max_witnesses=1)
        except Exception as e:
            ctx.error(rule, 'Grid.filter fast path `%s`: %s' % (norm(gd.test), e))
            continue
        if w:
            wt = ''.join(chr(c) for c in w[0])
            ctx.violation(rule, 'hszinc/grid.py::Grid.filter', norm(gd.test),
                          "grid.filter(%r): the text is not a valid filter (the grammar's tag names start with a lower-case letter), "
                          "but the fast path `%s` accepts it and selects rows by key instead of raising a parse error" % (wt, norm(gd.test)),
                          'a fast path of Grid.filter decides on the raw text with a regular expression that admits texts the filter '
                          'grammar refuses', file='hszinc/grid.py', line=gd.lineno, engine='E3')
        else:
            ctx.error(rule, 'Grid.filter has a fast path `%s` inside the tag-name language; its equivalence with the compiled filter '
                            'is not decided' % norm(gd.test))
    if binds and not guards:
        ctx.error(rule, 'Grid.filter builds its own predicate (`%s`); cannot decide' % norm(binds[0])[:60])


def _text_chain(ctx, m, rule='C11.D8'):
    """(D8) the filter text reaches the grammar unchanged: at every hop filter_function -> _filter_function ->
    parse_filter -> hs_filter.parseString the argument is the hop's own parameter.  A rewrite on the way (case,
    whitespace normalisation, substitution) also rewrites string/URI literals inside the filter."""
    hops = [('grid', 'Grid.filter', 'filter_function', 1), (MOD, 'filter_function', '_filter_function', 0),
            (MOD, '_filter_function', 'parse_filter', 0), (MOD, 'parse_filter', 'hs_filter.parseString', 0)]
    n = 0
    for hmod, fname, callee, pidx in hops:
        try:
            fn = m.func(hmod, fname)
        except AnalysisError as e:
            ctx.error(rule, str(e))
            continue
        FF_ = 'hszinc/%s.py' % hmod
        param = fn.args.args[pidx].arg
        calls = [c for c in ast.walk(fn) if isinstance(c, ast.Call) and norm(c.func) in (callee, callee.replace('parseString', 'parse_string'))]
        if len(calls) != 1 or not calls[0].args:
            ctx.error(rule, '%s: %d calls of %s; cannot decide' % (fname, len(calls), callee))
            continue
        c = calls[0]
        arg = c.args[0]
        # single-assignment locals
        seen = 0
        while isinstance(arg, ast.Name) and arg.id != param and seen < 4:
            defs = [st for st in ast.walk(fn) if isinstance(st, ast.Assign) and len(st.targets) == 1
                    and norm(st.targets[0]) == arg.id]
            if len(defs) != 1:
                break
            arg = defs[0].value
            seen += 1
        # a helper of the same module whose body is one return: read its expression at the call site
        for _ in range(3):
            if isinstance(arg, ast.Call) and isinstance(arg.func, ast.Name) and len(arg.args) == 1 and not arg.keywords \
                    and isinstance(arg.args[0], ast.Name) and arg.args[0].id == param:
                try:
                    hf = m.func(hmod, arg.func.id)
                except AnalysisError:
                    break
                hb = body_wo_doc(hf)
                if len(hb) == 1 and isinstance(hb[0], ast.Return) and hb[0].value is not None and len(hf.args.args) == 1:
                    import copy as _copy
                    e2 = _copy.deepcopy(hb[0].value)
                    for x in ast.walk(e2):
                        if isinstance(x, ast.Name) and x.id == hf.args.args[0].arg:
                            x.id = param
                    arg = e2
                    continue
            break
        # the parameter itself must not be reassigned before the call
        rebinds = [st for st in ast.walk(fn) if isinstance(st, (ast.Assign, ast.AugAssign))
                   and any(norm(t) == param for t in (st.targets if isinstance(st, ast.Assign) else [st.target]))]
        n += 1
        where = '%s:%d' % (FF_, c.lineno)
        if isinstance(arg, ast.Name) and arg.id == param and not rebinds:
            ctx.ob(rule, '%s hands its text unchanged to %s' % (fname, callee), True, where)
            continue
        expr = rebinds[0].value if rebinds and isinstance(arg, ast.Name) and arg.id == param else arg
        used = [x.func.attr for x in ast.walk(expr) if isinstance(x, ast.Call) and isinstance(x.func, ast.Attribute)]
        if any(u in TEXT_REWRITERS for u in used) and any(isinstance(x, ast.Name) and x.id == param for x in ast.walk(expr)):
            ctx.violation(rule, '%s::%s' % (FF_, fname), norm(expr)[:120],
                          'grid.filter(\'dis == "AHU  1"\') (two blanks inside the literal): the text is rewritten with `%s` '
                          'before it is parsed, the literal inside it changes too, and the rows whose dis is "AHU 1" are '
                          'selected instead' % norm(expr)[:60],
                          '%s rewrites the filter text (%s) before handing it to %s: literals inside the filter are '
                          'rewritten as well' % (fname, ', '.join(u for u in used if u in TEXT_REWRITERS), callee),
                          file=FF_, line=c.lineno, engine='E7')
        else:
            ctx.error(rule, '%s passes `%s` to %s: not the parameter itself and not a recognised rewrite; cannot decide'
                      % (fname, norm(expr)[:80], callee))
    ctx.floor('filter text hops', n, 4)


def _unwrap(n):
    while n.kind == 'Forward' and n.content is not None:
        n = n.content
    return n


def _chain(node):
    """X (lit X)* -> (X, lit string, X') or None"""
    n = _unwrap(node)
    if n.kind != 'And' or len(n.children) != 2:
        return None
    first, rep = n.children
    if rep.kind != 'ZeroOrMore':
        return None
    inner = rep.children[0]
    if inner.kind != 'And' or len(inner.children) != 2 or inner.children[0].kind != 'Literal':
        return None
    return first, inner.children[0].data['s'], inner.children[1]


def _same(a, b):
    return a.id == b.id or (a.var is not None and a.var == b.var)


def _structure(ctx, g):
    try:
        flt = g.get('hs_filter')
        c_or = g.get('hs_condOr')
        c_and = g.get('hs_condAnd')
        term = g.get('hs_term')
        parens = g.get('hs_parens')
        missing = g.get('hs_missing')
        cmp_ = g.get('hs_cmp')
        has = g.get('hs_has')
        path = g.get('hs_path')
    except AnalysisError as e:
        ctx.error('C11.D1', str(e))
        return
    V = lambda stmt, wit, what, node: ctx.violation('C11.D1', '%s::%s' % (F, node.label()), stmt, wit, what, file=F,
                                                    line=node.lineno, engine='E2')
    if flt.kind == 'Forward' and flt.content is not None and _same(flt.content, c_or):
        ctx.ob('C11.D1', 'hs_filter is the or-chain', True, '%s:%s' % (F, flt.lineno))
    else:
        V('hs_filter <<= %s' % (flt.content.label() if flt.content is not None else None),
          '`a or b` is not parsed as a disjunction', 'hs_filter is not bound to hs_condOr', flt)
    ch = _chain(c_or)
    if ch and ch[1] == 'or' and _same(ch[0], c_and) and _same(ch[2], c_and):
        ctx.ob('C11.D1', 'or-chain ranges over and-chains joined by "or"', True, '%s:%s' % (F, c_or.lineno))
    elif ch:
        V('hs_condOr = %s (%r %s)*' % (ch[0].label(), ch[1], ch[2].label()),
          '`a or b and c`: the operands of "or" are not and-chains, so "and" no longer binds tighter than "or" '
          '(rows with a only are dropped / wrongly kept)',
          'hs_condOr does not range over hs_condAnd operands joined by "or"', c_or)
    else:
        ctx.error('C11.D1', 'hs_condOr is not of the form X ("or" X)*')
    ch = _chain(c_and)
    if ch and ch[1] == 'and' and _same(ch[0], term) and _same(ch[2], term):
        ctx.ob('C11.D1', 'and-chain ranges over terms joined by "and"', True, '%s:%s' % (F, c_and.lineno))
    elif ch:
        V('hs_condAnd = %s (%r %s)*' % (ch[0].label(), ch[1], ch[2].label()),
          '`a and b or c` / `a and (b or c)` is grouped differently from the Haystack grammar',
          'hs_condAnd does not range over hs_term operands joined by "and"', c_and)
    else:
        ctx.error('C11.D1', 'hs_condAnd is not of the form X ("and" X)*')
    # term alternatives and their order
    kind, alts = G.alternatives(term)
    labels = [a.label() for a in alts]
    want = {'hs_parens', 'hs_missing', 'hs_cmp', 'hs_has'}
    if set(labels) != want:
        if want - set(labels):
            V('hs_term = %s' % ' | '.join(labels), 'a filter using %s is rejected' % sorted(want - set(labels)),
              'hs_term lacks alternative(s) %s' % sorted(want - set(labels)), term)
        else:
            ctx.error('C11.D1', 'hs_term has unexpected alternatives %s' % labels)
    else:
        ok = True
        if kind == 'MatchFirst':
            idx = {l: i for i, l in enumerate(labels)}
            if idx['hs_cmp'] > idx['hs_has']:
                ok = False
                V('hs_term = %s' % ' | '.join(labels), '`a == 1`: the bare-tag alternative matches `a` first and the '
                  'comparison is never tried', 'hs_has precedes hs_cmp in a first-match alternation', term)
            if idx['hs_missing'] > min(idx['hs_cmp'], idx['hs_has']):
                ok = False
                V('hs_term = %s' % ' | '.join(labels), '`not a`: `not` is read as a tag name by an earlier alternative',
                  'hs_missing does not precede hs_cmp/hs_has in a first-match alternation', term)
        if ok:
            ctx.ob('C11.D1', 'term = parens | not-path | comparison | has-path, ordered without shadowing', True,
                   '%s:%s' % (F, term.lineno))
    # parens re-enter the filter
    p = _unwrap(parens)
    inner = [c for c in p.children if c.kind != 'Suppress']
    sup = [c.children[0].data.get('s') for c in p.children if c.kind == 'Suppress' and c.children[0].kind == 'Literal']
    if p.kind == 'And' and len(inner) == 1 and _same(inner[0], flt) and sup == ['(', ')']:
        ctx.ob('C11.D1', 'parentheses re-enter hs_filter', True, '%s:%s' % (F, parens.lineno))
        rets = [norm(r) for r in G.action_returns(p.action)] if p.action else []
        if rets in (['toks[0]'], ['[toks[0]]']) or not rets:
            ctx.ob('C11.D1', 'a parenthesised filter denotes its inner filter', True, '%s:%s' % (F, parens.lineno))
        else:
            V('; '.join(rets), '`(a)` does not denote a', 'hs_parens action is %s' % rets, parens)
    else:
        V('hs_parens', '`(a or b) and c` is rejected or regrouped', 'hs_parens is not "(" hs_filter ")"', parens)
    # not applies to a path
    mi = _unwrap(missing)
    inner = [c for c in mi.children if c.kind != 'Suppress']
    sup = [c.children[0].data.get('s') for c in mi.children if c.kind == 'Suppress' and c.children[0].kind == 'Literal']
    rets = [norm(r) for r in G.action_returns(mi.action)] if mi.action else []
    if mi.kind == 'And' and len(inner) == 1 and _same(inner[0], path) and sup == ['not'] and rets == [
            "FilterUnary('not', toks[0])"]:
        ctx.ob('C11.D1', '`not` applies to a path and builds FilterUnary("not", path)', True,
               '%s:%s' % (F, missing.lineno))
    else:
        V('hs_missing: %s' % rets, '`not a` does not select the rows lacking a', 'hs_missing is not `not` hs_path -> '
          'FilterUnary("not", path)', missing)
    # cmp
    cm = _unwrap(cmp_)
    rets = [norm(r) for r in G.action_returns(cm.action)] if cm.action else []
    kids = [c.label() for c in cm.children]
    if cm.kind == 'And' and kids == ['hs_path', 'hs_cmpOp', 'hs_val'] and rets == ['FilterBinary(toks[1], toks[0], toks[2])']:
        ctx.ob('C11.D1', 'comparison = path op literal -> FilterBinary(op, path, literal)', True,
               '%s:%s' % (F, cmp_.lineno))
    elif cm.kind == 'And' and kids == ['hs_path', 'hs_cmpOp', 'hs_val']:
        V('; '.join(rets), '`a < 1` is compiled with operands/operator exchanged (e.g. as 1 < a)',
          'hs_cmp action is not FilterBinary(toks[1], toks[0], toks[2])', cmp_)
    else:
        ctx.error('C11.D1', 'hs_cmp shape not recognised: %s' % kids)
    # has
    rets = [norm(r) for r in G.action_returns(has.action)] if has.action else []
    if rets == ["FilterUnary('has', FilterPath([t for t in toks]))"] and has.kind == path.kind \
            and [c.label() for c in has.children] == [c.label() for c in path.children]:
        ctx.ob('C11.D1', 'bare path builds FilterUnary("has", path)', True, '%s:%s' % (F, has.lineno))
    else:
        V('; '.join(rets), '`a` does not select the rows that have a', 'hs_has action is %s' % rets, has)
    # path = name (-> name)*
    pth = _unwrap(path)
    toks_ = [c for c in G.walk(pth) if c.kind == 'Literal']
    if any(t.data['s'] == '->' for t in toks_):
        ctx.ob('C11.D1', 'path segments are separated by "->"', True, '%s:%s' % (F, path.lineno))
    else:
        V('hs_path', '`a->b` is rejected', 'hs_path has no "->" separator', path)


# ------------------------------------------------------------------ D2

def fold_coverage(action, g):
    """For an action on tokens `X (op X)*`: does it consume every operand?
    Returns ('ok', detail) | ('bad', witness) | ('unknown', why)."""
    if isinstance(action, G.Closure):
        body = action.node.body
        stmts = None
    elif isinstance(action, G.FuncRef):
        body = None
        stmts = body_wo_doc(action.node)
        tname = action.node.args.args[0].arg if action.node.args.args else 'toks'
    else:
        return ('unknown', 'no action')
    if body is not None:
        tname = action.node.args.args[0].arg if action.node.args.args else 'toks'
        loops = [n for n in ast.walk(body) if isinstance(n, (ast.ListComp, ast.GeneratorExp))]
        calls = [norm(n.func) for n in ast.walk(body) if isinstance(n, ast.Call)]
        if any(c.endswith('reduce') for c in calls):
            return ('unknown', 'reduce-based fold')
        subs = [n for n in ast.walk(body) if isinstance(n, ast.Subscript) and norm(n.value) == tname]
        if subs and all(isinstance(s.slice, ast.Constant) for s in subs) and not loops:
            idx = sorted({s.slice.value for s in subs})
            return ('bad', 'the action only reads toks%s: in `a and b and c` (tokens a,and,b,and,c) the operand at '
                           'token index 4 is never used -- the filter behaves as `a and b`' % idx)
        return ('unknown', 'lambda with non-constant token access')
    # function: find the loop
    loops = [n for n in stmts if isinstance(n, (ast.For, ast.While))]
    subs = [n for st in stmts for n in ast.walk(st) if isinstance(n, ast.Subscript) and norm(n.value) == tname]
    if not loops:
        if subs and all(isinstance(s.slice, ast.Constant) for s in subs):
            idx = sorted({s.slice.value for s in subs})
            return ('bad', 'the action only reads toks%s: in `a and b and c` the third operand is dropped' % idx)
        return ('unknown', 'no loop')
    lp = loops[0]
    if not isinstance(lp, ast.For) or not isinstance(lp.target, ast.Name):
        return ('unknown', 'loop shape')
    it = lp.iter
    var = lp.target.id
    covered_by_n = {}
    for n in (3, 5, 7):
        idxs = None
        if isinstance(it, ast.Call) and norm(it.func) == 'range':
            vals = []
            for a in it.args:
                v = _arith(a, {'len(%s)' % tname: n})
                if v is None:
                    return ('unknown', 'range argument %s' % norm(a))
                vals.append(v)
            idxs = list(range(*vals))
            used = set()
            for s in [x for x in ast.walk(lp) if isinstance(x, ast.Subscript) and norm(x.value) == tname]:
                for i in idxs:
                    v = _arith(s.slice, {var: i})
                    if v is None:
                        return ('unknown', 'subscript %s' % norm(s))
                    used.add(v)
        elif isinstance(it, ast.Subscript) and norm(it.value) == tname and isinstance(it.slice, ast.Slice):
            lo = _arith(it.slice.lower, {}) if it.slice.lower is not None else 0
            st = _arith(it.slice.step, {}) if it.slice.step is not None else 1
            hi = _arith(it.slice.upper, {'len(%s)' % tname: n}) if it.slice.upper is not None else n
            if None in (lo, st, hi):
                return ('unknown', 'slice %s' % norm(it))
            used = set(range(n)[lo:hi:st])
        else:
            return ('unknown', 'loop iterable %s' % norm(it))
        # operands are at even indices; index 0 must be read outside the loop
        pre = {s.slice.value for st_ in stmts if st_ is not lp for s in ast.walk(st_)
               if isinstance(s, ast.Subscript) and norm(s.value) == tname and isinstance(s.slice, ast.Constant)}
        operands = set(range(0, n, 2))
        got = (used | pre) & operands
        covered_by_n[n] = operands - got
    missing = {n: sorted(v) for n, v in covered_by_n.items() if v}
    if missing:
        n = sorted(missing)[0]
        k = (n + 1) // 2
        return ('bad', 'with %d operands (tokens 0..%d) the fold never reads operand token(s) %s: e.g. `%s` ignores '
                       'an operand' % (k, n - 1, missing[n], ' and '.join('abcd'[:k])))
    # accumulation: FilterBinary(op, acc, item) assigned back to acc
    acc_ok = False
    for n_ in ast.walk(lp):
        if isinstance(n_, ast.Assign) and isinstance(n_.targets[0], ast.Name) and isinstance(n_.value, ast.Call) \
                and norm(n_.value.func) == 'FilterBinary' and len(n_.value.args) == 3:
            acc = n_.targets[0].id
            a1, a2 = norm(n_.value.args[1]), norm(n_.value.args[2])
            if acc in (a1, a2):
                acc_ok = True
    if not acc_ok:
        return ('bad', 'the loop does not accumulate: each iteration builds a node that does not contain the previous '
                       'one, so only the last pair survives in `a and b and c`')
    # exact pairing: iteration k combines operator token 2k+1 with operand token 2k+2, nothing else
    if isinstance(it, ast.Call) and norm(it.func) == 'range':
        for n in (3, 5, 7):
            vals = [_arith(a, {'len(%s)' % tname: n}) for a in it.args]
            pairs_ = []
            for i in range(*vals):
                for c in ast.walk(lp):
                    if isinstance(c, ast.Call) and norm(c.func) == 'FilterBinary' and len(c.args) == 3:
                        subs_ = [a for a in c.args if isinstance(a, ast.Subscript) and norm(a.value) == tname]
                        if len(subs_) == 2:
                            op_i = _arith(c.args[0].slice, {var: i}) if c.args[0] in subs_ else None
                            other = [a for a in subs_ if a is not c.args[0]]
                            od_i = _arith(other[0].slice, {var: i}) if other else None
                            pairs_.append((op_i, od_i))
            want = [(k, k + 1) for k in range(1, n - 1, 2)]
            if pairs_ and pairs_ != want:
                k = (n + 1) // 2
                return ('bad', 'with %d operands (tokens 0..%d) the fold combines (operator token, operand token) = %s, '
                               'expected %s: operands are taken for operators (or the other way round), e.g. in `%s`'
                        % (k, n - 1, pairs_, want, ' and '.join('abcd'[:k])))
    return ('ok', 'loop over %s covers all operands for 2, 3 and 4 operands' % norm(it))


def _arith(e, env):
    if e is None:
        return None
    t = norm(e)
    if t in env:
        return env[t]
    if isinstance(e, ast.Constant) and isinstance(e.value, int):
        return e.value
    if isinstance(e, ast.UnaryOp) and isinstance(e.op, ast.USub):
        v = _arith(e.operand, env)
        return None if v is None else -v
    if isinstance(e, ast.BinOp):
        a, b = _arith(e.left, env), _arith(e.right, env)
        if a is None or b is None:
            return None
        if isinstance(e.op, ast.Add):
            return a + b
        if isinstance(e.op, ast.Sub):
            return a - b
        if isinstance(e.op, ast.Mult):
            return a * b
        if isinstance(e.op, ast.FloorDiv) and b:
            return a // b
    return None


def _folds(ctx, m, g):
    for name, word in (('hs_condAnd', 'and'), ('hs_condOr', 'or')):
        try:
            node = g.get(name)
        except AnalysisError as e:
            ctx.error('C11.D2', str(e))
            continue
        n = _unwrap(node)
        if n.action is None:
            ctx.violation('C11.D2', '%s::%s' % (F, name), 'no parse action', '`a %s b` yields a token list, not a node' % word,
                          '%s has no folding parse action' % name, file=F, line=node.lineno, engine='E2')
            continue
        st, detail = fold_coverage(n.action, g)
        stmt = norm(n.action.node) if hasattr(n.action, 'node') else ''
        if st == 'ok':
            ctx.ob('C11.D2', '%s: %s' % (name, detail), True, '%s:%s' % (F, node.lineno))
            # operator passed to FilterBinary: constant or the token between operands
            ops = set()
            for c in ast.walk(n.action.node):
                if isinstance(c, ast.Call) and norm(c.func) == 'FilterBinary' and c.args:
                    ops.add(norm(c.args[0]))
            good = {repr(word)}
            tn = n.action.node.args.args[0].arg
            if all(o in good or o.startswith('%s[' % tn) for o in ops):
                ctx.ob('C11.D2', '%s builds FilterBinary with operator %s' % (name, sorted(ops)), True,
                       '%s:%s' % (F, node.lineno))
            else:
                ctx.violation('C11.D2', '%s::%s' % (F, name), stmt,
                              '`a %s b` is compiled with operator %s' % (word, sorted(ops)),
                              '%s folds with operator %s instead of %r' % (name, sorted(ops), word), file=F,
                              line=node.lineno, engine='E2')
        elif st == 'bad':
            ctx.violation('C11.D2', '%s::%s' % (F, name), stmt, detail.replace(' and ', ' %s ' % word) if word == 'or' else detail,
                          'the parse action of %s does not consume every operand of the chain' % name, file=F,
                          line=node.lineno, engine='E2')
        else:
            ctx.error('C11.D2', '%s: fold shape not recognised (%s)' % (name, detail))


# ------------------------------------------------------------------ D3

def _generator_branches(m):
    gen = m.func(MOD, '_generate_filter_in_python')
    params = [a.arg for a in gen.args.args]
    node_p, acc = params[0], params[1]
    out = []

    def frags(stmts):
        fr = []
        for st in stmts:
            if isinstance(st, ast.Expr) and isinstance(st.value, ast.Call) and isinstance(st.value.func, ast.Attribute) \
                    and norm(st.value.func.value) == acc and st.value.func.attr in ('append', 'extend'):
                a = st.value.args[0]
                if isinstance(a, ast.Call) and norm(a.func) == gen.name:
                    fr.append(('rec', norm(a.args[0])))
                elif isinstance(a, ast.Constant):
                    fr.append(('const', a.value))
                else:
                    fr.append(('expr', norm(a)))
            elif isinstance(st, ast.If):
                fr.append(('if', st))
            elif isinstance(st, ast.Assert):
                fr.append(('assert', norm(st)))
            else:
                fr.append(('stmt', norm(st)))
        return fr

    def emit(tests, stmts, node):
        fr = frags(stmts)
        nested = [f[1] for f in fr if f[0] == 'if']
        if nested and len(fr) == 1:
            chain(nested[0], tests)
        else:
            out.append((tests, fr, node))

    def chain(ifnode, prefix):
        node = ifnode
        while True:
            emit(prefix + [norm(node.test)], node.body, node)
            if len(node.orelse) == 1 and isinstance(node.orelse[0], ast.If):
                node = node.orelse[0]
            else:
                if node.orelse:
                    emit(prefix + ['else'], node.orelse, node)
                break

    top = [st for st in body_wo_doc(gen) if isinstance(st, ast.If)]
    if top:
        chain(top[0], [])
    return gen, node_p, out


def _operators(ctx, m, g):
    # comparison literal set
    try:
        cmpop = g.get('hs_cmpOp')
    except AnalysisError as e:
        ctx.error('C11.D3', str(e))
        return
    kind, alts = G.alternatives(cmpop)
    lits = [a.data.get('s') for a in alts if a.kind == 'Literal']
    if len(lits) != len(alts):
        ctx.error('C11.D3', 'hs_cmpOp has non-literal alternatives')
    elif set(lits) != set(PY_CMP):
        extra = sorted(set(lits) - set(PY_CMP))
        miss = sorted(set(PY_CMP) - set(lits))
        ctx.violation('C11.D3', '%s::hs_cmpOp' % F, ' | '.join(lits),
                      'filter `a %s 1` %s' % ((miss or extra)[0], 'is rejected' if miss else 'is spliced as Python text'),
                      'comparison operator set is %s (missing %s, extra %s)' % (lits, miss, extra), file=F,
                      line=cmpop.lineno, engine='E2')
    else:
        ctx.ob('C11.D3', 'comparison literals are exactly == != <= >= < >', True, '%s:%s' % (F, cmpop.lineno))
    if kind == 'MatchFirst':
        shadow = [(a, b) for i, a in enumerate(lits) for b in lits[i + 1:] if b.startswith(a) and a != b]
        if shadow:
            a, b = shadow[0]
            ctx.violation('C11.D3', '%s::hs_cmpOp' % F, ' | '.join(lits),
                          '`x %s 1`: the alternative %r matches first, the rest `%s 1` is not a literal, so the filter is '
                          'rejected (or read as a different comparison)' % (b, a, b[len(a):]),
                          'in a first-match alternation %r precedes %r, of which it is a prefix' % (a, b), file=F,
                          line=cmpop.lineno, engine='E3')
        else:
            ctx.ob('C11.D3', 'no comparison literal is shadowed by an earlier prefix (<= before <, >= before >)', True,
                   '%s:%s' % (F, cmpop.lineno))
    # _COMPARE_OPS table
    table = None
    mod = m.mod(MOD)
    for d in mod.bindings.get('_COMPARE_OPS', []):
        if isinstance(d, ast.Assign) and isinstance(d.value, ast.Dict):
            table = d
    if table is not None:
        rows = {}
        for k, v in zip(table.value.keys, table.value.values):
            if isinstance(k, ast.Constant):
                rows[k.value] = norm(v)
        for op, fn in PY_CMP.items():
            got = rows.get(op)
            if got == 'operator.%s' % fn:
                ctx.ob('C11.D3', '_COMPARE_OPS[%r] is operator.%s' % (op, fn), True, '%s:%d' % (F, table.lineno))
            else:
                ctx.violation('C11.D3', '%s::_COMPARE_OPS' % F, '%r: %s' % (op, got),
                              '`curVal %s 75` is evaluated with %s' % (op, got),
                              '_COMPARE_OPS maps %r to %s instead of operator.%s' % (op, got, fn), file=F,
                              line=table.lineno, engine='E9')
        try:
            cf = m.func(MOD, '_compare')
            a = [x.arg for x in cf.args.args]
            body = body_wo_doc(cf)
            tr = body[0] if body and isinstance(body[0], ast.Try) else None
            ok = False
            if tr is not None and len(a) == 3:
                rets = [norm(x.value) for x in tr.body if isinstance(x, ast.Return)]
                hs = [(norm(h.type) if h.type is not None else 'BaseException',
                       [norm(x) for x in h.body]) for h in tr.handlers]
                if rets == ['_COMPARE_OPS[%s](%s, %s)' % (a[0], a[1], a[2])]:
                    ok = True
                    ctx.ob('C11.D3', '_compare(op, l, r) applies the operator to (l, r) in that order', True,
                           '%s:%d' % (F, cf.lineno))
                elif rets == ['_COMPARE_OPS[%s](%s, %s)' % (a[0], a[2], a[1])]:
                    ctx.violation('C11.D3', '%s::_compare' % F, rets[0], '`curVal < 75` selects the rows with curVal > 75',
                                  '_compare applies the operator to (right, left)', file=F, line=cf.lineno, engine='E9')
                    ok = True
                # D4 part: TypeError -> False
                tnames = set()
                for hname, hbody in hs:
                    for part in hname.strip('()').split(','):
                        tnames.add(part.strip())
                    if hbody != ['return False']:
                        ctx.violation('C11.D4', '%s::_compare' % F, '; '.join(hbody),
                                      '`a < 1` on a row whose a is a string does not answer False',
                                      'the TypeError handler of _compare does %s' % hbody, file=F, line=cf.lineno,
                                      engine='E8')
                if 'TypeError' in tnames or 'Exception' in tnames or 'BaseException' in tnames:
                    ctx.ob('C11.D4', 'incomparable kinds: _compare turns TypeError into False', True,
                           '%s:%d' % (F, cf.lineno))
                else:
                    ctx.violation('C11.D4', '%s::_compare' % F, 'except %s' % sorted(tnames),
                                  '`curVal < 75` on a row whose curVal is "n/a": TypeError escapes Grid.filter',
                                  '_compare does not catch TypeError', file=F, line=cf.lineno, engine='E8')
            if not ok:
                ctx.error('C11.D3', '_compare body not recognised')
        except AnalysisError as e:
            ctx.error('C11.D3', str(e))
    # generator branches
    try:
        gen, node_p, branches = _generator_branches(m)
    except AnalysisError as e:
        ctx.error('C11.D3', str(e))
        return
    ctx.count('generator branches', len(branches))
    ctx.floor('generator branches', len(branches), 5)
    seen_cmp = seen_bool = seen_has = seen_not = seen_path = seen_lit = False
    for tests, frs, node in branches:
        t = tests[-1]
        where = '%s:%d' % (F, node.lineno)
        kinds = [f[0] for f in frs]
        if t == 'isinstance(%s, FilterPath)' % node_p:
            seen_path = True
            if frs == [('expr', "'_get_path(_grid, _entity, %%s)' %% %s.path" % node_p)]:
                ctx.ob('C11.D3', 'a path compiles to _get_path(_grid, _entity, <segments>)', True, where)
            else:
                ctx.violation('C11.D3', '%s::_generate_filter_in_python' % F, str(frs),
                              '`a` does not look a up in the current row', 'path branch emits %s' % (frs,), file=F,
                              line=node.lineno, engine='E9')
        elif t.startswith('isinstance(%s, FilterBinary)' % node_p) and '_COMPARE_OPS' in t:
            seen_cmp = True
            want = [('expr', "'_compare(%%r, ' %% %s.op" % node_p), ('rec', '%s.left' % node_p), ('const', ', '),
                    ('rec', '%s.right' % node_p), ('const', ')')]
            if frs == want:
                ctx.ob('C11.D3', 'a comparison compiles to _compare(op, left, right), operands in source order', True,
                       where)
            elif [f for f in frs if f[0] == 'rec'] == [('rec', '%s.right' % node_p), ('rec', '%s.left' % node_p)]:
                ctx.violation('C11.D3', '%s::_generate_filter_in_python' % F, str(frs),
                              '`curVal < 75` selects the rows with curVal > 75', 'comparison operands are emitted in '
                              'reverse order', file=F, line=node.lineno, engine='E9')
            else:
                ctx.error('C11.D3', 'comparison branch fragments not recognised: %s' % (frs,))
        elif t == 'isinstance(%s, FilterBinary)' % node_p:
            seen_bool = True
            want = [('const', '('), ('rec', '%s.left' % node_p), ('expr', "' ' + %s.op + ' '" % node_p),
                    ('rec', '%s.right' % node_p), ('const', ')')]
            if frs == want:
                ctx.ob('C11.D3', 'a binary node compiles to "(" left op right ")": parenthesised, source order', True,
                       where)
            elif [f for f in frs if f[0] != 'const'] == [w for w in want if w[0] != 'const']:
                ctx.violation('C11.D3', '%s::_generate_filter_in_python' % F, str(frs),
                              '`(a or b) and c` is generated as `a or b and c`: Python binds `and` tighter, so rows with '
                              'a but not c are selected', 'binary nodes are not wrapped in parentheses', file=F,
                              line=node.lineno, engine='E9')
            elif sorted(frs, key=str) == sorted(want, key=str):
                ctx.violation('C11.D3', '%s::_generate_filter_in_python' % F, str(frs),
                              'operands/operator of a binary node are emitted in another order', 'binary branch order',
                              file=F, line=node.lineno, engine='E9')
            else:
                # general shape: constants / `<c1> + node.op + <c2>` around the two recursive operands
                import re as _re
                tpl = ''
                okshape = True
                for kind_, txt in frs:
                    if kind_ == 'const':
                        tpl += txt
                    elif kind_ == 'rec':
                        tpl += 'L' if txt.endswith('.left') else ('R' if txt.endswith('.right') else '?')
                    else:
                        mo = _re.match(r"^'([^']*)' \+ %s\.op \+ '([^']*)'$" % _re.escape(node_p), txt)
                        if mo:
                            tpl += mo.group(1) + 'O' + mo.group(2)
                        else:
                            okshape = False
                compact = tpl.replace(' ', '')
                if not okshape or sorted(c for c in compact if c in 'LRO?') != ['L', 'O', 'R']:
                    ctx.error('C11.D3', 'binary branch fragments not recognised: %s' % (frs,))
                elif compact.index('L') > compact.index('R'):
                    ctx.violation('C11.D3', '%s::_generate_filter_in_python' % F, tpl,
                                  'operands of a binary node are emitted in another order', 'binary branch order', file=F,
                                  line=node.lineno, engine='E9')
                else:
                    whole = compact.startswith('(') and compact.endswith(')') and compact.count('(') == compact.count(')')
                    depth = 0
                    if whole:
                        for i_, ch in enumerate(compact):
                            depth += ch == '('
                            depth -= ch == ')'
                            if depth == 0 and i_ < len(compact) - 1:
                                whole = False
                                break
                    each = '(L)' in compact and '(R)' in compact
                    if whole or each:
                        ctx.ob('C11.D3', 'a binary node compiles to `%s`: %s, source order' % (
                            tpl, 'the node is parenthesised' if whole else 'each operand is parenthesised'), True, where)
                    else:
                        bare = 'left' if '(L)' not in compact else 'right'
                        ctx.violation('C11.D3', '%s::_generate_filter_in_python' % F, tpl,
                                      '`(a or b) and c` is generated as `%s`: the %s operand is spliced bare into `... and ...`, '
                                      'Python binds `and` tighter than `or`, so it evaluates as a or (b and c) -- rows with a but '
                                      'not c are selected' % (tpl.replace('L', 'a or b').replace('O', 'and').replace('R', 'c'), bare),
                                      'a binary node is emitted as `%s`: neither the node nor its %s operand is parenthesised'
                                      % (tpl, bare), file=F, line=node.lineno, engine='E9')
        elif t in ("%s.op == 'has'" % node_p, "%s.op == 'not'" % node_p):
            is_has = 'has' in t
            consts = [f[1] for f in frs if f[0] == 'const']
            recs = [f for f in frs if f[0] == 'rec']
            text = ''.join(consts).replace(' ', '')
            want_text = '(id()!=id(NOT_FOUND))' if is_has else '(id()==id(NOT_FOUND))'
            alt_text = '(isnotNOT_FOUND)' if is_has else '(isNOT_FOUND)'
            if is_has:
                seen_has = True
            else:
                seen_not = True
            if recs == [('rec', '%s.right' % node_p)] and text in (want_text, alt_text):
                ctx.ob('C11.D3', '`%s` compiles to an identity test %s NOT_FOUND' % ('has' if is_has else 'not',
                                                                                     '!=' if is_has else '=='), True, where)
            elif recs == [('rec', '%s.right' % node_p)] and text in ('(id()==id(NOT_FOUND))', '(id()!=id(NOT_FOUND))'):
                ctx.violation('C11.D3', '%s::_generate_filter_in_python' % F, ''.join(consts),
                              '`%s` selects exactly the rows it should exclude' % ('site' if is_has else 'not site'),
                              'the identity test of `%s` has the wrong polarity' % ('has' if is_has else 'not'), file=F,
                              line=node.lineno, engine='E9')
            elif recs == [('rec', '%s.right' % node_p)] and 'NOT_FOUND' not in text:
                ctx.violation('C11.D3', '%s::_generate_filter_in_python' % F, ''.join(consts),
                              'rows [{curVal: 0}, {curVal: 5}, {}]: the filter `curVal` must select the first two (the tag '
                              'is present), `not curVal` only the third; a test on the value (%s) treats a present tag '
                              'holding 0, false, "" or null as absent' % text.replace('()', '(<path>)'),
                              '`%s` is compiled to a test of the tag\'s value instead of an identity test against the '
                              'NOT_FOUND sentinel' % ('has' if is_has else 'not'), file=F, line=node.lineno, engine='E9')
            else:
                ctx.error('C11.D3', 'has/not branch fragments not recognised: %s' % (frs,))
        elif t == 'else' and len(tests) == 1:
            seen_lit = True
            if frs == [('expr', 'repr(%s)' % node_p)]:
                ctx.ob('C11.D3', 'a literal compiles to its repr()', True, where)
            else:
                ctx.violation('C11.D5', '%s::_generate_filter_in_python' % F, str(frs),
                              'literals are not spliced as repr(): `a == "x"` compares against something else',
                              'literal branch emits %s' % (frs,), file=F, line=node.lineno, engine='E9')
    for flag, what in ((seen_path, 'path'), (seen_cmp or seen_bool, 'binary'), (seen_has, 'has'), (seen_not, 'not'),
                       (seen_lit, 'literal')):
        if not flag:
            ctx.error('C11.D3', 'generator branch for %s nodes not found' % what)
    if not seen_cmp:
        ctx.violation('C11.D4', '%s::_generate_filter_in_python' % F, 'FilterBinary comparison branch',
                      '`curVal < 75` on a row whose curVal is the string "n/a" raises TypeError out of Grid.filter',
                      'generated comparisons are not evaluated under a construct that turns TypeError into False',
                      file=F, line=gen.lineno, engine='E8')


# ------------------------------------------------------------------ D4

def _sentinel(ctx, m):
    try:
        meths = m.methods(MOD, '_NotFoundValue')
    except AnalysisError as e:
        ctx.error('C11.D4', str(e))
        return
    for name in ('__eq__', '__ne__', '__lt__', '__le__', '__gt__', '__ge__'):
        fn = meths.get(name)
        sym = {'__eq__': '==', '__ne__': '!=', '__lt__': '<', '__le__': '<=', '__gt__': '>', '__ge__': '>='}[name]
        if fn is None:
            ctx.violation('C11.D4', '%s::_NotFoundValue' % F, 'def %s' % name,
                          'filter `zz %s 1` on a row without zz: NOT_FOUND %s 1.0 %s' %
                          (sym, sym, 'raises TypeError' if name not in ('__eq__', '__ne__') else 'uses identity'),
                          'the NOT_FOUND sentinel does not define %s' % name, file=F, engine='E9')
            continue
        body = body_wo_doc(fn)
        if len(body) == 1 and isinstance(body[0], ast.Return) and norm(body[0].value) == 'False':
            ctx.ob('C11.D4', 'NOT_FOUND %s x is False' % sym, True, '%s:%d' % (F, fn.lineno))
        else:
            ctx.violation('C11.D4', '%s::_NotFoundValue.%s' % (F, name), '; '.join(norm(b) for b in body),
                          'filter `zz %s 1` selects rows that have no zz' % sym,
                          'NOT_FOUND.%s does not return False' % name, file=F, line=fn.lineno, engine='E9')
    b = meths.get('__bool__')
    if b is not None and [norm(x) for x in body_wo_doc(b)] == ['return False']:
        ctx.ob('C11.D4', 'NOT_FOUND is falsy', True, '%s:%d' % (F, b.lineno))
    mod = m.mod(MOD)
    inst = [d for d in mod.bindings.get('NOT_FOUND', []) if isinstance(d, ast.Assign)]
    if len(inst) == 1 and norm(inst[0].value) == '_NotFoundValue()':
        ctx.ob('C11.D4', 'NOT_FOUND is the single module-level sentinel instance', True, '%s:%d' % (F, inst[0].lineno))
    else:
        ctx.error('C11.D4', 'NOT_FOUND binding not recognised')


# ------------------------------------------------------------------ D5

LOSSY_IN_REPR = ('round', 'int', 'float', 'abs', 'lower', 'upper', 'strip', 'format', 'trunc', 'floor', 'ceil')


def _repr_exact(ctx, m):
    """literals are spliced into the generated code as repr(value): the repr of every literal class must read its
    fields as they are (%r / repr() of self.<field>).  Rounding or formatting a field in __repr__ compiles the filter
    against another value than the one written."""
    n = 0
    for cname in ('Qty', 'Coordinate', 'Ref', 'Uri', 'Bin', 'XStr'):
        try:
            meths = m.methods('datatypes', cname)
        except AnalysisError:
            continue
        fn = meths.get('__repr__')
        if fn is None:
            continue
        n += 1
        FD_ = 'hszinc/datatypes.py'
        bad = None
        for node in ast.walk(fn):
            if isinstance(node, ast.Call):
                fname = node.func.attr if isinstance(node.func, ast.Attribute) else norm(node.func)
                touches = any(isinstance(x, ast.Attribute) and isinstance(x.value, ast.Name) and x.value.id == 'self'
                              and x.attr not in ('__class__',) for a_ in list(node.args) + [node.func] for x in ast.walk(a_))
                if fname in LOSSY_IN_REPR and touches:
                    bad = node
            if isinstance(node, ast.Constant) and isinstance(node.value, str):
                import re as _re
                if _re.search(r'%[0-9.]*[fegdi]', node.value) or _re.search(r'\{[^}]*:[^}]*[fegd]\}', node.value):
                    bad = node
        # the arguments shown are the constructor's parameters, in the constructor's order
        init = meths.get('__init__')
        order_bad = None
        if init is not None:
            params = [a.arg for a in init.args.args[1:]]
            shown = []
            for node in ast.walk(fn):
                if isinstance(node, ast.BinOp) and isinstance(node.op, ast.Mod) and isinstance(node.right, ast.Tuple):
                    for el in node.right.elts:
                        attrs = [x.attr for x in ast.walk(el) if isinstance(x, ast.Attribute) and isinstance(x.value, ast.Name)
                                 and x.value.id == 'self']
                        if attrs and attrs[0] not in ('__class__',):
                            shown.append(attrs[0])
            alias = {'data_to_string': 'data'}
            shown = [alias.get(a, a) for a in shown]
            if shown and shown != params[:len(shown)]:
                order_bad = (shown, params)
        if order_bad is not None and bad is None:
            ctx.violation('C11.D5', '%s::%s.__repr__' % (FD_, cname), norm(fn.body[-1])[:120],
                          'a %s literal in a filter is compiled as repr(value), which shows the fields %s where the constructor '
                          'takes %s: the generated code builds another value than the literal' % (cname, order_bad[0], order_bad[1]),
                          '%s.__repr__ does not show the constructor arguments in the constructor\'s order' % cname, file=FD_,
                          line=fn.lineno, engine='E10')
            continue
        if bad is not None:
            ctx.violation('C11.D5', '%s::%s.__repr__' % (FD_, cname), norm(bad)[:120],
                          'filter `geoCoord == C(37.5458266,-77.4491888)` on a row holding exactly that coordinate: the literal is '
                          'compiled as repr(value), and %s.__repr__ passes a field through `%s`, so the generated code compares '
                          'against another value (37.545827, -77.449189) and the row is not selected' % (cname, norm(bad)[:40]),
                          '%s.__repr__ does not reproduce its fields exactly (%s)' % (cname, norm(bad)[:40]), file=FD_,
                          line=bad.lineno, engine='E10')
        else:
            ctx.ob('C11.D5', '%s.__repr__ shows its fields as they are (no rounding / numeric formatting)' % cname, True,
                   '%s:%d' % (FD_, fn.lineno))
    ctx.floor('literal classes with __repr__', n, 5)


def _literals(ctx, m, g):
    _repr_exact(ctx, m)
    from . import _zinc
    _zinc.token_use_rule(ctx, 'C11.D5', MOD)
    from . import c17
    c17.zone_applied(ctx, m, 'C11.D5', MOD, '_parse_datetime', 'zinc')
    try:
        hs_val = g.get('hs_val')
    except AnalysisError as e:
        ctx.error('C11.D5', str(e))
        return
    kind, alts = G.alternatives(hs_val)
    globs = m.global_names(MOD)
    mod = m.mod(MOD)
    ctx.count('hs_val alternatives', len(alts))
    ctx.floor('hs_val alternatives', len(alts), 14)
    head_of = {'Quantity': 'BasicQuantity', 'MARKER': 'MARKER', 'NA': 'NA', 'REMOVE': 'REMOVE', 'Uri': 'Uri',
               'Bin': 'Bin', 'Ref': 'Ref', 'Coordinate': 'Coordinate', 'XStr': 'XStr'}
    for a in alts:
        where = '%s:%s' % (F, a.lineno)
        for k in sorted(G.built_kinds(a)):
            if k in head_of:
                h = head_of[k]
                r = m.resolve_name(MOD, h)
                if h in globs and r and r[0] == 'datatypes':
                    ctx.ob('C11.D5', 'literal kind %s: repr head %s resolves to hszinc.datatypes.%s in the exec '
                                     'namespace' % (k, h, h), True, where)
                else:
                    ctx.violation('C11.D5', '%s::%s' % (F, a.label()), 'repr head %s' % h,
                                  'a filter comparing against a %s literal raises NameError when evaluated' % k,
                                  'the name %s (head of repr of %s) is not bound in grid_filter\'s globals' % (h, k),
                                  file=F, line=a.lineno, engine='E10')
            elif k in ('date', 'time', 'datetime'):
                imp = mod.imports.get('datetime')
                if imp == ('datetime', None):
                    ctx.ob('C11.D5', 'literal kind %s: repr head `datetime.` resolves to the datetime module' % k, True,
                           where)
                else:
                    ctx.violation('C11.D5', '%s::%s' % (F, a.label()), 'import of datetime: %s' % (imp,),
                                  'filter `a == 2020-01-02` crashes: repr is datetime.date(2020, 1, 2) but `datetime` is '
                                  'bound to %s in the exec namespace' % (imp,),
                                  'the head of repr(%s) does not resolve to the datetime module' % k, file=F,
                                  line=a.lineno, engine='E10')
                if k == 'datetime':
                    # tz-name branch gives a pytz tzinfo whose repr is not an expression
                    act = a.action
                    if isinstance(act, G.FuncRef):
                        for n in ast.walk(act.node):
                            if isinstance(n, ast.Return) and 'astimezone' in norm(n) and any(
                                    isinstance(x, ast.Call) and norm(x.func) == 'timezone' for x in ast.walk(act.node)):
                                ctx.violation('C11.D5', '%s::%s' % (F, act.name), norm(n),
                                              'filter `ts == 2020-01-02T03:04:05Z UTC` (any date-time literal with a zone '
                                              'name): repr() contains tzinfo=<UTC> / <DstTzInfo …>, the generated '
                                              'source does not compile (SyntaxError)',
                                              'a date-time literal converted with astimezone(<pytz zone>) has a repr that '
                                              'is not a Python expression, but literals are spliced as repr()', file=F,
                                              line=n.lineno, engine='E10')
                                break
            elif k in ('float', 'int', 'bool', 'None', 'str', 'list', 'dict'):
                ctx.ob('C11.D5', 'literal kind %s: builtin repr denotes the value' % k, True, where)
            elif k == 'token':
                # a bare token compares as a string
                leaves = [x for x in G.walk(a) if x.kind in ('Literal', 'Regex', 'Word') and x.action is None]
                lits = sorted({x.data.get('s') for x in G.walk(a) if x.kind == 'Literal' and x.action is None
                               and not _under_action(a, x)})
                ctx.violation('C11.D5', '%s::%s' % (F, a.label()), 'alternatives without parse action: %s' % lits,
                              'filter `v == INF`: the literal has no float() action and is compared as the string '
                              "'INF'; the spec spelling NaN is not accepted at all (the grammar says 'Nan')"
                              if any(s in ('INF', '-INF', 'Nan', 'NaN') for s in lits) else
                              'literal %s is compared as its source text' % lits,
                              'literal alternative(s) %s of %s yield the matched text instead of a value' % (lits, a.label()),
                              file=F, line=a.lineno, engine='E2')
            else:
                ctx.error('C11.D5', 'literal alternative %s builds unrecognised kind %s' % (a.label(), k))
    # first-match shadowing among literal alternatives (constant literals only)
    if kind == 'MatchFirst':
        flat = []
        for a in alts:
            n = _unwrap(a)
            if n.kind == 'Literal':
                flat.append((n.data['s'], a))
        for i, (s1, a1) in enumerate(flat):
            for s2, a2 in flat[i + 1:]:
                if s2.startswith(s1) and s1 != s2:
                    ctx.violation('C11.D5', '%s::hs_val' % F, '%s before %s' % (a1.label(), a2.label()),
                                  'filter `a == %s`: alternative %r matches first and leaves %r unparsed' % (s2, s1, s2[len(s1):]),
                                  'literal %r precedes %r (its extension) in a first-match alternation' % (s1, s2),
                                  file=F, line=a1.lineno, engine='E3')
        ctx.ob('C11.D5', 'constant literal alternatives of hs_val checked for prefix shadowing (%d)' % len(flat), True)


def _under_action(root, leaf):
    """Is `leaf` inside a sub-element of root that has a parse action?"""
    def go(n):
        if n.id == leaf.id:
            return True, False
        for c in n.children:
            hit, act = go(c)
            if hit:
                return True, act or (n.action is not None and n.id != root.id)
        return False, False
    hit, act = go(root)
    return act or (root.action is not None)


# ------------------------------------------------------------------ D6

def _row_loop(ctx, m):
    FG = 'hszinc/grid.py'
    try:
        fn = m.func('grid', 'Grid.filter', 'flat')
    except AnalysisError as e:
        ctx.error('C11.D6', str(e))
        return
    a = [x.arg for x in fn.args.args]
    s = a[0]
    lim = a[2] if len(a) > 2 else 'limit'
    loops = [n for n in body_wo_doc(fn) if isinstance(n, ast.For)]
    if len(loops) != 1:
        ctx.error('C11.D6', 'Grid.filter: row loop not found')
        return
    lp = loops[0]
    where = '%s:%d' % (FG, lp.lineno)
    V = lambda stmt, wit, what, line=None: ctx.violation('C11.D6', '%s::Grid.filter' % FG, stmt, wit, what, file=FG,
                                                         line=line or lp.lineno, engine='E6')
    if norm(lp.iter) in ('%s._row' % s, s, 'iter(%s)' % s):
        ctx.ob('C11.D6', 'rows are visited in grid order (%s)' % norm(lp.iter), True, where)
    else:
        V(norm(lp.iter), 'result rows are not in the original order', 'the row loop ranges over %s' % norm(lp.iter))
    row = norm(lp.target)
    body = lp.body
    # result construction
    res = None
    for st in body_wo_doc(fn):
        if isinstance(st, ast.Assign) and isinstance(st.value, ast.Call) and st._seq < lp._seq and st in fn.body:
            if norm(st.value.func) == 'Grid':
                res = st
                res_ctor = st.value
            elif isinstance(st.value.func, ast.Attribute) and norm(st.value.func.value) == s:
                try:
                    helper = m.func('grid', 'Grid.%s' % st.value.func.attr)
                    rets = [r.value for r in walk_no_nested(helper) if isinstance(r, ast.Return) and r.value is not None]
                    if len(rets) == 1 and isinstance(rets[0], ast.Call) and norm(rets[0].func) == 'Grid':
                        res = st
                        res_ctor = rets[0]
                except AnalysisError:
                    pass
    fnvar = None
    for st in body_wo_doc(fn):
        if isinstance(st, ast.Assign) and isinstance(st.value, ast.Call) and norm(st.value.func) == 'filter_function':
            fnvar = norm(st.targets[0])
            if norm(st.value.args[0]) != a[1]:
                V(norm(st), 'another text than the given filter is compiled', 'filter_function(%s)' % norm(st.value.args[0]),
                  st.lineno)
    if res is None or fnvar is None:
        ctx.error('C11.D6', 'Grid.filter: result grid / compiled function not found')
        return
    # every grid built inside filter() (the empty-filter-with-limit path too) carries the source's header
    for c in ast.walk(fn):
        if isinstance(c, ast.Call) and norm(c.func) == 'Grid' and c is not res_ctor:
            kw_ = {k.arg: norm(k.value) for k in c.keywords}
            if kw_.get('version') in ('%s.version' % s, '%s._version' % s) and kw_.get('metadata') == '%s.metadata' % s \
                    and kw_.get('columns') == '%s.column' % s:
                ctx.ob('C11.D6', 'the grid built at line %d carries version, metadata and columns of the source' % c.lineno, True,
                       '%s:%d' % (FG, c.lineno))
            else:
                missing = [k for k in ('version', 'metadata', 'columns') if k not in kw_]
                V(norm(c), "grid.filter('', limit=2) on a 3.0 grid: the result is built as `%s` and loses %s of the source"
                  % (norm(c)[:80], ', '.join(missing) or 'header fields'),
                  'a result grid of filter() is built without %s' % (', '.join(missing) or 'the source header'), c.lineno)
    rn = norm(res.targets[0])
    kw = {k.arg: norm(k.value) for k in res_ctor.keywords}
    if kw.get('version') in ('%s.version' % s, '%s._version' % s) and kw.get('metadata') == '%s.metadata' % s \
            and kw.get('columns') == '%s.column' % s:
        ctx.ob('C11.D6', 'the result carries version, metadata and columns of the source', True,
               '%s:%d' % (FG, res.lineno))
    else:
        V(norm(res), 'grid.filter(...) loses the version/metadata/columns of the source',
          'result grid is built as %s' % norm(res_ctor), res.lineno)
    texts = [norm(x) for x in body]
    want_if = 'if %s(%s, %s):\n    %s.append(%s)' % (fnvar, s, row, rn, row)
    if texts and texts[0] == want_if:
        ctx.ob('C11.D6', 'a row is appended exactly when the compiled function is truthy for (grid, row)', True, where)
    else:
        neg = 'if not %s(%s, %s):' % (fnvar, s, row)
        V(texts[0] if texts else '', 'the selection is inverted or applied to other arguments'
          if texts and texts[0].startswith(neg) else 'rows are not selected by the compiled filter',
          'loop body starts with `%s`' % (texts[0].split('\n')[0] if texts else ''))
    lim_if = [x for x in body if isinstance(x, ast.If) and any(isinstance(y, ast.Break) for y in x.body)]
    okl = False
    if len(lim_if) == 1:
        t = norm(lim_if[0].test)
        if t in ('%s and len(%s) == %s' % (lim, rn, lim), '%s and len(%s) >= %s' % (lim, rn, lim),
                 '%s and %s <= len(%s)' % (lim, lim, rn)):
            okl = True
            ctx.ob('C11.D6', 'the loop stops as soon as `limit` rows were selected', True,
                   '%s:%d' % (FG, lim_if[0].lineno))
        else:
            V(t, 'grid.filter(f, limit=2) returns %s' % ('3 rows' if '>' in t and '>=' not in t else 'another number of rows than 2'),
              'limit test is `%s`' % t, lim_if[0].lineno)
            okl = True
        # must come after the append
        if body.index(lim_if[0]) == 0:
            V(t, 'limit is tested before the row is appended', 'limit test precedes the append', lim_if[0].lineno)
    if not okl:
        V('limit', 'grid.filter(f, limit=1) returns every matching row', 'no `break` on limit in the row loop')
    rets = [n for n in body_wo_doc(fn) if isinstance(n, ast.Return)]
    if rets and norm(rets[-1].value) == rn:
        ctx.ob('C11.D6', 'the result grid is returned', True, '%s:%d' % (FG, rets[-1].lineno))
    else:
        V('return', 'filter() does not return the selected rows', 'final return is %s' % (norm(rets[-1].value) if rets else None))
    # empty filter branch
    first = body_wo_doc(fn)
    emp = [st for st in first if isinstance(st, ast.If) and norm(st.test) in ("%s.strip() == ''" % a[1], 'not %s.strip()' % a[1])]
    if emp:
        ctx.ob('C11.D6', 'an empty filter selects every row (limit via slicing)', True, '%s:%d' % (FG, emp[0].lineno))


# ------------------------------------------------------------------ D7

def _get_path(ctx, m):
    try:
        fn = m.func(MOD, '_get_path')
    except AnalysisError as e:
        ctx.error('C11.D7', str(e))
        return
    a = [x.arg for x in fn.args.args]
    if len(a) != 3:
        ctx.error('C11.D7', '_get_path signature changed')
        return
    grid, obj, paths = a
    body = body_wo_doc(fn)
    tr = body[0] if body and isinstance(body[0], ast.Try) else None
    if tr is None:
        ctx.error('C11.D7', '_get_path: try block not found')
        return
    V = lambda rule, stmt, wit, what, line=None: ctx.violation(rule, '%s::_get_path' % F, stmt, wit, what, file=F,
                                                               line=line or fn.lineno, engine='E6')
    caught = set()
    for h in tr.handlers:
        t = norm(h.type) if h.type is not None else 'BaseException'
        for part in t.strip('()').split(','):
            caught.add(part.strip())
        if [norm(x) for x in h.body] != ['return NOT_FOUND']:
            V('C11.D4', '; '.join(norm(x) for x in h.body), '`zz` on a row without zz does not evaluate to NOT_FOUND',
              'the lookup-failure handler does not return NOT_FOUND', h.lineno)
    if 'KeyError' in caught or 'LookupError' in caught or 'Exception' in caught:
        ctx.ob('C11.D4', 'a missing tag or dangling reference (KeyError) is NOT_FOUND', True, '%s:%d' % (F, tr.lineno))
    else:
        V('C11.D4', 'except %s' % sorted(caught), '`zz` on a row without zz raises KeyError out of Grid.filter',
          '_get_path does not catch KeyError')
    if 'TypeError' in caught or 'Exception' in caught:
        ctx.ob('C11.D4', 'a step through a value that has no tags (TypeError) is NOT_FOUND', True,
               '%s:%d' % (F, tr.lineno))
    else:
        V('C11.D4', 'except %s' % sorted(caught), '`a->b` on a row whose a is the number 5: 5["b"] raises TypeError out of '
          'Grid.filter instead of the comparison being false', '_get_path does not catch TypeError')
    # attribute calls on the value being walked (`obj.get(tag, NOT_FOUND)`): a string / number / marker has no such
    # method -- AttributeError, which the handler must turn into NOT_FOUND like the KeyError / TypeError of obj[tag]
    attr_calls = [c for x in tr.body for c in ast.walk(x) if isinstance(c, ast.Call) and isinstance(c.func, ast.Attribute)
                  and isinstance(c.func.value, ast.Name) and c.func.value.id == obj and c.func.attr in ('get', 'keys', 'items', '__getitem__')]
    if attr_calls and not ({'AttributeError', 'Exception', 'BaseException'} & caught):
        c0 = attr_calls[0]
        V('C11.D4', norm(c0), '`siteRef->geoCity` on a grid where some row holds siteRef: "siteA" (a plain string, not a reference): '
          'the value before the last hop is a str, `%s` raises AttributeError, the handler only catches %s, and Grid.filter aborts '
          'instead of treating the path as absent' % (norm(c0)[:40], sorted(caught)),
          '_get_path calls a mapping method on the walked value, but its handler does not catch AttributeError', c0.lineno)
    loops = [n for n in tr.body if isinstance(n, ast.For)]
    if len(loops) != 1:
        ctx.error('C11.D7', '_get_path: segment loop not found')
        return
    lp = loops[0]
    if norm(lp.iter) == paths and isinstance(lp.target, ast.Name):
        # no position at hand: is "the last hop" decided by the NAME of the segment?
        seg = lp.target.id
        for st in lp.body:
            if isinstance(st, ast.If) and 'isinstance(%s, Ref)' % obj in norm(st.test):
                parts = [norm(v) for v in st.test.values] if isinstance(st.test, ast.BoolOp) else [norm(st.test)]
                by_name = [t for t in parts if t in ('%s != %s[-1]' % (seg, paths), '%s[-1] != %s' % (paths, seg),
                                                     '%s is not %s[-1]' % (seg, paths), 'not %s == %s[-1]' % (seg, paths))]
                if by_name:
                    V('C11.D7', norm(st.test), '`parentRef->parentRef` (or `a->b->a`): the first hop has the same NAME as the last '
                      'one, so it is taken for the last hop and its reference is not followed -- the path evaluates to NOT_FOUND '
                      'and the filter selects nothing', 'whether a segment is the last hop is decided by comparing its name with '
                      'the last name (`%s`), not by its position' % by_name[0], st.lineno)
                    return
        ctx.error('C11.D7', '_get_path: loop is not over enumerate(paths)')
        return
    if norm(lp.iter) != 'enumerate(%s)' % paths or not isinstance(lp.target, ast.Tuple):
        ctx.error('C11.D7', '_get_path: loop is not over enumerate(paths)')
        return
    i, seg = [norm(e) for e in lp.target.elts]
    texts = [norm(x) for x in lp.body]
    if texts and texts[0] == '%s = %s[%s]' % (obj, obj, seg):
        ctx.ob('C11.D7', 'each segment indexes the current value', True, '%s:%d' % (F, lp.lineno))
    else:
        V('C11.D7', texts[0] if texts else '', '`a->b` does not read b of the value of a', 'first loop statement is %s' % texts[:1])
    follow = [x for x in lp.body if isinstance(x, ast.If)]
    if len(follow) == 1:
        t = norm(follow[0].test)
        good = {'%s != len(%s) - 1 and isinstance(%s, Ref)' % (i, paths, obj),
                '%s < len(%s) - 1 and isinstance(%s, Ref)' % (i, paths, obj),
                'isinstance(%s, Ref) and %s != len(%s) - 1' % (obj, i, paths),
                'isinstance(%s, Ref) and %s < len(%s) - 1' % (obj, i, paths)}
        if t in good:
            ctx.ob('C11.D7', 'only non-final segments that are references are followed', True,
                   '%s:%d' % (F, follow[0].lineno))
        elif t == 'isinstance(%s, Ref)' % obj:
            V('C11.D7', t, '`siteRef == @s1`: the final reference is dereferenced too, so the comparison sees the site '
              'row instead of the reference (never equal)', 'references are followed on the last segment as well',
              follow[0].lineno)
        else:
            V('C11.D7', t, '`siteRef->geoCity == "Chicago"` does not follow siteRef to the site row', 'reference-following '
              'guard is `%s`' % t, follow[0].lineno)
        fb = [norm(x) for x in follow[0].body]
        if fb == ['%s = %s[%s.name]' % (obj, grid, obj)]:
            ctx.ob('C11.D7', 'a reference is followed through the grid\'s id lookup (grid[ref.name])', True,
                   '%s:%d' % (F, follow[0].lineno))
            # key agreement with the id index (C15): index keys are str(id); str(Ref(n)) is '@n'
            try:
                rs = m.func('datatypes', 'Ref.__str__')
                rets = [norm(r.value) for r in ast.walk(rs) if isinstance(r, ast.Return)]
                if any(r.startswith("'@%s") for r in rets):
                    ctx.violation('C11.D7', '%s::_get_path' % F, fb[0],
                                  "rows [{id: Ref('s1'), geoCity: 'Chicago'}, {siteRef: Ref('s1')}] (ids as parsed from "
                                  "ZINC `@s1`): `siteRef->geoCity == \"Chicago\"` selects nothing -- the index key of "
                                  "the site row is str(Ref('s1')) = '@s1', the lookup key is the bare name 's1'",
                                  'reference following looks rows up by ref.name, but the id index is keyed by str(id); '
                                  'the two agree only when ids are plain strings, not Refs', file=F,
                                  line=follow[0].lineno, engine='E9')
            except AnalysisError:
                pass
        elif fb in (['%s = %s[%s]' % (obj, grid, obj)], ['%s = %s[str(%s)]' % (obj, grid, obj)]):
            ctx.ob('C11.D7', 'a reference is followed through the grid\'s id lookup', True, '%s:%d' % (F, follow[0].lineno))
        else:
            V('C11.D7', '; '.join(fb), 'a->b does not continue in the row the reference points to',
              'reference following does %s' % fb, follow[0].lineno)
    else:
        V('C11.D7', 'no reference following', '`siteRef->geoCity` never leaves the current row',
          '_get_path does not follow references')
    rets = [norm(x.value) for x in tr.body if isinstance(x, ast.Return)]
    if rets == [obj]:
        ctx.ob('C11.D7', 'the value reached is returned', True, '%s:%d' % (F, fn.lineno))
    else:
        V('C11.D7', '; '.join(rets), 'a path evaluates to something other than the tag value', '_get_path returns %s' % rets)


# ------------------------------------------------------------------ D8

SIBLINGS = ['hs_strChar', 'hs_uriChar', 'hs_digits', 'hs_alpha', 'hs_valueSep', 'hs_digit', 'hs_binChar', 'hs_tzName',
            'hs_id']
UNESCAPE = {'hs_str': 'False', 'hs_uri': 'True'}


def _siblings(ctx, m, g):
    try:
        z = G.grammar_of(m, 'zincparser')
    except AnalysisError as e:
        ctx.error('C11.D8', str(e))
        return
    n = 0
    for name in SIBLINGS:
        a = g.env.get(name)
        b = z.env.get(name)
        if not isinstance(a, G.GNode) or not isinstance(b, G.GNode):
            continue
        n += 1
        try:
            ra = G.ToRx().rx(_force_leave(a))
            rb = G.ToRx().rx(_force_leave(b))
            w1 = L.find_not_included(ra, rb)
            w2 = L.find_not_included(rb, ra)
        except L.Unsupported as e:
            ctx.error('C11.D8', '%s: %s' % (name, e))
            continue
        if not w1 and not w2:
            ctx.ob('C11.D8', 'token %s has the same language in the filter grammar and in the ZINC grammar' % name,
                   True, '%s:%s' % (F, a.lineno))
        else:
            w = (w1 or w2)[0]
            ctx.violation('C11.D8', '%s::%s' % (F, name), a.data.get('pattern', a.label()),
                          'the text %r is a %s token in one grammar and not in the other (%s)' % (
                              L.render(w), name, 'filter only' if w1 else 'ZINC only'),
                          'the filter grammar\'s %s differs from its ZINC sibling' % name, file=F, line=a.lineno,
                          engine='E3')
    ctx.floor('sibling token pairs', n, 7)
    for name, uri in UNESCAPE.items():
        a = g.env.get(name)
        if not isinstance(a, G.GNode):
            ctx.error('C11.D8', 'anchor vanished: %s' % name)
            continue
        calls = []
        if a.action is not None and hasattr(a.action, 'node'):
            for c in ast.walk(a.action.node):
                if isinstance(c, ast.Call) and norm(c.func) == '_unescape':
                    kw = {k.arg: norm(k.value) for k in c.keywords}
                    flag = kw.get('uri', norm(c.args[1]) if len(c.args) > 1 else 'False')
                    calls.append(flag)
        if calls == [uri]:
            ctx.ob('C11.D8', '%s literal is unescaped with _unescape(uri=%s), as in the ZINC grammar' % (name, uri),
                   True, '%s:%s' % (F, a.lineno))
        elif not calls:
            ctx.violation('C11.D8', '%s::%s' % (F, name), norm(a.action.node) if a.action is not None and hasattr(a.action, 'node') else 'no action',
                          'filter `name == "a\\"b"` compares against the five characters a\\"b instead of a"b',
                          'the %s literal of the filter grammar lacks the _unescape step of its ZINC sibling' % name,
                          file=F, line=a.lineno, engine='E2')
        else:
            ctx.violation('C11.D8', '%s::%s' % (F, name), str(calls),
                          '%s literals are unescaped with the %s rules' % (name, 'URI' if calls[0] == 'True' else 'string'),
                          '_unescape is called with uri=%s for %s' % (calls[0], name), file=F, line=a.lineno, engine='E2')
    # _unescape must be the zincparser function
    r = m.resolve_name(MOD, '_unescape')
    if r == ('zincparser', '_unescape'):
        ctx.ob('C11.D8', '_unescape is zincparser._unescape', True)
    else:
        ctx.error('C11.D8', '_unescape resolves to %s' % (r,))


def _force_leave(n):
    c = n.clone(deep=True)
    c.set_leave_ws(True)
    return c
