"""C07 -- anything parsed can be re-dumped, transcoded and re-parsed unchanged; dumping is pure and idempotent."""
from __future__ import annotations

import ast

from .. import ppgrammar as G
from .. import templates as TP
from ..lang import Unsupported
from ..model import AnalysisError, body_wo_doc, norm, walk_no_nested
from . import _json as J
from . import _zinc
from . import c10

META = {
    'level': 'other',
    'explanation': (
        'Static effect and agreement analysis.  (D1) purity: in every function of zincdumper.py, jsondumper.py and '
        'dumper.py there is no store through, and no mutator call on, anything derived from the parameters (the grid, '
        'its metadata, columns, rows, scalars); the stores that exist (_meta[\'ver\'], _meta[\'name\']) are on containers '
        'the function itself built.  (D2) determinism: on those paths no iteration over a set, no id()/hash()/time/'
        'random, no module-global writes; the zone maps are write-once lazies built from ordered iterables.  (D3) gate '
        'agreement between parse and dump (shared with C10.D3): every version gate uses the same normalisation, so '
        'whatever a reader accepted for version v the writers accept for v.  (D4) closure: the two writer ladders accept '
        'the same kinds, and every Python kind either reader can construct (ZINC parse actions, JSON cascade, raw JSON '
        'numbers/booleans, plain-dict column metadata) has a branch in both ladders -- "anything parsed can be dumped" '
        'cannot fail for want of a branch.  Also: no dump function is memoised on its argument (equal values of different kinds have different texts); the ZINC escape pair (shared with C08.D1) and the exact JSON time conversion (shared with C05) keep both transcoding legs lossless.  Not decided: loss-freeness and idempotence as executions; whether '
        'timezone_name finds a zone for a parser-made fixed-offset tzinfo (tz database; its exception discipline is '
        'C17.D3).'
        ' Also (D3): both readers convert a stamp INTO the named zone (date-time API rule and zone_applied shared with C17.D2); the empty display string of a reference survives either format.'
        ' Also (D2): a memoised text function is not handed an unhashable str subclass (Bin).  (D3) the written zone label is timezone_name(value) on every path.'
        ' Also (D3): the text of a number is not trimmed with a digit-bearing strip set unless the exponent form is excluded.'
        ' Round 9: (D1) Version.nearest is pure; the writer modules keep no memo keyed by the value.'),
    'rule_text': 'obligations = dumper functions x purity, determinism scan, gate comparisons, reader kinds x ladders',
    'trusted_base': ['dict preserves insertion order (CPython >= 3.7); json.dumps is deterministic for a given object'],
}

MUTATORS = {'pop', 'popitem', 'clear', 'update', 'setdefault', 'append', 'extend', 'insert', 'remove', 'sort', 'reverse',
            'add_item', '__setitem__', '__delitem__', 'discard', 'add', 'reindex'}
NONDET = {'id', 'hash', 'time.time', 'random.random', 'random.choice', 'uuid.uuid4', 'os.urandom', 'datetime.datetime.now',
          'datetime.now', 'time.monotonic'}


def run(ctx):
    m = ctx.model
    n_fn = 0
    for modname in ('zincdumper', 'jsondumper', 'dumper'):
        mod = m.mod(modname)
        F = 'hszinc/%s.py' % modname
        for fn in [n for n in ast.walk(mod.tree) if isinstance(n, ast.FunctionDef)]:
            n_fn += 1
            _purity(ctx, fn, F)
            _determinism(ctx, fn, F)
            _not_memoised(ctx, fn, F)
    # functions the dumpers reach in zoneinfo (zone-name selection): same purity/determinism obligations,
    # module-level state included (a cache keyed by offset makes a dump depend on what was dumped before)
    zmod = m.mod('zoneinfo')
    module_level = set(zmod.bindings)
    for fn in [n for n in ast.walk(zmod.tree) if isinstance(n, ast.FunctionDef)]:
        if fn.name in ('timezone_name', 'timezone', 'get_tz_map', 'get_tz_rmap'):
            n_fn += 1
            _purity(ctx, fn, 'hszinc/zoneinfo.py', module_level)
            _determinism(ctx, fn, 'hszinc/zoneinfo.py')
            _no_module_state(ctx, fn, 'hszinc/zoneinfo.py', module_level)
    ctx.count('dumper functions analysed', n_fn)
    ctx.floor('dumper functions analysed', n_fn, 30)
    _zone_maps(ctx, m)
    # D3
    gates = []
    c10._writer_site(_Quiet(ctx), m, 'zincdumper', gates)
    c10._writer_site(_Quiet(ctx), m, 'jsondumper', gates)
    c10._json_reader(_Quiet(ctx), m, gates)
    c10._grid_site(_Quiet(ctx), m, gates)
    _agree(ctx, gates)
    _closure(ctx, m)
    # transcoding keeps the version: both writers put the grid's own version in the header and thread it down
    from . import _zinc
    # lossless ZINC leg: what the writer escapes, the reader un-escapes to the same text (clause shared with C08.D1)
    for which in ('str', 'uri'):
        _zinc.escape_pair(ctx, 'C07.D3', which)
    # dumping compares versions (the 3.0 gates): comparing must not change a Version (shared with C18.D2)
    from . import c18
    c18.version_immutable(ctx, 'C07.D1')
    c18.nearest_pure(ctx, 'C07.D1')
    for modname in ('zincdumper', 'jsondumper'):
        writer_memo(ctx, 'C07.D1', modname)
    # every parsed XStr can be dumped again: decoding and encoding agree on the encoding name (shared with C06.D2)
    _zinc.xstr_codec(ctx, 'C07.D3')
    for modname in ('zincdumper', 'jsondumper'):
        _zinc.header_version(ctx, 'C07.D3', modname)
        _zinc.version_threading(ctx, 'C07.D3', modname)
    # lossless transcoding of date-times: both readers convert the stamp INTO the named zone (astimezone keeps the
    # instant); a reader that re-labels the wall clock instead disagrees with the other format (shared with C17.D2)
    from . import c17
    c17._api(ctx, m, rule='C07.D3', only=('zincparser', 'jsonparser', 'zincdumper', 'jsondumper'))
    for modname in ('zincdumper', 'jsondumper'):
        _zinc.number_text_edits(ctx, 'C07.D3', modname)
    c17.zone_applied(ctx, m, 'C07.D3', 'zincparser', '_parse_datetime', 'zinc')
    c17.zone_applied(ctx, m, 'C07.D3', 'jsonparser', 'parse_embedded_scalar', 'json')
    # the empty display string of a reference survives either format (shared with C08)
    from . import _ref
    _ref.ref_init(ctx, 'C07.D3')
    _ref.json_ref_branch(ctx, 'C07.D3')
    _ref.zinc_ref_action(ctx, 'C07.D3')


class _Quiet(object):
    """context proxy: collect gates without recording C10's own obligations under C07"""

    def __init__(self, ctx):
        self._ctx = ctx
        self.model = ctx.model

    def ob(self, *a, **k):
        return True

    def violation(self, *a, **k):
        return None

    def error(self, *a, **k):
        return None

    def note(self, *a, **k):
        return None

    def count(self, *a, **k):
        return None

    def floor(self, *a, **k):
        return None


TEXT_ONLY = ('dump_str', 'dump_uri', 'dump_id', 'str_sub', 'uri_sub', 'ctrl_sub')


def _unhashable_callers(ctx, fn, F):
    """[(caller, class)]: writer functions of the same module that pass their own value argument to `fn`, where the
    scalar ladder routes values of `class` to that caller and `class` (datatypes.py) defines __eq__ but not __hash__"""
    m = ctx.model
    modname = F.split('/')[-1][:-3]
    try:
        mod = m.mod(modname)
        dmod = m.mod('datatypes')
        ladder = m.func(modname, 'dump_scalar', 'nested')
    except AnalysisError:
        return []
    unhashable = set()
    for c in ast.walk(dmod.tree):
        if isinstance(c, ast.ClassDef):
            names = {x.name for x in c.body if isinstance(x, ast.FunctionDef)}
            assigned = {t.id for x in c.body if isinstance(x, ast.Assign) for t in x.targets if isinstance(t, ast.Name)}
            if '__eq__' in names and '__hash__' not in names and '__hash__' not in assigned:
                unhashable.add(c.name)
    routed = {}
    for n in ast.walk(ladder):
        if isinstance(n, ast.If) and isinstance(n.test, ast.Call) and norm(n.test.func) == 'isinstance' and len(n.test.args) == 2:
            cls = norm(n.test.args[1])
            for r in n.body:
                if isinstance(r, ast.Return) and isinstance(r.value, ast.Call) and isinstance(r.value.func, ast.Name):
                    routed.setdefault(r.value.func.id, set()).add(cls)
    out = []
    for g in [x for x in mod.tree.body if isinstance(x, ast.FunctionDef) and x is not fn]:
        if not g.args.args:
            continue
        p0 = g.args.args[0].arg
        for c in ast.walk(g):
            if isinstance(c, ast.Call) and isinstance(c.func, ast.Name) and c.func.id == fn.name and c.args and norm(c.args[0]) == p0:
                for cls in sorted(routed.get(g.name, ())):
                    if cls in unhashable:
                        out.append((g.name, cls))
    return out


def _not_memoised(ctx, fn, F):
    """a dump function memoised on its argument answers for every value that is == to an earlier one: 1, 1.0 and True
    are equal and hash alike, aware date-times compare by instant -- the text of a value would depend on what was
    dumped before it"""
    for d in fn.decorator_list:
        dn = (norm(d.func) if isinstance(d, ast.Call) else norm(d)).split('.')[-1]
        if dn in ('lru_cache', 'cache', 'memoize', 'memoized', 'cached'):
            if fn.name in TEXT_ONLY:
                # ... provided every value handed to it can be hashed: a str SUBCLASS that defines __eq__ without __hash__
                # (Python then sets __hash__ to None) cannot be a cache key
                bad = _unhashable_callers(ctx, fn, F)
                if bad:
                    caller, cls = bad[0]
                    ctx.violation('C07.D2', '%s::%s' % (F, fn.name), '@' + norm(d),
                                  'a grid holding a %s, written by %s through %s: %s defines __eq__ and no __hash__, so the cache '
                                  'look-up raises TypeError (unhashable type) -- a grid that was parsed cannot be dumped again'
                                  % (cls, caller, fn.name, cls),
                                  '%s is memoised, and %s hands it a %s, which is not hashable' % (fn.name, caller, cls),
                                  file=F, line=fn.lineno, engine='E7')
                    continue
                ctx.ob('C07.D2', '%s is memoised on text arguments only (string equality is exact)' % fn.name, True,
                       '%s:%d' % (F, fn.lineno))
            else:
                ctx.violation('C07.D2', '%s::%s' % (F, fn.name), '@' + norm(d),
                              'dump a grid holding 1.0, then a grid holding 1 (or True; or the same instant in two zones): the '
                              'values are == and hash alike, so the second is written with the cached text of the first -- the '
                              'dump of a grid depends on what was dumped earlier in the process',
                              '%s is memoised on its argument, but equal values of different kinds have different texts'
                              % fn.name, file=F, line=fn.lineno, engine='E7')


def writer_memo(ctx, rule, modname):
    """A writer keeps no table of texts keyed by the value: Python equality is coarser than "the same Haystack value"
    (aware date-times are equal by instant whatever their zone, 0.0 == -0.0, 1 == 1.0 == True, equal Quantities of int and
    float), so a memo keyed by the value hands the text of the first of two equal values to the second.  Decides: no
    function of the writer module stores into a module-level container under a key computed from the value it writes."""
    m = ctx.model
    try:
        mod = m.mod(modname)
    except AnalysisError as e:
        ctx.error(rule, str(e))
        return
    F = 'hszinc/%s.py' % modname
    containers = {}
    for st in mod.tree.body:
        if isinstance(st, ast.Assign) and len(st.targets) == 1 and isinstance(st.targets[0], ast.Name):
            v = st.value
            if isinstance(v, (ast.Dict, ast.List, ast.Set)) or (isinstance(v, ast.Call) and norm(v.func).split('.')[-1] in (
                    'dict', 'list', 'set', 'OrderedDict', 'defaultdict', 'WeakValueDictionary', 'WeakKeyDictionary')):
                containers[st.targets[0].id] = st
    n_fn = 0
    found = False
    for fn in [n for n in ast.walk(mod.tree) if isinstance(n, ast.FunctionDef)]:
        n_fn += 1
        params = [a.arg for a in fn.args.args]
        locals_ = {n.id for n in walk_no_nested(fn) if isinstance(n, ast.Name) and isinstance(n.ctx, ast.Store)}
        for n in walk_no_nested(fn):
            key = None
            cname = None
            if isinstance(n, ast.Assign):
                for t in n.targets:
                    if isinstance(t, ast.Subscript) and isinstance(t.value, ast.Name) and t.value.id in containers \
                            and t.value.id not in locals_ and t.value.id not in params:
                        key, cname = t.slice, t.value.id
            elif isinstance(n, ast.Call) and isinstance(n.func, ast.Attribute) and n.func.attr in ('setdefault', '__setitem__') \
                    and isinstance(n.func.value, ast.Name) and n.func.value.id in containers and n.args \
                    and n.func.value.id not in locals_ and n.func.value.id not in params:
                key, cname = n.args[0], n.func.value.id
            if key is None:
                continue
            found = True
            # resolve the key through single-assignment locals
            names = {x.id for x in ast.walk(key) if isinstance(x, ast.Name)}
            for _ in range(3):
                for st in walk_no_nested(fn):
                    if isinstance(st, ast.Assign) and len(st.targets) == 1 and isinstance(st.targets[0], ast.Name) \
                            and st.targets[0].id in names and st.targets[0].id not in params:
                        names |= {x.id for x in ast.walk(st.value) if isinstance(x, ast.Name)}
            value_params = [p_ for p_ in params if p_ in names and p_ not in ('version', 'mode', 'charset', 'self', 'cls')]
            if value_params:
                vp = value_params[0]
                if 'date' in fn.name or 'time' in fn.name:
                    w = ('one instant held in two zones, e.g. 2021-06-01T12:00:00+02:00 Berlin and 2021-06-01T20:00:00+10:00 '
                         'Brisbane, in one grid or in two dumps of one process: aware date-times are equal (and hash alike) by '
                         'instant, so the second cell is written with the wall clock, offset and zone name of the first')
                else:
                    w = ('0.0 followed by -0.0 (equal, same hash): the second is written "0"; the same for one instant held in '
                         'two zones (aware date-times are equal by instant), Quantity(1, "m") after Quantity(1.0, "m"), ... -- the '
                         'text of the first of two equal values is handed to the second')
                ctx.violation(rule, '%s::%s' % (F, fn.name), norm(n), w,
                              '%s keeps the module-level table %s keyed by a value computed from its argument `%s` (`%s`): '
                              'equal values share one entry although their texts differ'
                              % (fn.name, cname, vp, norm(key)[:60]), file=F, line=n.lineno, engine='E7')
            else:
                ctx.error(rule, '%s stores into the module-level container %s under `%s`: not decided' % (fn.name, cname, norm(key)[:60]))
    if not found:
        ctx.ob(rule, 'no function of %s stores into a module-level container (%d functions, %d containers): no text is '
                     'remembered from one value to the next' % (modname, n_fn, len(containers)), True, F)


def _fresh_names(fn):
    """locals bound to objects the function itself built"""
    fresh = set()
    stale = set()
    for n in walk_no_nested(fn):
        if isinstance(n, ast.Assign) and len(n.targets) == 1 and isinstance(n.targets[0], ast.Name):
            v = n.value
            ok = False
            if isinstance(v, (ast.Dict, ast.List, ast.ListComp, ast.DictComp, ast.Set, ast.Constant, ast.BinOp, ast.JoinedStr)):
                ok = True
            elif isinstance(v, ast.Call):
                f = norm(v.func)
                if f in ('dict', 'list', 'sorted', 'tuple', 'set', 'str', 'functools.partial', 'map', 'zip') or f.startswith('dump_') \
                        or f.startswith('_dump') or f.endswith('.join') or f.endswith('.sub') or f.endswith('.replace') \
                        or f in ('timezone_name', '_parse_mode', 'json.dumps', 'STR_META.sub', 'URI_META.sub'):
                    ok = True
            (fresh if ok else stale).add(n.targets[0].id)
        elif isinstance(n, (ast.For, ast.comprehension)):
            for t in ast.walk(n.target):
                if isinstance(t, ast.Name):
                    stale.add(t.id)
    return fresh - stale


def _no_module_state(ctx, fn, F, module_level):
    """reads of mutable module-level containers other than the write-once zone maps"""
    m = ctx.model
    mod = m.mod('zoneinfo')
    locals_ = {n.id for n in ast.walk(fn) if isinstance(n, ast.Name) and isinstance(n.ctx, ast.Store)} | {a.arg for a in fn.args.args}
    for n in walk_no_nested(fn):
        if isinstance(n, ast.Name) and isinstance(n.ctx, ast.Load) and n.id in module_level and n.id not in locals_:
            defs = mod.bindings.get(n.id, [])
            for d in defs:
                if isinstance(d, ast.Assign) and isinstance(d.value, (ast.Dict, ast.List, ast.Set)) and not (
                        getattr(d.value, 'keys', None) or getattr(d.value, 'elts', None)):
                    # an initially empty module-level container read by the zone selection: a cache / memo
                    writers = [w for w in ast.walk(mod.tree) if isinstance(w, (ast.Assign, ast.Call))
                               and n.id in norm(w) and w is not d]
                    ctx.violation('C07.D2', '%s::%s' % (F, fn.name), norm(d),
                                  'dump(parse(doc)) depends on what was dumped earlier in the process: %s reads the '
                                  'module-level container %s, which starts empty and is filled as a side effect '
                                  '(e.g. a zone remembered per UTC offset: a January -07:00 stamp resolves to a DST zone, a '
                                  'later July -07:00 stamp is then written with that zone and re-parses one hour off)'
                                  % (fn.name, n.id),
                                  '%s consults mutable module-level state (%s) that is not a write-once lazy built from '
                                  'constant data' % (fn.name, n.id), file=F, line=n.lineno, engine='E7')
                    return
    ctx.ob('C07.D2', '%s consults no mutable module-level container' % fn.name, True, '%s:%d' % (F, fn.lineno))


def _purity(ctx, fn, F, module_level=()):
    params = {a.arg for a in fn.args.args}
    fresh = _fresh_names(fn)
    bad = []
    for n in walk_no_nested(fn):
        tgt = None
        what = None
        if isinstance(n, (ast.Assign, ast.AugAssign)):
            targets = n.targets if isinstance(n, ast.Assign) else [n.target]
            for t in targets:
                if isinstance(t, (ast.Subscript, ast.Attribute)):
                    tgt, what = t.value, 'store'
        elif isinstance(n, ast.Delete):
            for t in n.targets:
                if isinstance(t, (ast.Subscript, ast.Attribute)):
                    tgt, what = t.value, 'del'
        elif isinstance(n, ast.Call) and isinstance(n.func, ast.Attribute) and n.func.attr in MUTATORS:
            tgt, what = n.func.value, '.%s()' % n.func.attr
        if tgt is None:
            continue
        base = tgt
        while isinstance(base, (ast.Attribute, ast.Subscript)):
            base = base.value
        if isinstance(base, ast.Name) and base.id in fresh and isinstance(tgt, ast.Name):
            continue
        if isinstance(base, ast.Name) and base.id not in params and base.id in fresh:
            continue
        bad.append((n, what, norm(tgt)))
    if bad and module_level and bad[0][2].split('[')[0].split('.')[0] in module_level:
        n, what, t = bad[0]
        ctx.violation('C07.D1', '%s::%s' % (F, fn.name), norm(n),
                      'dumping leaves a trace in module state (%s on %s): the next dump in the same process can differ'
                      % (what, t), '%s performs %s on the module-level object `%s`' % (fn.name, what, t), file=F,
                      line=n.lineno, engine='E7')
    elif bad:
        n, what, t = bad[0]
        ctx.violation('C07.D1', '%s::%s' % (F, fn.name), norm(n),
                      'dump(grid) changes the grid it was given (%s on %s): a second dump differs, or the caller\'s object '
                      'is altered' % (what, t),
                      '%s performs %s on `%s`, which is (derived from) a parameter, not an object the function built'
                      % (fn.name, what, t), file=F, line=n.lineno, engine='E7')
    else:
        ctx.ob('C07.D1', '%s stores through / mutates only objects it built itself' % fn.name, True, '%s:%d' % (F, fn.lineno))


def _determinism(ctx, fn, F):
    for n in walk_no_nested(fn):
        if isinstance(n, ast.Call):
            f = norm(n.func)
            if f in NONDET:
                ctx.violation('C07.D2', '%s::%s' % (F, fn.name), norm(n), 'two dumps of one grid differ',
                              '%s calls %s' % (fn.name, f), file=F, line=n.lineno, engine='E7')
            par = getattr(n, '_parent', None)
            consumed = isinstance(par, (ast.For, ast.comprehension)) or (
                isinstance(par, ast.Call) and (norm(par.func) in ('map', 'list', 'tuple', 'enumerate', 'zip', 'iter')
                                               or norm(par.func).endswith('.join')))
            if f in ('set', 'frozenset') and consumed:
                ctx.violation('C07.D2', '%s::%s' % (F, fn.name), norm(n), 'output order depends on hash order',
                              '%s iterates over a set' % fn.name, file=F, line=n.lineno, engine='E7')
        if isinstance(n, ast.Global):
            ctx.violation('C07.D2', '%s::%s' % (F, fn.name), norm(n), 'dumping changes module state',
                          '%s declares globals %s' % (fn.name, n.names), file=F, line=n.lineno, engine='E7')
        if isinstance(n, (ast.For, ast.comprehension)) and isinstance(n.iter, ast.Set):
            ctx.violation('C07.D2', '%s::%s' % (F, fn.name), norm(n.iter), 'output order depends on hash order',
                          '%s iterates over a set literal' % fn.name, file=F, line=n.iter.lineno, engine='E7')


def _zone_maps(ctx, m):
    FZ = 'hszinc/zoneinfo.py'
    try:
        gm = m.func('zoneinfo', '_gen_map')
        mt = m.func('zoneinfo', '_map_timezones')
    except AnalysisError as e:
        ctx.error('C07.D2', str(e))
        return
    guard = [n for n in body_wo_doc(gm) if isinstance(n, ast.If)]
    if guard and norm(guard[0].test) in ('_TZ_MAP is None or _TZ_RMAP is None', '(_TZ_MAP is None) or (_TZ_RMAP is None)'):
        ctx.ob('C07.D2', 'the zone maps are built once (write-once lazies)', True, '%s:%d' % (FZ, gm.lineno))
    else:
        ctx.error('C07.D2', '_gen_map guard not recognised')
    # iteration in _map_timezones is over the ordered list, the set is only probed
    for n in ast.walk(mt):
        if isinstance(n, ast.For):
            if norm(n.iter) == 'pytz.all_timezones':
                ctx.ob('C07.D2', 'the map is built by iterating the ordered zone list; the set is only probed', True,
                       '%s:%d' % (FZ, n.lineno))
            else:
                ctx.violation('C07.D2', '%s::_map_timezones' % FZ, norm(n.iter),
                              'which Olson zone a Haystack name maps to depends on set order', 'iteration over %s' % norm(n.iter),
                              file=FZ, line=n.lineno, engine='E7')


def _agree(ctx, gates):
    ctx.count('version gate comparisons', len(gates))
    ctx.floor('version gate comparisons', len(gates), 10)
    norms = {}
    for site, l, op, r, st, F in gates:
        norms.setdefault((l, op, r), []).append(site)
    if len(norms) == 1:
        (l, op, r), sites = list(norms.items())[0]
        ctx.ob('C07.D3', 'all %d gates (Grid, both writers, JSON reader) compare `%s %s %s`; the ZINC reader selects its '
                         'grammar by the same normaliser' % (len(sites), l, op, r), True)
    else:
        major = max(norms.items(), key=lambda kv: len(kv[1]))[0]
        for key, sites in norms.items():
            if key == major:
                continue
            site = sites[0]
            st = [g for g in gates if g[0] == site][0]
            ctx.violation('C07.D3', '%s::%s' % (st[5], site), norm(st[4]).split('\n')[0],
                          'a grid parsed from ver:"2.5" (treated as 3.0 by the readers) holding a list cannot be dumped '
                          'again: this gate compares `%s %s %s` while the others compare `%s %s %s`' % (key + major),
                          'version gates disagree on the normalisation of the declared version', file=st[5],
                          line=st[4].lineno, engine='E9')


def _closure(ctx, m):
    zl = _zinc.ladder_check(_Quiet(ctx), 'C07.D4', 'zincdumper', 'zinc')
    jl = _zinc.ladder_check(_Quiet(ctx), 'C07.D4', 'jsondumper', 'json')
    zf = m.func('zincdumper', 'dump_scalar', 'nested')
    jf = m.func('jsondumper', 'dump_scalar', 'nested')
    zlad, jlad = TP.ladder(zf), TP.ladder(jf)

    def handled(lad, idx):
        return idx is not None and lad[idx][0] is not None

    for kind in TP.KINDS:
        a = handled(zlad, zl.get(kind))
        b = handled(jlad, jl.get(kind))
        if a and b:
            ctx.ob('C07.D4', 'kind %s has a branch in both writer ladders' % kind, True)
        elif a != b:
            which = 'JSON' if a else 'ZINC'
            ctx.violation('C07.D4', 'hszinc/%s.py::dump_scalar' % ('jsondumper' if a else 'zincdumper'), 'kind %s' % kind,
                          'a grid holding a %s can be dumped as %s but not as %s: transcoding fails with '
                          'NotImplementedError' % (kind, 'ZINC' if a else 'JSON', which),
                          'the two writer ladders do not accept the same kinds (%s)' % kind,
                          file='hszinc/%s.py' % ('jsondumper' if a else 'zincdumper'), engine='E1')
        else:
            ctx.violation('C07.D4', 'hszinc/zincdumper.py::dump_scalar', 'kind %s' % kind, 'a %s cannot be dumped at all' % kind,
                          'no ladder accepts %s' % kind, file='hszinc/zincdumper.py', engine='E1')
    # kinds the readers can construct
    reader_kinds = set()
    try:
        g = G.grammar_of(m, 'zincparser')
        for ver in ('2.0', '3.0'):
            kind, alts = G.alternatives(g.get('hs_scalar_%s' % ver.replace('.', '_')))
            for a in alts:
                reader_kinds |= G.built_kinds(a)
        fn, p, entries = J.extract_cascade(m)
        for e in entries:
            reader_kinds |= set(e.builds)
        # idempotence of parse-then-dump: a time of day read from JSON must be the exact value written (no float leg)
        J.time_fields_exact(ctx, 'C07.D3', entries, fn)
    except (Unsupported, AnalysisError) as e:
        ctx.error('C07.D4', 'reader kinds: %s' % e)
        return
    mapping = {'float': 'float', 'Quantity': 'Quantity', 'str': 'str', 'Uri': 'Uri', 'Ref': 'Ref', 'Bin': 'Bin',
               'XStr': 'XStr', 'Coordinate': 'Coordinate', 'date': 'date', 'time': 'time', 'datetime': 'datetime',
               'bool': 'bool', 'None': 'None', 'MARKER': 'MARKER', 'NA': 'NA', 'REMOVE': 'REMOVE', 'list': 'list',
               'dict': 'dict', 'Grid': 'Grid', 'itself': None, 'call:list': 'list', 'expr:DictComp': 'dict',
               'call:parse_grid': 'Grid', 'call:_parse_grid': 'Grid'}
    n = 0
    for rk in sorted(reader_kinds):
        if rk.startswith('forward:hs_grid'):
            wk = 'Grid'
        elif rk in mapping:
            wk = mapping[rk]
        else:
            ctx.error('C07.D4', 'reader builds an unrecognised kind %r' % rk)
            continue
        if wk is None:
            # raw JSON values returned as they are: bool, int, float
            for k2 in ('bool', 'int', 'float', 'str'):
                if handled(zlad, zl.get(k2)) and handled(jlad, jl.get(k2)):
                    n += 1
            ctx.ob('C07.D4', 'raw JSON values (bool, int, float, plain str) returned by the reader are accepted by both '
                             'ladders', True)
            continue
        n += 1
        if handled(zlad, zl.get(wk)) and handled(jlad, jl.get(wk)):
            ctx.ob('C07.D4', 'reader-made kind %s is accepted by both writer ladders' % wk, True)
        else:
            ctx.violation('C07.D4', 'hszinc/zincdumper.py::dump_scalar', 'reader kind %s' % wk,
                          'a parsed document containing a %s cannot be dumped again' % wk,
                          'a kind the readers construct has no writer branch', file='hszinc/zincdumper.py', engine='E1')
    ctx.count('reader-made kinds checked', n)
    ctx.floor('reader-made kinds checked', n, 18)
    # plain-dict / {} column metadata from the readers is what dump_column/dump_meta can take
    for modname in ('zincdumper', 'jsondumper'):
        try:
            dm = m.func(modname, 'dump_meta')
            t = norm(dm)
            if 'list(meta.items())' in t or 'meta.items()' in t:
                ctx.ob('C07.D4', '%s.dump_meta only needs .items() of the metadata (dict, SortableDict and MetadataObject '
                                 'all qualify)' % modname, True, 'hszinc/%s.py:%d' % (modname, dm.lineno))
            else:
                ctx.error('C07.D4', '%s.dump_meta: metadata access not recognised' % modname)
        except AnalysisError as e:
            ctx.error('C07.D4', str(e))
