"""Shared structural analysis of hszinc/grid.py::Grid for C14 (list behaviour) and C15 (id index)."""
from __future__ import annotations

import ast

from ..flow import attr_writes, linear_events
from ..model import AnalysisError, body_wo_doc, norm, walk_no_nested

MOD = 'grid'
F = 'hszinc/grid.py'
MIXINS = ['append', 'pop', 'remove', 'reverse', 'clear', '__iadd__', '__contains__', 'index', '__iter__',
          'count', '__reversed__']


def grid_methods(ctx):
    m = ctx.model
    # rules on the mutators are written against the early-exit ('flat') spelling, the dispatch of __getitem__ against
    # the if/elif/else ('nested') one; both are behaviour-preserving views of the same methods (model.view)
    meths = m.methods(MOD, 'Grid', 'flat')
    if '__getitem__' in meths:
        meths['__getitem__'] = m.func(MOD, 'Grid.__getitem__', 'nested')
    ctx.count('methods of Grid', len(meths))
    return meths


def _self(fn):
    return fn.args.args[0].arg if fn.args.args else 'self'


# ------------------------------------------------------------------ C14.D1 delegation

def delegation(ctx, meths, rule='C14.D1'):
    m = ctx.model
    bases = m.class_bases(MOD, 'Grid')
    if bases and bases[0].split('.')[-1] == 'MutableSequence':
        ctx.ob(rule, 'Grid derives from collections.abc.MutableSequence (%s)' % bases[0], True)
    else:
        ctx.violation(rule, '%s::Grid' % F, 'class Grid(%s)' % ', '.join(bases),
                      'grid.append / pop / remove / reverse / += are no longer the MutableSequence mixins',
                      'Grid no longer derives from MutableSequence', file=F, line=m.cls(MOD, 'Grid').lineno,
                      engine='E9')
    over = [x for x in MIXINS if x in meths]
    # read-only mixins answered from the id index: the index keeps ONE row per str(id), the list may hold several
    READ_FORMS = {'__contains__': ('{x} in {s}._row', 'any((v is {x} or v == {x} for v in {s}._row))'),
                  'index': ('{s}._row.index({x})', '{s}._row.index(*args, **kwargs)', '{s}._row.index({x}, *args)'),
                  'count': ('{s}._row.count({x})',),
                  '__iter__': ('iter({s}._row)',), '__reversed__': ('reversed({s}._row)',)}
    still = []
    for name in over:
        fn = meths[name]
        if name == 'pop':
            # the mixin: v = self[index]; del self[index]; return v
            s_ = _self(fn)
            i_ = fn.args.args[1].arg if len(fn.args.args) > 1 else ''
            body = [x for x in fn.body if not (isinstance(x, ast.Expr) and isinstance(x.value, ast.Constant))]
            texts = [norm(x) for x in body]
            reads = [x.targets[0].id for x in body if isinstance(x, ast.Assign) and len(x.targets) == 1
                     and isinstance(x.targets[0], ast.Name) and norm(x.value) == '%s[%s]' % (s_, i_)]
            v_ = reads[0] if reads else None
            by_value = [c for c in walk_no_nested(fn) if isinstance(c, ast.Call) and norm(c.func) in ('%s.remove' % s_, '%s._row.remove' % s_)]
            dflt = [norm(d) for d in fn.args.defaults]
            if v_ and texts == ['%s = %s[%s]' % (v_, s_, i_), 'del %s[%s]' % (s_, i_), 'return %s' % v_] and dflt == ['-1']:
                ctx.ob(rule, 'Grid.pop is the mixin spelled out: read the row at the index, delete at the index, return it', True,
                       '%s:%d' % (F, fn.lineno))
            elif by_value:
                ctx.violation(rule, '%s::Grid.pop' % F, norm(by_value[0]),
                              'g.append(a); g.append(b); g.append(a); g.pop(): a list is left as [a, b], the grid as [b, a] -- the '
                              'row is removed by VALUE (the first row that is or equals it), not at the index that was asked for',
                              'Grid.pop removes with remove(<row>), which deletes the first equal row, not the row at the index',
                              file=F, line=by_value[0].lineno, engine='E9')
            else:
                still.append(name)
            continue
        if name not in READ_FORMS:
            still.append(name)
            continue
        s_ = _self(fn)
        x_ = fn.args.args[1].arg if len(fn.args.args) > 1 else ''
        forms = [f.format(s=s_, x=x_) for f in READ_FORMS[name]]
        rets = [r for r in walk_no_nested(fn) if isinstance(r, ast.Return) and r.value is not None]
        def _src(r):
            # the returned expression, with plain locals replaced by what they were assigned
            t = norm(r.value)
            for x in ast.walk(r.value):
                if isinstance(x, ast.Name):
                    for a in walk_no_nested(fn):
                        if isinstance(a, ast.Assign) and len(a.targets) == 1 and norm(a.targets[0]) == x.id:
                            t += ' <- ' + norm(a.value)
            return t
        via_index = [r for r in rets if '_index' in _src(r) or '%s.get(' % s_ in _src(r)
                     or any(isinstance(c, ast.Subscript) and norm(c.value) == s_ for c in ast.walk(r.value))]
        if via_index:
            r = via_index[0]
            ctx.violation(rule, '%s::Grid.%s' % (F, name), norm(r),
                          'g.append({"id": 1, "v": "a"}); g.append({"id": 1, "v": "b"}): the id index keeps one row per id, so '
                          '`%s` answers for only one of the two rows -- a plain list answers for both'
                          % ('{"id": 1, "v": "a"} in g' if name == '__contains__' else 'g.%s(row)' % name),
                          'Grid.%s is answered from the id index instead of the row list' % name, file=F, line=r.lineno,
                          engine='E9')
        elif rets and all(norm(r.value) in forms for r in rets):
            ctx.ob(rule, 'Grid.%s is the list operation on _row' % name, True, '%s:%d' % (F, fn.lineno))
        else:
            still.append(name)
    if still:
        ctx.error(rule, 'Grid overrides mixin method(s) %s; their conformance to the list model is not analysed' % still)
    elif over:
        pass
    else:
        ctx.ob(rule, 'mixin methods %s are inherited (defined by the five primitives)' % ', '.join(MIXINS), True)

    def one(name, forms, wit, pick=None):
        fn = meths.get(name)
        if fn is None:
            ctx.violation(rule, '%s::Grid' % F, 'def %s' % name, wit, 'primitive %s is missing' % name, file=F,
                          engine='E9')
            return
        texts = [norm(x) for x in walk_no_nested(fn) if isinstance(x, ast.stmt)]
        hit = [f for f in forms if f in texts]
        # writes / reads of _row in this method
        row_uses = [t for t in texts if '_row' in t and not t.startswith(('if ', 'for ', 'def ', 'elif '))]
        if hit:
            ctx.ob(rule, 'Grid.%s acts on self._row with the caller\'s own index: %s' % (name, hit[0]), True,
                   '%s:%d' % (F, fn.lineno))
        elif row_uses:
            ctx.violation(rule, '%s::Grid.%s' % (F, name), row_uses[0], wit,
                          'Grid.%s touches the row list as `%s`; the list model requires `%s`'
                          % (name, row_uses[0], forms[0]), file=F, line=fn.lineno, engine='E9')
        else:
            ctx.violation(rule, '%s::Grid.%s' % (F, name), '\n'.join(texts[:3]), wit,
                          'Grid.%s no longer acts on self._row (expected `%s`)' % (name, forms[0]), file=F,
                          line=fn.lineno, engine='E9')

    a = lambda name, i: (meths[name].args.args[i].arg if name in meths and len(meths[name].args.args) > i else '?')
    one('__len__', ['return len(self._row)'], 'len(grid) differs from the number of rows')
    one('__setitem__', ['self._row[%s] = %s' % (a('__setitem__', 1), a('__setitem__', 2))],
        'grid[i] = row replaces another row than list[i] = row does')
    one('__delitem__', ['del self._row[%s]' % a('__delitem__', 1)], 'del grid[i] removes another row than del list[i]')
    one('insert', ['self._row.insert(%s, %s)' % (a('insert', 1), a('insert', 2))],
        'grid.insert(i, row) places the row elsewhere than list.insert(i, row)')
    # __getitem__
    fn = meths.get('__getitem__')
    if fn is None:
        ctx.violation(rule, '%s::Grid' % F, 'def __getitem__', 'grid[i] fails', '__getitem__ missing', file=F, engine='E9')
    else:
        k = a('__getitem__', 1)
        top = [st for st in body_wo_doc(fn) if isinstance(st, ast.If)]
        branches = []
        node = top[0] if top else None
        while isinstance(node, ast.If):
            branches.append((norm(node.test), node.body))
            if len(node.orelse) == 1 and isinstance(node.orelse[0], ast.If):
                node = node.orelse[0]
            else:
                branches.append(('else', node.orelse))
                node = None
        tests = [t for t, _ in branches]
        want_tests = ['isinstance(%s, slice)' % k, 'isinstance(%s, numbers.Number)' % k, 'else']
        alt_num = {'isinstance(%s, numbers.Number)' % k, 'isinstance(%s, int)' % k,
                   'isinstance(%s, numbers.Integral)' % k, 'isinstance(%s, six.integer_types)' % k}
        if len(tests) == 3 and tests[0] == want_tests[0] and tests[1] in alt_num and tests[2] == 'else':
            ctx.ob(rule, '__getitem__ dispatches slice / number / id key in that order', True, '%s:%d' % (F, fn.lineno))
            sl = [norm(x) for x in branches[0][1]]
            res = None
            ctor = None
            for x in branches[0][1]:
                if isinstance(x, ast.Assign) and isinstance(x.value, ast.Call) and norm(x.value.func) == 'Grid':
                    res = x
                    ctor = x.value
                elif isinstance(x, ast.Assign) and isinstance(x.value, ast.Call) and isinstance(x.value.func, ast.Attribute) \
                        and norm(x.value.func.value) == 'self' and x.value.func.attr in meths and not x.value.args:
                    # helper that builds the derived grid: follow it
                    helper = meths[x.value.func.attr]
                    rets = [r.value for r in walk_no_nested(helper) if isinstance(r, ast.Return) and r.value is not None]
                    if len(rets) == 1 and isinstance(rets[0], ast.Call) and norm(rets[0].func) == 'Grid':
                        res = x
                        ctor = rets[0]
            ok_ctor = False
            if res is not None:
                kw = {kk.arg: norm(kk.value) for kk in ctor.keywords}
                ok_ctor = kw.get('version') in ('self.version', 'self._version') \
                    and kw.get('metadata') == 'self.metadata' and kw.get('columns') == 'self.column'
                rn = norm(res.targets[0])
            if res is not None and ok_ctor and ('%s._row = self._row[%s]' % (rn, k)) in sl \
                    and sl[-1] == 'return %s' % rn:
                ctx.ob(rule, 'slice yields Grid(version, metadata, columns of self) holding self._row[%s]' % k, True,
                       '%s:%d' % (F, fn.lineno))
            elif res is not None and not ok_ctor:
                ctx.violation(rule, '%s::Grid.__getitem__' % F, norm(ctor),
                              'grid[0:1] does not carry the version / metadata / columns of grid (e.g. a grid created without '
                              'explicit version that a list cell upgraded to 3.0: its slice reports %s)' % kw.get('version', '2.0'),
                              'the slice result is not built from self.version, self.metadata, self.column', file=F,
                              line=res.lineno, engine='E9')
            else:
                ctx.violation(rule, '%s::Grid.__getitem__' % F, '\n'.join(sl),
                              'list(grid[a:b]) != list(grid)[a:b]', 'slice branch does not hand self._row[%s] to the '
                              'result' % k, file=F, line=fn.lineno, engine='E9')
            num = [norm(x) for x in branches[1][1]]
            if num == ['return self._row[%s]' % k]:
                ctx.ob(rule, 'numeric index returns self._row[%s] (negative indices as for lists)' % k, True,
                       '%s:%d' % (F, fn.lineno))
            else:
                ctx.violation(rule, '%s::Grid.__getitem__' % F, '\n'.join(num), 'grid[-1] is not the last row',
                              'numeric branch is `%s`, expected `return self._row[%s]`' % ('; '.join(num), k), file=F,
                              line=fn.lineno, engine='E9')
        else:
            ctx.error(rule, '__getitem__ dispatch not recognised: %s' % tests)
    # extend
    fn = meths.get('extend')
    if fn is not None:
        texts = [norm(x) for x in body_wo_doc(fn)]
        v = a('extend', 1)
        if texts and texts[0] in ('super(Grid, self).extend(%s)' % v, 'super().extend(%s)' % v):
            ctx.ob(rule, 'extend delegates to MutableSequence.extend (append of each row through insert)', True,
                   '%s:%d' % (F, fn.lineno))
        else:
            extend_own(ctx, meths, rule, want=('typeguard',))


def extend_own(ctx, meths, rule, want=('typeguard', 'validate')):
    """Grid.extend written without super().extend: it must do for every row what insert does -- refuse non-dict rows with
    TypeError (`typeguard`) and pass every value of every row to _detect_or_validate (`validate`) -- before the rows reach
    _row.  Returns True when extend delegates to the mixin (nothing to check here)."""
    fn = meths.get('extend')
    if fn is None:
        return True
    s = _self(fn)
    v = fn.args.args[1].arg if len(fn.args.args) > 1 else 'values'
    texts = [norm(x) for x in body_wo_doc(fn)]
    if texts and texts[0] in ('super(Grid, %s).extend(%s)' % (s, v), 'super().extend(%s)' % v):
        return True
    bulk = [n for n in ast.walk(fn) if isinstance(n, ast.Call) and norm(n.func) in ('%s._row.extend' % s, '%s._row.__iadd__' % s)]
    bulk += [n for n in ast.walk(fn) if isinstance(n, ast.AugAssign) and norm(n.target) == '%s._row' % s]
    per_row = [n for n in ast.walk(fn) if isinstance(n, ast.Call) and norm(n.func) in ('%s.insert' % s, '%s.append' % s)]
    if per_row and not bulk:
        ctx.ob(rule, 'extend adds the rows one by one through insert/append (each row is checked there)', True,
               '%s:%d' % (F, fn.lineno))
        return False
    if not bulk:
        ctx.error(rule, 'Grid.extend: neither super().extend nor a store into _row found; cannot decide')
        return False
    # the argument may be a one-shot iterable (a generator, map(...) -- the ZINC reader passes one): the rows that are
    # checked must be the rows that are stored, so the argument is walked ONCE unless it was made a list first
    material = any(isinstance(a, ast.Assign) and len(a.targets) == 1 and norm(a.targets[0]) == v
                   and norm(a.value) in ('list(%s)' % v, 'tuple(%s)' % v) and getattr(a, '_parent', None) is fn
                   for a in ast.walk(fn))
    walks = []
    for n in ast.walk(fn):
        if isinstance(n, (ast.For, ast.comprehension)) and norm(n.iter) == v:
            walks.append(n.iter)
        elif isinstance(n, ast.Call) and any(norm(a) == v for a in n.args) and norm(n.func) not in ('isinstance', 'len', 'id', 'type'):
            p_ = getattr(n, '_parent', None)
            if norm(n.func) in ('list', 'tuple') and isinstance(p_, ast.Assign) and norm(p_.targets[0]) == v:
                continue        # (conditional) materialisation in place: what follows walks the list
            walks.append(n)
        elif isinstance(n, ast.AugAssign) and norm(n.value) == v:
            walks.append(n)
    walks.sort(key=lambda z: z._seq)
    if len(walks) >= 2 and not material:
        ctx.violation(rule, '%s::Grid.extend' % F, 'second traversal of `%s`: %s' % (v, norm(walks[1])[:60]),
                      'grid.extend(row for row in rows) / grid.extend(map(f, rows)) (the ZINC reader fills nested grids this way): '
                      'the first traversal (`%s`) exhausts the iterator, the second (`%s`) sees nothing -- rows are stored that '
                      'were never type-checked or validated against the grid version' % (norm(walks[0])[:50], norm(walks[1])[:50]),
                      'Grid.extend walks its argument twice without materialising it: with a one-shot iterable the checks and the '
                      'store see different rows', file=F, line=getattr(walks[1], 'lineno', fn.lineno), engine='E6')
        return False
    guard = any(isinstance(n, ast.If) and 'isinstance' in norm(n.test) and 'dict' in norm(n.test) and n.body
                and isinstance(n.body[0], ast.Raise) and norm(n.body[0].exc).startswith('TypeError') for n in ast.walk(fn))
    valid = any(isinstance(n, ast.Call) and norm(n.func) == '%s._detect_or_validate' % s for n in ast.walk(fn)) and \
        any(isinstance(n, ast.For) and norm(n.iter).endswith('.values()') for n in ast.walk(fn))
    where = '%s:%d' % (F, fn.lineno)
    if 'typeguard' in want:
        if guard:
            ctx.ob(rule, 'extend refuses non-dict rows with TypeError before storing', True, where)
        else:
            ctx.violation(rule, '%s::Grid.extend' % F, norm(bulk[0]),
                          'grid.extend([None]) (or `grid += [5]`): insert and append refuse a non-dict row with TypeError, this '
                          'extend stores the rows in bulk without that test -- it raises AttributeError instead, or accepts any '
                          'object that has .values()', 'Grid.extend stores rows in bulk without the non-dict TypeError guard '
                          'of insert', file=F, line=bulk[0].lineno, engine='E6')
    if 'validate' in want:
        if valid:
            ctx.ob(rule, 'extend passes every value of every row to _detect_or_validate before storing', True, where)
        else:
            ctx.violation(rule, '%s::Grid.extend' % F, norm(bulk[0]),
                          'the document ver:"3.0" / a / <<ver:"2.0" b [1]>> (a 2.0 grid nested in a 3.0 document, holding a '
                          'list): the ZINC reader builds the inner grid with extend(), which now stores the rows without the '
                          'version check -- a grid labelled 2.0 holding a list is returned instead of the document being rejected',
                          'Grid.extend stores rows in bulk without validating their values against the grid version', file=F,
                          line=bulk[0].lineno, engine='E6')
    return False


# ------------------------------------------------------------------ C14.D2 refuse-then-unchanged

def refuse_before_write(ctx, meths, rule='C14.D2'):
    for name in ('insert', '__setitem__'):
        fn = meths.get(name)
        if fn is None:
            continue
        s = _self(fn)
        val = fn.args.args[2].arg if len(fn.args.args) > 2 else 'value'
        events = linear_events(body_wo_doc(fn))
        first_write = None
        has_type_guard = False
        has_validation = False
        for i, (st, loops) in enumerate(events):
            if isinstance(st, (ast.If, ast.For, ast.While)):
                if isinstance(st, ast.If) and norm(st.test) == 'not isinstance(%s, dict)' % val \
                        and st.body and isinstance(st.body[0], ast.Raise) \
                        and norm(st.body[0].exc).startswith('TypeError'):
                    if first_write is None:
                        has_type_guard = True
                continue
            w = attr_writes(st, s, {'_row', '_index', '_version'})
            if w and first_write is None:
                first_write = (i, st)
            refuses = isinstance(st, ast.Raise) or any(
                isinstance(n, ast.Call) and norm(n.func) in ('%s._detect_or_validate' % s, '%s._assert_version' % s)
                for n in ast.walk(st))
            if refuses and not isinstance(st, ast.Raise):
                if first_write is None:
                    has_validation = True
            if refuses and first_write is not None and i > first_write[0]:
                ctx.violation(rule, '%s::Grid.%s' % (F, name), norm(first_write[1]),
                              'grid with explicit version 2.0: %s(…, {"a": [1]}) raises ValueError but the row list / '
                              'index was already changed' % name,
                              'the write `%s` precedes the refusal `%s`' % (norm(first_write[1]), norm(st).split('\n')[0]),
                              file=F, line=first_write[1].lineno, engine='E6')
                break
        else:
            ctx.ob(rule, 'Grid.%s: every refusal precedes the first write' % name, True, '%s:%d' % (F, fn.lineno))
        if has_type_guard:
            ctx.ob(rule, 'Grid.%s refuses non-dict rows with TypeError before any write' % name, True,
                   '%s:%d' % (F, fn.lineno))
        else:
            ctx.violation(rule, '%s::Grid.%s' % (F, name), 'if not isinstance(%s, dict): raise TypeError' % val,
                          'grid.%s(0, "not a dict") is accepted (or fails later with another exception)' % name,
                          'Grid.%s does not refuse non-dict rows with TypeError before writing' % name, file=F,
                          line=fn.lineno, engine='E6')
        # the validation loop ranges over all values of the row
        ok_loop = False
        for node in walk_no_nested(fn):
            if isinstance(node, ast.For) and norm(node.iter) == '%s.values()' % val and isinstance(node.target, ast.Name) \
                    and [norm(b) for b in node.body] == ['%s._detect_or_validate(%s)' % (s, node.target.id)]:
                ok_loop = True
        ctx.facts = getattr(ctx, 'facts', {})
        ctx.facts['validates:%s' % name] = ok_loop and has_validation


# ------------------------------------------------------------------ nullness of _index

def _guard_reindex(st, s):
    """`if not self._index: self.reindex()` / `if self._index is None: self.reindex()`"""
    if isinstance(st, ast.If) and not st.orelse and norm(st.test) in (
            'not %s._index' % s, '%s._index is None' % s) and [norm(b) for b in st.body] == ['%s.reindex()' % s]:
        return True
    return False


def nullness(ctx, meths, rule):
    """No dereference of self._index where it may still be None."""
    n_sites = 0
    for name, fn in meths.items():
        s = _self(fn)
        if name == 'reindex':
            continue
        found = []

        def visit(stmts, nonnull):
            for st in stmts:
                if _guard_reindex(st, s):
                    nonnull = True
                    continue
                if isinstance(st, ast.Expr) and norm(st.value) == '%s.reindex()' % s:
                    nonnull = True
                    continue
                if isinstance(st, ast.Assign) and any(norm(t) == '%s._index' % s for t in st.targets):
                    nonnull = not (isinstance(st.value, ast.Constant) and st.value.value is None)
                    continue
                if isinstance(st, ast.If):
                    check_expr(st.test, nonnull, st)
                    t = norm(st.test)
                    body_nn = nonnull or t in ('%s._index' % s, '%s._index is not None' % s)
                    a = visit(st.body, body_nn)
                    b = visit(st.orelse, nonnull or t in ('not %s._index' % s, '%s._index is None' % s) and False)
                    nonnull = nonnull or (a and b and bool(st.orelse))
                    continue
                if isinstance(st, (ast.For, ast.While)):
                    check_expr(st.iter if isinstance(st, ast.For) else st.test, nonnull, st)
                    visit(st.body, nonnull)
                    continue
                if isinstance(st, ast.Try):
                    visit(st.body, nonnull)
                    for h in st.handlers:
                        visit(h.body, nonnull)
                    continue
                if isinstance(st, (ast.FunctionDef, ast.ClassDef)):
                    continue
                check_expr(st, nonnull, st)
            return nonnull

        def check_expr(node, nonnull, st):
            nonlocal n_sites
            for n in ast.walk(node):
                deref = None
                if isinstance(n, ast.Subscript) and norm(n.value) == '%s._index' % s:
                    deref = n
                elif isinstance(n, ast.Attribute) and norm(n.value) == '%s._index' % s:
                    deref = n
                elif isinstance(n, ast.Compare) and any(isinstance(o, (ast.In, ast.NotIn)) for o in n.ops) \
                        and any(norm(c) == '%s._index' % s for c in n.comparators):
                    deref = n
                if deref is not None:
                    n_sites += 1
                    if not nonnull:
                        found.append((deref, st))

        visit(body_wo_doc(fn), False)
        for deref, st in found:
            hist = {
                '__setitem__': "g = grid[0:1] (or a grid whose rows so far had no id); g[0] = {'id': 'a'}",
                '__delitem__': "g = grid[0:1] where the row has an id; del g[0]",
                'extend': "g = grid[0:1] where the row has an id; g.extend([{}])",
            }.get(name, 'a sliced grid (its _index is None), then %s' % name)
            ctx.violation(rule, '%s::Grid.%s' % (F, name), norm(st).split('\n')[0],
                          '%s -> TypeError/AttributeError on None (an internal error instead of list behaviour)' % hist,
                          'Grid.%s dereferences self._index (`%s`) on a path where it may still be None: the field '
                          'is None after construction and after slicing, and nothing on this path rebuilds it'
                          % (name, norm(deref)), file=F, line=deref.lineno, engine='E6')
        if not found:
            ctx.ob(rule, 'Grid.%s: every dereference of _index is preceded by reindex()/a non-None guard' % name,
                   True, '%s:%d' % (F, fn.lineno))
    ctx.count('dereference sites of Grid._index', n_sites)
    ctx.floor('dereference sites of Grid._index', n_sites, 3)


# ------------------------------------------------------------------ C15.D1 pairing

def index_pairing(ctx, meths, rule='C15.D1'):
    n_writers = 0
    for name, fn in meths.items():
        s = _self(fn)
        if name in ('__init__', 'reindex'):
            continue
        events = linear_events(body_wo_doc(fn))
        row_writes = []
        for i, (st, loops) in enumerate(events):
            if isinstance(st, (ast.If, ast.For, ast.While, ast.With)):
                continue
            for f, kind, node in attr_writes(st, s, {'_row'}):
                row_writes.append((i, st, kind, s))
            # alias writes: <name>._row = ...
            for n in ast.walk(st):
                if isinstance(n, ast.Assign):
                    for t in n.targets:
                        if isinstance(t, ast.Attribute) and t.attr == '_row' and isinstance(t.value, ast.Name) \
                                and t.value.id != s:
                            row_writes.append((i, st, 'assign', t.value.id))
            if isinstance(st, ast.Expr) and norm(st.value).startswith(('super(Grid, %s).extend(' % s, 'super().extend(')):
                row_writes.append((i, st, 'mixin-extend', s))
        if not row_writes:
            continue
        n_writers += 1
        last_i, last_st, kind, owner = row_writes[-1]
        # a freshly constructed grid has no index yet (Grid.__init__ sets _index = None)
        shared_idx = [n for n in walk_no_nested(fn) if isinstance(n, ast.Assign)
                      and any(norm(t) == '%s._index' % owner for t in n.targets)
                      and not (isinstance(n.value, ast.Constant) and n.value.value is None)]
        if owner != s and shared_idx:
            ctx.violation(rule, '%s::Grid.%s' % (F, name), norm(shared_idx[0]),
                          'g2 = grid[0:1]: g2 shares (or copies) the index of grid, so g2["id of a row outside the slice"] '
                          'returns a row that is not in g2', 'the derived grid gets the index `%s` instead of starting '
                          'without one' % norm(shared_idx[0].value), file=F, line=shared_idx[0].lineno, engine='E6')
            continue
        if owner != s and _fresh_grid_var(fn, owner, meths) and _init_index_none(meths):
            ctx.ob(rule, 'Grid.%s hands rows to the freshly built grid `%s`, whose index starts as None' % (name, owner),
                   True, '%s:%d' % (F, fn.lineno))
            continue
        after = events[last_i + 1:]
        ok = False
        why = ''
        # (a) unconditional reindex()/invalidate after the last write
        for st in _following(last_st):
            t = norm(st)
            if t in ('%s.reindex()' % owner, '%s._index = None' % owner):
                ok = True
                why = t
        # (b) pure addition form
        if not ok and kind in ('insert', 'append') and len(row_writes) == 1:
            call = [n for n in ast.walk(last_st) if isinstance(n, ast.Call) and norm(n.func).endswith('_row.%s' % kind)]
            v = norm(call[0].args[-1]) if call and call[0].args else None
            tail = [st for st, loops in after]
            if tail and isinstance(tail[0], ast.If) and norm(tail[0].test) in ("'id' in %s" % v,):
                body = tail[0].body
                if len(body) == 2 and _guard_reindex(body[0], s) and norm(body[1]) in (
                        "%s._index[str(%s['id'])] = %s" % (s, v, v),):
                    ok = True
                    why = 'addition: index[str(v["id"])] = v under `"id" in v` after ensuring the index exists'
                elif any(norm(b).startswith('%s._index[' % s) for b in body):
                    bad = [norm(b) for b in body if norm(b).startswith('%s._index[' % s)][0]
                    ctx.violation(rule, '%s::Grid.%s' % (F, name), bad,
                                  "insert a row whose id is Ref('a') or 7, then grid['a'] / grid[…]: the entry is keyed "
                                  "differently from the str(id) that lookups use",
                                  'incremental index update `%s` is not `_index[str(v["id"])] = v`' % bad, file=F,
                                  line=tail[0].lineno, engine='E6')
                    continue
            elif not tail:
                pass
        if ok:
            ctx.ob(rule, 'Grid.%s re-establishes the id index after changing the rows (%s)' % (name, why), True,
                   '%s:%d' % (F, fn.lineno))
            continue
        # diagnose
        idx_ops = [norm(st) for st, loops in events if any(True for _ in attr_writes(st, s, {'_index'}))
                   and not isinstance(st, (ast.If, ast.For, ast.While))]
        if name == '__setitem__':
            wit = ("rows [{'id': Ref('a')}]; g[0] = {'id': 'b'}; g['a'] still returns the replaced row (the entry is "
                   "keyed str(id) but popped by the raw id); also: two rows a, b; g.reverse(); g['b'] raises KeyError "
                   "(reverse is two __setitem__ calls; popping 'the old row' removes the entry of a row that is still "
                   "present)")
        elif name == '__delitem__':
            wit = ("rows [{'id': 7}]; del g[0]; g.get(7) still returns the deleted row (pop by raw id 7, entry keyed "
                   "'7'); del g[0:2] never updates the index (`'id' in <list of rows>` is a membership test)")
        elif name == 'extend':
            wit = 'extend() maintains the index by a loop that dereferences a possibly-None index'
        else:
            wit = 'after %s the index does not reflect the rows' % name
        ctx.violation(rule, '%s::Grid.%s' % (F, name), norm(last_st),
                      wit, 'Grid.%s changes the row list (`%s`) but does not, on every path, end with the id index '
                      'rebuilt (reindex()), invalidated (_index = None) or -- for a pure addition -- updated under '
                      '`"id" in v`; index operations seen: %s' % (name, norm(last_st), idx_ops or 'none'),
                      file=F, line=last_st.lineno, engine='E6')
    ctx.count('methods that write the row list', n_writers)
    ctx.floor('methods that write the row list', n_writers, 4)


def _builds_grid(call, meths):
    if isinstance(call, ast.Call) and norm(call.func) == 'Grid':
        return True
    if isinstance(call, ast.Call) and isinstance(call.func, ast.Attribute) and norm(call.func.value) == 'self' \
            and call.func.attr in meths:
        rets = [r.value for r in walk_no_nested(meths[call.func.attr]) if isinstance(r, ast.Return) and r.value is not None]
        return len(rets) == 1 and isinstance(rets[0], ast.Call) and norm(rets[0].func) == 'Grid'
    return False


def _fresh_grid_var(fn, var, meths):
    defs = [n.value for n in walk_no_nested(fn) if isinstance(n, ast.Assign) and len(n.targets) == 1
            and isinstance(n.targets[0], ast.Name) and n.targets[0].id == var]
    return bool(defs) and all(_builds_grid(d, meths) for d in defs)


def _init_index_none(meths):
    init = meths.get('__init__')
    return init is not None and any(norm(n) == 'self._index = None' for n in walk_no_nested(init) if isinstance(n, ast.Assign))


def _following(st):
    """Statements that execute unconditionally after `st` (later siblings in its block and in the
    enclosing blocks, not crossing a loop)."""
    out = []
    node = st
    while node is not None and not isinstance(node, (ast.FunctionDef, ast.ClassDef, ast.Module)):
        parent = getattr(node, '_parent', None)
        if parent is None:
            break
        if isinstance(parent, (ast.For, ast.While)):
            break
        for field in ('body', 'orelse', 'finalbody'):
            block = getattr(parent, field, None)
            if isinstance(block, list) and node in block:
                out.extend(block[block.index(node) + 1:])
        node = parent
    return out


def reindex_form(meths):
    """'inplace': self._index = {} and then filled entry by entry;  'local': a local dict is filled and then stored in
    self._index with one assignment;  None: neither (not the canonical rebuild)"""
    fn = meths.get('reindex')
    if fn is None:
        return None
    s = _self(fn)
    body = body_wo_doc(fn)

    def loop_fills(lp, target):
        if not (isinstance(lp, ast.For) and norm(lp.iter) == '%s._row' % s and isinstance(lp.target, ast.Name)):
            return False
        it = lp.target.id
        inner = lp.body
        return len(inner) == 1 and isinstance(inner[0], ast.If) and norm(inner[0].test) == "'id' in %s" % it and not inner[0].orelse \
            and [norm(b) for b in inner[0].body] == ["%s[str(%s['id'])] = %s" % (target, it, it)] and not lp.orelse
    if len(body) == 2 and norm(body[0]) == '%s._index = {}' % s and loop_fills(body[1], '%s._index' % s):
        return 'inplace'
    if len(body) == 3 and isinstance(body[0], ast.Assign) and len(body[0].targets) == 1 and isinstance(body[0].targets[0], ast.Name) \
            and norm(body[0].value) in ('{}', 'dict()'):
        loc = body[0].targets[0].id
        if loop_fills(body[1], loc) and norm(body[2]) == '%s._index = %s' % (s, loc):
            return 'local'
    comp = None
    if len(body) == 1 and isinstance(body[0], ast.Assign) and norm(body[0].targets[0]) == '%s._index' % s \
            and isinstance(body[0].value, ast.DictComp):
        comp = body[0].value
    elif len(body) == 2 and isinstance(body[0], ast.Assign) and len(body[0].targets) == 1 and isinstance(body[0].targets[0], ast.Name) \
            and isinstance(body[0].value, ast.DictComp) and norm(body[1]) == '%s._index = %s' % (s, body[0].targets[0].id):
        comp = body[0].value
    if comp is not None and len(comp.generators) == 1:
        g = comp.generators[0]
        if isinstance(g.target, ast.Name) and norm(g.iter) == '%s._row' % s and [norm(i) for i in g.ifs] == ["'id' in %s" % g.target.id] \
                and norm(comp.key) == "str(%s['id'])" % g.target.id and norm(comp.value) == g.target.id:
            return 'local'
    return None


def reindex_shape(ctx, meths, rule='C15.D1'):
    fn = meths.get('reindex')
    if fn is None:
        ctx.error(rule, 'anchor vanished: Grid.reindex')
        return
    s = _self(fn)
    body = body_wo_doc(fn)
    form = reindex_form(meths)
    if form:
        ctx.ob(rule, 'reindex() rebuilds {str(r["id"]): r for r in rows if "id" in r} (%s)'
               % ('filled in place' if form == 'inplace' else 'built aside, stored with one assignment'), True, '%s:%d' % (F, fn.lineno))
    else:
        texts = '\n'.join(norm(b) for b in body)
        if '%s._index = {}' % s not in texts and '= {}' not in texts and 'dict()' not in texts:
            wit = 'after reindex() entries of deleted rows survive'
        elif 'str(' not in texts:
            wit = "row id Ref('a') / 7: grid['a'] / grid[…] raises KeyError because entries are not keyed by str(id)"
        else:
            wit = 'reindex() does not map every row that has an id'
        ctx.violation(rule, '%s::Grid.reindex' % F, texts, wit, 'reindex() is not the canonical rebuild of the id index',
                      file=F, line=fn.lineno, engine='E6')


# ------------------------------------------------------------------ C15.D2 key normaliser

def key_normaliser(ctx, meths, rule='C15.D2'):
    n = 0
    for name, fn in meths.items():
        s = _self(fn)
        # a local dict that is stored into self._index later in the method IS the index being built
        aside = {norm(a.value) for a in walk_no_nested(fn) if isinstance(a, ast.Assign) and isinstance(a.value, ast.Name)
                 and any(norm(t) == '%s._index' % s for t in a.targets)}
        for node in walk_no_nested(fn):
            key = None
            if isinstance(node, ast.Subscript) and (norm(node.value) == '%s._index' % s or norm(node.value) in aside):
                key = node.slice
            elif isinstance(node, ast.Assign) and isinstance(node.value, ast.DictComp) and len(node.targets) == 1 \
                    and (norm(node.targets[0]) == '%s._index' % s or norm(node.targets[0]) in aside):
                key = node.value.key          # the index built by one comprehension
            elif isinstance(node, ast.Call) and isinstance(node.func, ast.Attribute) \
                    and norm(node.func.value) == '%s._index' % s and node.func.attr in ('get', 'pop', 'setdefault') \
                    and node.args:
                key = node.args[0]
            if key is None:
                continue
            n += 1
            if isinstance(key, ast.Call) and norm(key.func) == 'str' and len(key.args) == 1:
                ctx.ob(rule, 'Grid.%s keys the index with %s' % (name, norm(key)), True, '%s:%d' % (F, node.lineno))
            else:
                ctx.violation(rule, '%s::Grid.%s' % (F, name), norm(node),
                              "ids of kind Ref or int: entries are stored under str(id) but this access uses %s, so "
                              "it misses (or leaves stale) the entry" % norm(key),
                              'index access `%s` does not use the str(·) key normaliser that reindex()/lookups use'
                              % norm(node), file=F, line=node.lineno, engine='E9')
    ctx.count('index key expressions', n)
    ctx.floor('index key expressions', n, 4)


# ------------------------------------------------------------------ lookups

def lookups(ctx, meths, rule='C15.D3'):
    fn = meths.get('get')
    if fn is None:
        ctx.violation(rule, '%s::Grid' % F, 'def get', 'grid.get(key) fails', 'Grid.get is missing', file=F, engine='E9')
    else:
        a = [x.arg for x in fn.args.args]
        d = [norm(x) for x in fn.args.defaults]
        body = body_wo_doc(fn)
        s = a[0]
        ok = len(a) == 3 and d == ['None'] and len(body) == 2 and _guard_reindex(body[0], s) \
            and norm(body[1]) == 'return %s._index.get(str(%s), %s)' % (s, a[1], a[2])
        if ok:
            ctx.ob(rule, 'Grid.get(key, default=None) = index.get(str(key), default) after ensuring the index', True,
                   '%s:%d' % (F, fn.lineno))
        else:
            ctx.violation(rule, '%s::Grid.get' % F, '\n'.join(norm(b) for b in body),
                          'grid.get("zz", 5) does not return 5 / grid.get(id) misses a current row',
                          'Grid.get deviates from `ensure index; return index.get(str(key), default)`', file=F,
                          line=fn.lineno, engine='E9')
    fn = meths.get('__getitem__')
    if fn is not None:
        k = fn.args.args[1].arg
        s = fn.args.args[0].arg
        # the else branch
        node = None
        for st in body_wo_doc(fn):
            if isinstance(st, ast.If):
                node = st
        while isinstance(node, ast.If) and len(node.orelse) == 1 and isinstance(node.orelse[0], ast.If):
            node = node.orelse[0]
        els = node.orelse if isinstance(node, ast.If) else []
        if len(els) == 2 and _guard_reindex(els[0], s) and norm(els[1]) == 'return %s._index[str(%s)]' % (s, k):
            ctx.ob(rule, 'grid[key] = index[str(key)] after ensuring the index (KeyError when absent)', True,
                   '%s:%d' % (F, fn.lineno))
        else:
            ctx.violation(rule, '%s::Grid.__getitem__' % F, '\n'.join(norm(b) for b in els),
                          'grid["id"] does not return the current row with that id / raises something other than KeyError',
                          'the id-key branch deviates from `ensure index; return index[str(key)]`', file=F,
                          line=fn.lineno, engine='E9')


def who_may_write(ctx, rule='C15.D4'):
    m = ctx.model
    n = 0
    for name, mod in m.modules.items():
        for node in ast.walk(mod.tree):
            if isinstance(node, ast.Attribute) and node.attr in ('_row', '_index'):
                n += 1
                owner = None
                p = node
                while p is not None:
                    if isinstance(p, ast.ClassDef):
                        owner = p.name
                        break
                    p = getattr(p, '_parent', None)
                if name == MOD and owner == 'Grid':
                    continue
                ctx.violation(rule, 'hszinc/%s.py::%s' % (name, owner or '<module>'),
                              norm(getattr(node, '_parent', node)),
                              'code outside Grid touches %s: rows can change without the id index following' % node.attr,
                              'only Grid methods may touch _row/_index', file='hszinc/%s.py' % name, line=node.lineno,
                              engine='E7')
    ctx.ob(rule, 'all %d uses of _row/_index are inside class Grid' % n, True)
    ctx.floor('uses of _row/_index', n, 12)


# ------------------------------------------------------------------ explicit index range tests are the list's

def index_guards(ctx, meths, rule='C14.D1'):
    """A primitive that tests the index itself before touching _row (`if not -len < i < len: raise IndexError`) must
    accept exactly what a list accepts: -len <= i < len.  Decision table over lengths 0, 1, 3 and the indices around
    both ends."""
    from .. import minieval
    n_tests = 0
    for name in ('__getitem__', '__setitem__', '__delitem__', 'pop'):
        fn = meths.get(name)
        if fn is None or len(fn.args.args) < 2:
            continue
        s = _self(fn)
        ip = fn.args.args[1].arg
        for node in walk_no_nested(fn):
            if not (isinstance(node, ast.If) and node.body and isinstance(node.body[0], ast.Raise) and node.body[0].exc is not None
                    and norm(node.body[0].exc).startswith('IndexError')):
                continue
            if not any(isinstance(x, ast.Name) and x.id == ip for x in ast.walk(node.test)):
                continue
            n_tests += 1
            bad = None
            try:
                for n in (0, 1, 3):
                    for i in sorted({-n - 1, -n, -1, 0, n - 1, n}):
                        raises = bool(minieval.ev(node.test, {ip: i, s: {'_row': tuple(range(n))}}))
                        if raises != (not (-n <= i < n)):
                            bad = bad or (n, i, raises)
            except minieval.Undecided as e:
                ctx.error(rule, 'Grid.%s: index test `%s` not decidable (%s)' % (name, norm(node.test)[:60], e))
                continue
            if bad:
                n, i, raises = bad
                ctx.violation(rule, '%s::Grid.%s' % (F, name), norm(node.test),
                              'a grid with %d row(s): g[%d]%s %s IndexError, a list of %d element(s) %s' % (
                                  n, i, ' = row' if name == '__setitem__' else '', 'raises' if raises else 'does not raise', n,
                                  'accepts the index' if raises else 'raises IndexError'),
                              'the explicit index range test of Grid.%s differs from the list rule -len <= i < len' % name,
                              file=F, line=node.lineno, engine='E7')
            else:
                ctx.ob(rule, 'Grid.%s: the explicit index test `%s` is the list rule' % (name, norm(node.test)[:50]), True,
                       '%s:%d' % (F, node.lineno))
    ctx.count('explicit index range tests in Grid primitives', n_tests)


def setitem_unconditional(ctx, meths, rule='C14.D1'):
    """g[i] = row REPLACES the row at i, whatever was there: the store is not skipped when the old row `==` the new one
    (True == 1, -0.0 == 0.0, an equal but distinct dict: the list would now hold the new object)."""
    from .c17 import _guards
    m = ctx.model
    try:
        fn = m.func(MOD, 'Grid.__setitem__', 'nested')
    except AnalysisError as e:
        ctx.error(rule, str(e))
        return
    s = _self(fn)
    stores = [st for st in ast.walk(fn) if isinstance(st, ast.Assign) and any(
        isinstance(t, ast.Subscript) and norm(t.value) == '%s._row' % s for t in st.targets)]
    if not stores:
        return
    st = stores[0]
    conds = [(t, pol) for t, pol in _guards(fn, st)
             if any(isinstance(x, ast.Attribute) and norm(x) == '%s._row' % s for x in ast.walk(t))
             and isinstance(t, ast.Compare) and isinstance(t.ops[0], (ast.Eq, ast.NotEq, ast.Is, ast.IsNot))]
    if conds:
        t, pol = conds[0]
        ctx.violation(rule, '%s::Grid.__setitem__' % F, norm(t),
                      'g = grid with the row {"v": 1}; g[0] = {"v": True}: the rows compare equal (a bool is an int), so under `%s` '
                      'the store is skipped -- g[0] keeps returning the old row object, a ZINC dump writes 1 instead of T, and '
                      'reverse() (which swaps rows through item assignment) leaves equal rows where they were; a list holds the '
                      'new object' % norm(t), 'the store of Grid.__setitem__ is conditional on comparing the old row with the new '
                      'one', file=F, line=st.lineno, engine='E6')
    else:
        ctx.ob(rule, 'Grid.__setitem__ stores the row whatever the old row was', True, '%s:%d' % (F, st.lineno))
