"""C18 -- version numbers: total order consistent with == and hash; nearest()."""
from __future__ import annotations

import ast
import itertools

from ..decision import IdentityOfValues, Raises, cond, decide
from ..lang import Unsupported
from ..model import AnalysisError, body_wo_doc, norm, walk_no_nested

META = {
    'level': 'other',
    'explanation': (
        'Static analysis of hszinc/version.py.  Decides: (D1) the six comparison methods are '
        'thresholds on _cmp that agree with the table lt:{-1} le:{-1,0} eq:{0} ne:{-1,1} ge:{0,1} gt:{1}; '
        '(D2) _cmp touches its inputs only through comparisons, so it is a finite decision table over the '
        'orderings of (numeric groups, suffixes); the table is extracted from the AST and enumerated '
        'exhaustively over the ordering classes {<,=,>} x {None,a,b}^2 and compared with the documented '
        'order (antisymmetric, None-suffix first, zero-padded, ints); (D3) __hash__ is computed from a '
        'padding-insensitive form; (D4) nearest() returns only members of OFFICIAL_VERSIONS, equal first, '
        'scanning in descending order.  Also (D2): identity tests (`is`) between non-singleton inputs are refused by the decision table (the outcome depends on interning); the skeleton may bind locals to case/strip transforms and the suffix representatives include mixed case; (D3) an unrecognised __hash__ body is evaluated by a small interpreter on representatives of the zero-padding classes.  Not decided: transitivity/monotonicity as quantified statements '
        'over triples (they follow from D1+D2 for a lexicographic comparison; that step is not mechanised).'
        ' Also (D2): each operand of _cmp is padded by its OWN length.'
        ' Also (D2): no strip/rstrip/lstrip with a multi-character set containing a digit on version text; suffixes are ordered by ONE criterion (a derived-value comparison next to the text comparison is a violation).'
        ' Also (D1): every way out of a comparison operator is decided by _cmp.'
        ' Round 9: (D3) == is not coarser than hash: suffixes compared through a forgetting function (int of embedded digits, case fold, strip) while __hash__ hashes the raw suffix is a violation; (D4) nearest() keeps no memo keyed by the numeric groups alone and no two-slot memo.'),
    'rule_text': 'obligations = operator thresholds (6), _cmp decision-table cells (3 numeric orderings x 9 suffix '
                 'pairs), padding/int/coercion facts, hash form, nearest() returns and scan order',
    'trusted_base': ['lexicographic lift: a for-loop over zip() of equal-length tuples whose body returns on the '
                     'first unequal pair is the lexicographic comparison'],
}

MOD = 'version'
F = 'hszinc/version.py'
WANT = {'__lt__': {-1}, '__le__': {-1, 0}, '__eq__': {0}, '__ne__': {-1, 1}, '__ge__': {0, 1}, '__gt__': {1}}
OPSYM = {'__lt__': '<', '__le__': '<=', '__eq__': '==', '__ne__': '!=', '__ge__': '>=', '__gt__': '>'}
REP = {-1: ("'2.0'", "'3.0'"), 0: ("'2.0'", "'2.0'"), 1: ("'3.0'", "'2.0'")}


def run(ctx):
    m = ctx.model
    methods = m.methods(MOD, 'Version', 'flat')
    ctx.count('methods of Version', len(methods))
    _strip_sets(ctx, methods)
    _operators(ctx, methods)
    _cmp(ctx, methods)
    _init(ctx, methods)
    version_immutable(ctx, 'C18.D2')
    _hash(ctx, methods)
    _suffix_transform(ctx, m, methods)
    _nearest(ctx, m, methods)
    nearest_pure(ctx, 'C18.D4')


def _strip_sets(ctx, methods):
    """str.strip / rstrip / lstrip take a SET of characters, not a suffix: on the text of a version, rstrip('.0') turns
    '10.0' into '1' and '2.10' into '2.1'.  Any such call with a constant of two or more characters inside Version is
    that trap (a one-character argument, or none, is fine)."""
    n = 0
    for name, fn in sorted(methods.items()):
        for c in walk_no_nested(fn):
            if isinstance(c, ast.Call) and isinstance(c.func, ast.Attribute) and c.func.attr in ('strip', 'rstrip', 'lstrip'):
                n += 1
                if c.args and isinstance(c.args[0], ast.Constant) and isinstance(c.args[0].value, str) and len(set(c.args[0].value)) >= 2 \
                        and any(ch.isdigit() for ch in c.args[0].value):
                    ctx.violation('C18.D2', '%s::Version.%s' % (F, name), norm(c),
                                  "Version('1') == Version('10') is True (and they hash alike) while Version('1') < Version('10') is "
                                  "True too: %s(%r) removes every trailing/leading character of that SET, so '10' loses its zero "
                                  "and '2.10' becomes '2.1'" % (c.func.attr, c.args[0].value),
                                  'a version text is trimmed with %s(%r): a character set that contains a digit, not a suffix'
                                  % (c.func.attr, c.args[0].value), file=F, line=c.lineno, engine='E7')
    ctx.count('strip-family calls inside Version', n)


def _operators(ctx, methods):
    n = 0
    for name, want in WANT.items():
        if name not in methods:
            ctx.violation('C18.D1', '%s::Version' % F, 'def %s' % name,
                          'Version(%s) %s Version(%s) falls back to object default' % (REP[0][0], OPSYM[name], REP[0][1]),
                          'comparison method %s is missing' % name, file=F, engine='E9')
            continue
        fn = methods[name]
        body = body_wo_doc(fn)
        a = [x.arg for x in fn.args.args]
        if len(a) == 2 and not (len(body) == 1 and isinstance(body[0], ast.Return)):
            # several ways out: every one of them must be decided by _cmp -- an early answer from another measure
            # (the TEXT of the versions, their type) makes this operator disagree with the other five
            rets = [r for r in walk_no_nested(fn) if isinstance(r, ast.Return) and r.value is not None]
            foreign = [r for r in rets if '%s._cmp(%s)' % (a[0], a[1]) not in norm(r.value) and norm(r.value) != 'NotImplemented']
            if foreign and any('%s._cmp(%s)' % (a[0], a[1]) in norm(r.value) for r in rets):
                r0 = foreign[0]
                ctx.violation('C18.D1', '%s::Version.%s' % (F, name), norm(r0),
                              "Version('2') %s '2.0': this operator answers `%s` for some operands (the text / kind of the operand) "
                              "while the other operators go through _cmp, which pads 2 to 2.0 -- e.g. Version('2') == '2.0' is False "
                              "and Version('2') != '2.0' is False too: none of <, ==, > holds, strings do not compare like the "
                              'versions they spell' % (OPSYM[name], norm(r0.value)[:50]),
                              'Version.%s has a way out that is not decided by _cmp' % name, file=F, line=r0.lineno, engine='E9')
                n += 1
                continue
        if len(body) != 1 or not isinstance(body[0], ast.Return) or len(a) != 2:
            ctx.error('C18.D1', 'Version.%s: body is not a single return' % name)
            continue
        call = '%s._cmp(%s)' % (a[0], a[1])
        # an operator derived from another one with the operands SWAPPED (`other < self`) never reaches _cmp's coercion
        # of a string operand: Python hands the comparison back to the reflected Version method, which swaps again
        swapped = [c for c in ast.walk(body[0].value) if isinstance(c, ast.Compare) and isinstance(c.left, ast.Name)
                   and c.left.id == a[1] and any(isinstance(x, ast.Name) and x.id == a[0] for x in c.comparators)]
        if swapped and call not in norm(body[0].value):
            ctx.violation('C18.D1', '%s::Version.%s' % (F, name), norm(body[0]),
                          "Version('3.0') %s '2.0' raises RecursionError: `%s` puts the string on the left, str has no such "
                          "comparison with a Version, Python calls the reflected Version method with the operands swapped back, and "
                          "so on without end -- strings no longer compare like the versions they spell" % (OPSYM[name], norm(swapped[0])),
                          'Version.%s is derived from another operator with swapped operands instead of from _cmp' % name,
                          file=F, line=fn.lineno, engine='E9')
            n += 1
            continue
        got = set()
        try:
            for c in (-1, 0, 1):
                if cond(body[0].value, {call: c}):
                    got.add(c)
        except (Unsupported, Raises) as e:
            ctx.error('C18.D1', 'Version.%s: %s is not a threshold on %s (%s)' % (name, norm(body[0].value), call, e))
            continue
        n += 1
        if got == want:
            ctx.ob('C18.D1', 'Version.%s true exactly for _cmp in %s' % (name, sorted(want)), True,
                   '%s:%d' % (F, fn.lineno))
        else:
            diff = sorted(got ^ want)[0]
            ctx.violation('C18.D1', '%s::Version.%s' % (F, name), norm(body[0]),
                          'Version(%s) %s Version(%s) is %s' % (REP[diff][0], OPSYM[name], REP[diff][1], diff in got),
                          'Version.%s is true for _cmp in %s, must be %s' % (name, sorted(got), sorted(want)),
                          file=F, line=fn.lineno, engine='E9')
    ctx.floor('Version comparison operators', n, 6 - sum(1 for k in WANT if k not in methods))


# --------------------------------------------------------------------------------------


def _is_zero_pad(value, local, alias, maxlen_names, measured=None):
    """value pads `local` (alias of X.nums) with zeros up to the max length?  (`measured`: the name whose length is
    subtracted, `local` itself in the correct form)"""
    t = norm(value)
    measured = measured or local
    for ml in maxlen_names:
        forms = [
            'tuple([0 for %%s in range(len(%s), %s)])' % (measured, ml),
            'tuple((0 for %%s in range(len(%s), %s)))' % (measured, ml),
            '(0,) * (%s - len(%s))' % (ml, measured),
            'tuple([0] * (%s - len(%s)))' % (ml, measured),
            '[0] * (%s - len(%s))' % (ml, measured),
        ]
        for f in forms:
            if '%s' in f:
                for v in ('n', '_', 'i', 'x', '_i', 'k'):
                    if t == f % v:
                        return True
            elif t == f:
                return True
    return False


def _cmp(ctx, methods):
    if '_cmp' not in methods:
        ctx.error('C18.D2', 'anchor vanished: Version._cmp')
        return
    fn = methods['_cmp']
    where = '%s:%d' % (F, fn.lineno)
    args = [x.arg for x in fn.args.args]
    if len(args) != 2:
        ctx.error('C18.D2', 'Version._cmp signature changed')
        return
    s, o = args
    # every return is one of -1, 0, 1
    for node in walk_no_nested(fn):
        if isinstance(node, ast.Return):
            try:
                v = ast.literal_eval(node.value) if node.value is not None else None
            except Exception:
                v = 'expr'
            if v not in (-1, 0, 1) or isinstance(v, bool):
                ctx.violation('C18.D1', '%s::Version._cmp' % F, norm(node), 'a comparison sees %r from _cmp' % (v,),
                              '_cmp returns %s, not one of -1, 0, 1' % norm(node.value), file=F, line=node.lineno,
                              engine='E9')
            else:
                ctx.ob('C18.D1', '_cmp return %r is one of -1/0/1' % v, True, '%s:%d' % (F, node.lineno))
    alias = {'%s.version_nums' % s: 'S.nums', '%s.version_nums' % o: 'O.nums',
             '%s.version_extra' % s: 'S.extra', '%s.version_extra' % o: 'O.extra'}
    coerced = False
    padded = set()
    maxlen_names = set()
    body = body_wo_doc(fn)
    rest_at = None
    for i, st in enumerate(body):
        t = norm(st)
        if isinstance(st, ast.If) and norm(st.test) == 'not isinstance(%s, Version)' % o and not st.orelse \
                and [norm(x) for x in st.body] == ['%s = Version(%s)' % (o, o)]:
            coerced = True
            continue
        if isinstance(st, ast.Assign) and len(st.targets) == 1 and isinstance(st.targets[0], ast.Name):
            tgt = st.targets[0].id
            v = norm(st.value)
            if v in alias and alias[v].split('.')[1] in ('nums', 'extra'):
                alias[tgt] = alias[v]
                continue
            # ver_len = max(len(num1), len(num2))
            if isinstance(st.value, ast.Call) and norm(st.value.func) == 'max' and len(st.value.args) == 2:
                inner = []
                for a in st.value.args:
                    if isinstance(a, ast.Call) and norm(a.func) == 'len' and len(a.args) == 1:
                        inner.append(alias.get(norm(a.args[0])))
                if sorted(x or '' for x in inner) == ['O.nums', 'S.nums']:
                    maxlen_names.add(tgt)
                    continue
            # num1 = num1 + pad
            if isinstance(st.value, ast.BinOp) and isinstance(st.value.op, ast.Add) \
                    and norm(st.value.left) == tgt and alias.get(tgt, '').endswith('.nums') \
                    and _is_zero_pad(st.value.right, tgt, alias, maxlen_names):
                padded.add(alias[tgt])
                continue
            if isinstance(st.value, ast.BinOp) and isinstance(st.value.op, ast.Add) \
                    and norm(st.value.left) == tgt and alias.get(tgt, '').endswith('.nums'):
                wrong = [n for n, a in alias.items() if a.endswith('.nums') and n != tgt and '.' not in n
                         and _is_zero_pad(st.value.right, tgt, alias, maxlen_names, measured=n)]
                if wrong:
                    ctx.violation('C18.D2', '%s::Version._cmp' % F, t,
                                  "Version('2.0.1') == Version('2.0') is True while Version('2.0') < Version('2.0.1') is True too "
                                  '(or the reverse): the shorter operand is not padded, zip() drops the extra groups of the longer one',
                                  '`%s` is padded by the length of `%s`, not by its own: when it is the shorter one it stays short'
                                  % (tgt, wrong[0]), file=F, line=st.lineno, engine='E7')
                    padded.add(alias[tgt])
                    continue
        if isinstance(st, ast.AugAssign) and isinstance(st.op, ast.Add) and isinstance(st.target, ast.Name):
            tgt = st.target.id
            if alias.get(tgt, '').endswith('.nums') and _is_zero_pad(st.value, tgt, alias, maxlen_names):
                padded.add(alias[tgt])
                continue
            wrong = [n for n, a in alias.items() if a.endswith('.nums') and n != tgt and '.' not in n
                     and alias.get(tgt, '').endswith('.nums') and _is_zero_pad(st.value, tgt, alias, maxlen_names, measured=n)]
            if wrong:
                ctx.violation('C18.D2', '%s::Version._cmp' % F, t,
                              "Version('2.0.1') == Version('2.0') is True while Version('2.0') < Version('2.0.1') is True too "
                              '(or the reverse): the shorter operand is not padded, zip() drops the extra groups of the longer one',
                              '`%s` is padded by the length of `%s`, not by its own: when it is the shorter one it stays short'
                              % (tgt, wrong[0]), file=F, line=st.lineno, engine='E7')
                padded.add(alias[tgt])
                continue
            ctx.error('C18.D2', '_cmp: unrecognised update %r' % t)
            return
        if isinstance(st, (ast.For, ast.If, ast.Return)):
            rest_at = i
            break
        if isinstance(st, ast.Expr) and isinstance(st.value, ast.Constant):
            continue
        ctx.error('C18.D2', '_cmp: unrecognised statement %r' % t.split('\n')[0])
        return
    if rest_at is None:
        ctx.error('C18.D2', '_cmp: no comparison skeleton found')
        return
    rest = body[rest_at:]

    if coerced:
        ctx.ob('C18.D2', '_cmp coerces a non-Version operand with Version(other) (strings compare like versions)',
               True, where)
    else:
        ctx.violation('C18.D2', '%s::Version._cmp' % F, 'if not isinstance(other, Version): other = Version(other)',
                      "Version('2.0') == '2.0' raises AttributeError / compares unequal",
                      '_cmp does not convert a string operand to a Version', file=F, line=fn.lineno, engine='E9')

    # zip_longest(fillvalue=0) pads implicitly
    uses_zip_longest = False
    for st in rest:
        if isinstance(st, ast.For) and isinstance(st.iter, ast.Call):
            fnm = norm(st.iter.func)
            if fnm.endswith('zip_longest'):
                kw = {k.arg: norm(k.value) for k in st.iter.keywords}
                if kw.get('fillvalue') == '0':
                    uses_zip_longest = True
    if uses_zip_longest or padded == {'S.nums', 'O.nums'}:
        ctx.ob('C18.D2', 'numeric groups are zero-padded to equal length before comparison (2 == 2.0 == 2.0.0)',
               True, where)
    else:
        missing = sorted({'S.nums', 'O.nums'} - padded)
        ctx.violation('C18.D2', '%s::Version._cmp' % F, 'pad %s' % ','.join(missing),
                      "Version('2.0') vs Version('2.0.1'): zip() stops at the shorter tuple, so they compare equal"
                      if 'S.nums' in missing or True else '',
                      '_cmp compares numeric groups without zero-padding %s to the common length' % missing,
                      file=F, line=fn.lineno, engine='E6')

    # one criterion for the suffixes: a branch that decides by a value DERIVED from both suffixes (a number cut out of
    # them, their lengths, ...) only when a condition on both holds, next to the plain text comparison for the other
    # pairs, mixes two orders -- rc2 < rc10 by number, rc10 < rc1x and rc1x < rc2 by text: a cycle
    extra_texts = {k for k, v in alias.items() if v.endswith('.extra')} | {'%s.version_extra' % s, '%s.version_extra' % o}
    derived = {}
    pairs_ = []
    for st in [x for r_ in rest for x in ast.walk(r_)]:
        if isinstance(st, ast.Assign) and len(st.targets) == 1:
            tg0 = st.targets[0]
            if isinstance(tg0, ast.Tuple) and isinstance(st.value, ast.Tuple) and len(tg0.elts) == len(st.value.elts):
                pairs_.extend((ast.Assign(targets=[t_], value=v_)) for t_, v_ in zip(tg0.elts, st.value.elts))
            else:
                pairs_.append(st)
    for st in pairs_:
        if isinstance(st, ast.Assign) and isinstance(st.value, (ast.Call, ast.Tuple)):
            src = {norm(x) for x in ast.walk(st.value) if isinstance(x, (ast.Attribute, ast.Name))}
            roots = {('S' if (t == '%s.version_extra' % s or alias.get(t, '').startswith('S.')) else 'O')
                     for t in src if t in extra_texts} | {d for t in src if t in derived for d in derived[t]}
            if roots:
                for tg in ast.walk(st.targets[0]):
                    if isinstance(tg, ast.Name):
                        derived[tg.id] = set(roots)
    plain_cmp = any(isinstance(c, ast.Compare) and norm(c.left) in extra_texts and any(norm(x) in extra_texts for x in c.comparators)
                    and isinstance(c.ops[0], (ast.Lt, ast.Gt, ast.LtE, ast.GtE)) for r_ in rest for c in ast.walk(r_))
    mixed = [c for r_ in rest for c in ast.walk(r_) if isinstance(c, ast.Compare) and isinstance(c.ops[0], (ast.Lt, ast.Gt, ast.LtE, ast.GtE))
             and isinstance(c.left, ast.Name) and c.left.id in derived and any(isinstance(x, ast.Name) and x.id in derived
                                                                              and derived[x.id] != derived[c.left.id]
                                                                              for x in c.comparators)]
    if mixed and plain_cmp:
        c = mixed[0]
        ctx.violation('C18.D2', '%s::Version._cmp' % F, norm(c),
                      "Version('2.0rc2') < Version('2.0rc10') (decided by `%s`), Version('2.0rc10') < Version('2.0rc1x') and "
                      "Version('2.0rc1x') < Version('2.0rc2') (both decided by the text of the suffixes): a cycle -- the order is "
                      'not transitive, sorted() depends on the input arrangement' % norm(c),
                      'suffixes are ordered by two criteria (`%s` for some pairs, their text for the others) that disagree'
                      % norm(c), file=F, line=c.lineno, engine='E6')
        return
    # decision table over orderings
    nums = {'lt': ((2, 0), (3, 0)), 'eq': ((2, 0), (2, 0)), 'gt': ((3, 0), (2, 0)),
            'lt2': ((2, 0), (2, 1)), 'gt2': ((2, 1), (2, 0))}
    extras = [None, 'a', 'b', 'B']      # mixed case: suffixes compare as spelled ('B' < 'a' < 'b')
    cells = 0
    bad = []
    for rel, (sn, on) in nums.items():
        for se, oe in itertools.product(extras, repeat=2):
            val = {'S.nums': sn, 'O.nums': on, 'S.extra': se, 'O.extra': oe}
            try:
                out = _run_rest(rest, dict(val), alias)
            except Unsupported as e:
                ctx.error('C18.D2', '_cmp is not a comparison skeleton: %s' % e)
                return
            except IdentityOfValues as e:
                ctx.violation('C18.D2', '%s::Version._cmp' % F, e.text,
                              "Version('2.0rc1') == Version('2.0rc1') is False (and > is True in both directions): the suffixes are "
                              "compared with `%s`, i.e. by object identity -- two separately parsed equal suffixes are different "
                              "string objects (single characters only look equal because CPython shares them)" % e.text,
                              '_cmp compares version suffixes by identity instead of by value', file=F, line=fn.lineno,
                              engine='E6')
                return
            if rel.startswith('lt'):
                want = -1
            elif rel.startswith('gt'):
                want = 1
            elif se == oe:
                want = 0
            elif se is None:
                want = -1
            elif oe is None:
                want = 1
            else:
                want = -1 if se < oe else 1
            cells += 1
            ok = out == ('return', want)
            desc = '_cmp(nums %s, suffix %r vs %r) = %d' % (rel, se, oe, want)
            if ok:
                ctx.ob('C18.D2', desc, True, where)
            else:
                bad.append((rel, sn, on, se, oe, want, out))
    ctx.count('_cmp decision-table cells', cells)
    if bad:
        rel, sn, on, se, oe, want, out = bad[0]
        a = '.'.join(map(str, sn)) + (se or '')
        b = '.'.join(map(str, on)) + (oe or '')
        ctx.violation('C18.D2', '%s::Version._cmp' % F, '\n'.join(norm(x) for x in rest),
                      "Version('%s')._cmp(Version('%s')) gives %s, the documented order gives %d (%d of %d cells differ)"
                      % (a, b, out[1] if len(out) > 1 else out[0], want, len(bad), cells),
                      '_cmp deviates from the documented order (numeric groups as ints, missing suffix first, '
                      'then suffixes as strings; antisymmetric)', file=F, line=fn.lineno, engine='E6')


def _run_rest(stmts, val, alias):
    for st in stmts:
        if isinstance(st, ast.For):
            if st.orelse:
                raise Unsupported('for/else')
            it = st.iter
            if not (isinstance(it, ast.Call) and norm(it.func).split('.')[-1] in ('zip', 'zip_longest', 'izip')
                    and len(it.args) == 2):
                raise Unsupported('loop over %s' % norm(it))
            sides = [alias.get(norm(a)) for a in it.args]
            if sorted(x or '' for x in sides) != ['O.nums', 'S.nums']:
                raise Unsupported('zip arguments %s' % [norm(a) for a in it.args])
            tg = st.target
            if not (isinstance(tg, ast.Tuple) and len(tg.elts) == 2 and all(isinstance(e, ast.Name) for e in tg.elts)):
                raise Unsupported('loop target %s' % norm(tg))
            a = val[sides[0]]
            b = val[sides[1]]
            for x, y in zip(a, b):
                v2 = dict(val)
                v2[tg.elts[0].id] = x
                v2[tg.elts[1].id] = y
                out = decide(st.body, v2, alias)
                if out in (('fall',), ('continue',)):
                    continue
                if out == ('break',):
                    break
                return out
            continue
        out = decide([st], val, alias)
        if out != ('fall',):
            return out
    return ('fall',)


def _init(ctx, methods):
    fn = methods.get('__init__')
    if fn is None:
        ctx.error('C18.D2', 'anchor vanished: Version.__init__')
        return
    # every version spelling the property speaks of is accepted by the constructor's regex: 3, 2.0, 3.0.0, 2.0rc1 ...
    try:
        from .. import lang as L_
        from .. import spec as S_
        vr = ctx.model.const(MOD, 'VERSION_RE')
        pr = L_.PyRegex(vr.pattern, vr.flags)
        spellings = S_.rx_of(r'[0-9]+(\.[0-9]+)*([a-zA-Z+\- ][a-zA-Z0-9.+\- ]*)?')
        w = L_.find_not_included(spellings, pr.match_lang(), max_witnesses=1)
        if w:
            wt = ''.join(chr(c) for c in w[0])
            ctx.violation('C18.D2', '%s::VERSION_RE' % F, vr.pattern,
                          "Version(%r) raises ValueError (\"Not a valid version string\"): the constructor's regex does not accept "
                          "that spelling, so `Version(%r) == Version('%s.0')` cannot even be evaluated" % (wt, wt, wt),
                          'VERSION_RE rejects a well-formed version number', file=F, engine='E3')
        else:
            ctx.ob('C18.D2', 'VERSION_RE accepts every dotted-decimal version with an optional suffix', True, F)
    except Exception as e:
        ctx.error('C18.D2', 'VERSION_RE: %s' % e)
    found = False
    for node in walk_no_nested(fn):
        if isinstance(node, ast.Assign) and norm(node.targets[0]).endswith('.version_nums') \
                and not norm(node.value).endswith('.version_nums'):
            found = True
            v = node.value
            comp = None
            if isinstance(v, ast.Call) and norm(v.func) == 'tuple' and len(v.args) == 1 \
                    and isinstance(v.args[0], (ast.ListComp, ast.GeneratorExp)):
                comp = v.args[0]
            if comp is not None and isinstance(comp.elt, ast.Call) and norm(comp.elt.func) == 'int' \
                    and isinstance(comp.generators[0].iter, ast.Call) \
                    and norm(comp.generators[0].iter.func).endswith('.split') \
                    and [norm(a) for a in comp.generators[0].iter.args] == ["'.'"]:
                ctx.ob('C18.D2', 'numeric groups are stored as ints split on "." (10.0 > 9.0)', True,
                       '%s:%d' % (F, node.lineno))
            else:
                ctx.violation('C18.D2', '%s::Version.__init__' % F, norm(node),
                              "Version('10.0') vs Version('9.0'): groups are not compared as ints",
                              'version_nums is not a tuple of int(group) for the groups separated by "."',
                              file=F, line=node.lineno, engine='E9')
    if not found:
        ctx.error('C18.D2', 'Version.__init__: assignment of version_nums not found')


def _hash(ctx, methods):
    fn = methods.get('__hash__')
    if fn is None:
        if '__eq__' in methods:
            ctx.violation('C18.D3', '%s::Version' % F, 'def __hash__', 'hash(Version("2.0")) raises TypeError',
                          '__eq__ is defined without __hash__: versions are unhashable', file=F, engine='E9')
        return
    body = body_wo_doc(fn)
    s = fn.args.args[0].arg
    where = '%s:%d' % (F, fn.lineno)
    text = '\n'.join(norm(x) for x in body)
    ret = body[-1] if body and isinstance(body[-1], ast.Return) else None
    if ret is None:
        ctx.error('C18.D3', '__hash__: no final return')
        return
    # accepted: strip trailing zero groups, hash (nums, extra)
    stripped = None
    ok_prefix = True
    for st in body[:-1]:
        if isinstance(st, ast.Assign) and len(st.targets) == 1 and isinstance(st.targets[0], ast.Name) \
                and norm(st.value) == '%s.version_nums' % s:
            stripped = (st.targets[0].id, False)
        elif isinstance(st, ast.While) and stripped is not None:
            n = stripped[0]
            tests = {'%s and %s[-1] == 0' % (n, n), 'len(%s) > 0 and %s[-1] == 0' % (n, n),
                     '%s and (not %s[-1])' % (n, n), 'len(%s) > 1 and %s[-1] == 0' % (n, n),
                     '%s and %s[-1] == 0' % (n, n)}
            if norm(st.test) in tests and [norm(x) for x in st.body] == ['%s = %s[:-1]' % (n, n)] and not st.orelse:
                stripped = (n, True)
            else:
                ok_prefix = False
        else:
            ok_prefix = False
    rv = norm(ret.value)
    if isinstance(ret.value, ast.Constant):
        ctx.ob('C18.D3', '__hash__ is constant (trivially consistent with ==)', True, where)
        return
    if stripped and stripped[1] and ok_prefix and rv in (
            'hash((%s, %s.version_extra))' % (stripped[0], s), 'hash((%s.version_extra, %s))' % (s, stripped[0])):
        ctx.ob('C18.D3', '__hash__ hashes (numeric groups without trailing zeros, suffix): invariant under the '
                         'padding that == ignores', True, where)
        return
    bad_forms = {
        'hash(str(%s))' % s: "str() prints every numeric group, so padding changes the hash",
        'hash(%s.version_nums)' % s: 'raw numeric groups are padding-sensitive',
        'hash((%s.version_nums, %s.version_extra))' % (s, s): 'raw numeric groups are padding-sensitive',
        'id(%s)' % s: 'identity hash', 'hash(id(%s))' % s: 'identity hash',
        'hash(repr(%s))' % s: 'repr is padding-sensitive',
    }
    if rv in bad_forms and len(body) == 1:
        ctx.violation('C18.D3', '%s::Version.__hash__' % F, text,
                      "Version('2.0') == Version('2.0.0') but hash(Version('2.0')) != hash(Version('2.0.0'))",
                      '__hash__ is not invariant under zero-padding although __eq__ is: %s' % bad_forms[rv],
                      file=F, line=fn.lineno, engine='E9')
        return
    # hash precomputed elsewhere: return self.<attr>
    if len(body) == 1 and isinstance(ret.value, ast.Attribute) and norm(ret.value.value) == s:
        attr = ret.value.attr
        cls = fn._parent if isinstance(getattr(fn, '_parent', None), ast.ClassDef) else None
        stores = []
        if cls is not None:
            for n in ast.walk(cls):
                if isinstance(n, ast.Assign) and any(norm(t).endswith('.%s' % attr) for t in n.targets):
                    stores.append(n)
        textual = []
        for st in stores:
            v = st.value
            if norm(v).endswith('.%s' % attr):
                continue            # clone path copies the value
            # string operations on the matched text?
            for c in ast.walk(v):
                if isinstance(c, ast.Call) and isinstance(c.func, ast.Attribute) and c.func.attr in (
                        'rstrip', 'strip', 'lstrip', 'lower', 'upper', 'replace', 'split', 'join', 'format'):
                    textual.append((st, c))
                if isinstance(c, ast.Call) and norm(c.func) in ('str', 'repr'):
                    textual.append((st, c))
                if isinstance(c, ast.Name) and c.id in ('ver_str',):
                    textual.append((st, c))
        if textual:
            st, c = textual[0]
            ctx.violation('C18.D3', '%s::Version.__hash__' % F, norm(st),
                          "Version('03.0') == Version('3.0') (groups are compared as ints) but their hashes differ: the "
                          "hash is taken from the spelling (`%s`), so a leading zero or an empty group changes it; "
                          "Version('03.0') is not found in a set holding Version('3.0')" % norm(c),
                          '__hash__ returns a value precomputed from the version *text* rather than from the numeric groups '
                          '== compares', file=F, line=st.lineno, engine='E9')
            return
        ctx.error('C18.D3', '__hash__ returns self.%s, whose computation is not recognised' % attr)
        return
    # any other body: evaluate it with the small interpreter below on representatives of the padding classes
    groups = [[((2,), None), ((2, 0), None), ((2, 0, 0), None)], [((2, 1), None), ((2, 1, 0), None)],
              [((1,), 'a'), ((1, 0), 'a')], [((0,), None), ((0, 0), None)], [((10,), None), ((10, 0), None)],
              [((3, 0, 1), 'rc1'), ((3, 0, 1, 0), 'rc1')]]
    try:
        for grp in groups:
            keys = [_mini_run(body, {s: {'version_nums': nums, 'version_extra': extra}}) for nums, extra in grp]
            if any(k != keys[0] for k in keys[1:]):
                i = [k != keys[0] for k in keys].index(True)
                a = '.'.join(map(str, grp[0][0])) + (grp[0][1] or '')
                b = '.'.join(map(str, grp[i][0])) + (grp[i][1] or '')
                ctx.violation('C18.D3', '%s::Version.__hash__' % F, text[:200],
                              "Version('%s') == Version('%s') but their hashes are taken from %r and %r: a set holding one does "
                              "not contain the other" % (a, b, keys[0], keys[i]),
                              '__hash__ is not invariant under the zero-padding that == ignores', file=F, line=fn.lineno,
                              engine='E6')
                return
        ctx.ob('C18.D3', '__hash__ evaluated on %d padding classes: equal versions hash from equal keys' % len(groups), True, where)
    except _MiniUnsupported as e:
        ctx.error('C18.D3', '__hash__ has an unrecognised form (%s): %r' % (e, text[:120]))


class _MiniUnsupported(Exception):
    pass


def _mini_run(body, env, fuel=400):
    """Evaluate a straight-line/while/if body over tuples, ints, strings and None (the fields of a Version); `hash(x)` is
    the identity marker ('hash', x).  Anything else raises _MiniUnsupported."""
    env = dict(env)
    state = {'fuel': fuel}

    def ev(e):
        if isinstance(e, ast.Constant):
            return e.value
        if isinstance(e, ast.Name):
            if e.id in env:
                return env[e.id]
            raise _MiniUnsupported('name %s' % e.id)
        if isinstance(e, ast.Attribute):
            base = ev(e.value)
            if isinstance(base, dict) and e.attr in base:
                return base[e.attr]
            raise _MiniUnsupported('attribute %s' % e.attr)
        if isinstance(e, ast.Tuple):
            return tuple(ev(x) for x in e.elts)
        if isinstance(e, ast.UnaryOp):
            v = ev(e.operand)
            if isinstance(e.op, ast.USub):
                return -v
            if isinstance(e.op, ast.Not):
                return not v
            raise _MiniUnsupported('unary')
        if isinstance(e, ast.BinOp):
            l, r = ev(e.left), ev(e.right)
            if isinstance(e.op, ast.Add):
                return l + r
            if isinstance(e.op, ast.Sub):
                return l - r
            if isinstance(e.op, ast.BitXor):
                return ('xor', l, r)
            raise _MiniUnsupported('operator %s' % type(e.op).__name__)
        if isinstance(e, ast.BoolOp):
            if isinstance(e.op, ast.And):
                v = True
                for x in e.values:
                    v = ev(x)
                    if not v:
                        return v
                return v
            v = False
            for x in e.values:
                v = ev(x)
                if v:
                    return v
            return v
        if isinstance(e, ast.Compare):
            l = ev(e.left)
            for op, r_ in zip(e.ops, e.comparators):
                r = ev(r_)
                ok = {ast.Eq: lambda a, b: a == b, ast.NotEq: lambda a, b: a != b, ast.Lt: lambda a, b: a < b,
                      ast.LtE: lambda a, b: a <= b, ast.Gt: lambda a, b: a > b, ast.GtE: lambda a, b: a >= b,
                      ast.Is: lambda a, b: a is b, ast.IsNot: lambda a, b: a is not b}.get(type(op))
                if ok is None:
                    raise _MiniUnsupported('comparison')
                if not ok(l, r):
                    return False
                l = r
            return True
        if isinstance(e, ast.Subscript):
            base = ev(e.value)
            if not isinstance(base, (tuple, str)):
                raise _MiniUnsupported('subscript base')
            if isinstance(e.slice, ast.Slice):
                lo = ev(e.slice.lower) if e.slice.lower is not None else None
                hi = ev(e.slice.upper) if e.slice.upper is not None else None
                st = ev(e.slice.step) if e.slice.step is not None else None
                return base[lo:hi:st]
            try:
                return base[ev(e.slice)]
            except IndexError:
                raise _MiniUnsupported('index error')
        if isinstance(e, ast.Call):
            f = norm(e.func)
            args = [ev(a) for a in e.args]
            if f == 'hash' and len(args) == 1:
                return ('hash', args[0])
            if f == 'len' and len(args) == 1:
                return len(args[0])
            if f == 'tuple' and len(args) == 1:
                return tuple(args[0])
            if f == 'str' and len(args) == 1 and isinstance(args[0], (int, str)):
                return str(args[0])
            raise _MiniUnsupported('call %s' % f)
        raise _MiniUnsupported(type(e).__name__)

    def run(stmts):
        for st in stmts:
            state['fuel'] -= 1
            if state['fuel'] < 0:
                raise _MiniUnsupported('no termination within the step budget')
            if isinstance(st, ast.Assign) and len(st.targets) == 1 and isinstance(st.targets[0], ast.Name):
                env[st.targets[0].id] = ev(st.value)
            elif isinstance(st, ast.AugAssign) and isinstance(st.target, ast.Name) and isinstance(st.op, (ast.Add, ast.Sub)):
                cur = env.get(st.target.id)
                v = ev(st.value)
                env[st.target.id] = cur + v if isinstance(st.op, ast.Add) else cur - v
            elif isinstance(st, ast.While):
                while ev(st.test):
                    state['fuel'] -= 1
                    if state['fuel'] < 0:
                        raise _MiniUnsupported('no termination within the step budget')
                    r = run(st.body)
                    if r is not None:
                        return r
            elif isinstance(st, ast.If):
                r = run(st.body if ev(st.test) else st.orelse)
                if r is not None:
                    return r
            elif isinstance(st, ast.Return):
                return ('ret', ev(st.value) if st.value is not None else None)
            elif isinstance(st, ast.Expr) and isinstance(st.value, ast.Constant):
                continue
            elif isinstance(st, ast.Pass):
                continue
            else:
                raise _MiniUnsupported('statement %s' % type(st).__name__)
        return None

    r = run(body)
    if r is None:
        raise _MiniUnsupported('no return')
    return r[1]


def _nearest(ctx, m, methods):
    fn = methods.get('nearest')
    if fn is None:
        ctx.error('C18.D4', 'anchor vanished: Version.nearest')
        return
    where = '%s:%d' % (F, fn.lineno)
    args = [x.arg for x in fn.args.args]
    ver = args[1] if len(args) > 1 else 'ver'
    # OFFICIAL_VERSIONS constant
    off = m.const(MOD, 'OFFICIAL_VERSIONS')
    ctx.ob('C18.D4', 'OFFICIAL_VERSIONS folds to %r' % (off,), True)
    loop = None
    sorted_desc = False
    list_names = set()
    for st in body_wo_doc(fn):
        if isinstance(st, ast.Assign) and isinstance(st.targets[0], ast.Name):
            v = norm(st.value)
            if v in ('list(OFFICIAL_VERSIONS)', 'sorted(OFFICIAL_VERSIONS)'):
                list_names.add(st.targets[0].id)
            if v in ('sorted(OFFICIAL_VERSIONS, reverse=True)', 'sorted(list(OFFICIAL_VERSIONS), reverse=True)'):
                list_names.add(st.targets[0].id)
                sorted_desc = True
        if isinstance(st, ast.Expr) and isinstance(st.value, ast.Call):
            t = norm(st.value)
            for n in list_names:
                if t == '%s.sort(reverse=True)' % n:
                    sorted_desc = True
        if isinstance(st, ast.For):
            loop = st
    if loop is None or not isinstance(loop.target, ast.Name) or norm(loop.iter) not in list_names \
            and norm(loop.iter) not in ('sorted(OFFICIAL_VERSIONS, reverse=True)',):
        ctx.error('C18.D4', 'nearest(): scan loop over the official versions not recognised')
        return
    if norm(loop.iter) == 'sorted(OFFICIAL_VERSIONS, reverse=True)':
        sorted_desc = True
    cand = loop.target.id
    if sorted_desc:
        ctx.ob('C18.D4', 'candidates are scanned in descending order', True, where)
    else:
        ctx.violation('C18.D4', '%s::Version.nearest' % F, norm(loop.iter),
                      "nearest('1.0') = 3.0 but nearest('2.5') = 2.0 when the scan is not descending (not monotone); "
                      "nearest('3.5') = 2.0 instead of 3.0",
                      'nearest() does not scan the official versions in descending order', file=F, line=loop.lineno,
                      engine='E6')
    # equal candidate first
    first = loop.body[0] if loop.body else None
    eqs = {'%s == %s' % (cand, ver), '%s == %s' % (ver, cand)}
    if isinstance(first, ast.If) and norm(first.test) in eqs and [norm(x) for x in first.body] == ['return %s' % cand]:
        ctx.ob('C18.D4', 'an equal official version is returned before any inequality test', True,
               '%s:%d' % (F, first.lineno))
    else:
        ctx.violation('C18.D4', '%s::Version.nearest' % F, norm(first) if first is not None else '',
                      "nearest('2.0.0') may return a version that is not equal to 2.0",
                      'the scan does not start with `if candidate == ver: return candidate`', file=F,
                      line=loop.lineno, engine='E6')
    # returns
    best_names = set()
    for node in walk_no_nested(fn):
        if isinstance(node, ast.Assign) and isinstance(node.targets[0], ast.Name):
            if norm(node.value) == cand:
                best_names.add(node.targets[0].id)
    parents = {}
    for node in walk_no_nested(fn):
        for ch in ast.iter_child_nodes(node):
            parents[ch] = node
    nret = 0
    for node in walk_no_nested(fn):
        if isinstance(node, ast.Return):
            nret += 1
            v = norm(node.value) if node.value is not None else 'None'
            ok = False
            if v == cand or v in best_names:
                ok = True
            elif v == ver:
                p = parents.get(node)
                ok = isinstance(p, ast.If) and norm(p.test) == '%s in OFFICIAL_VERSIONS' % ver and node in p.body
            if ok:
                ctx.ob('C18.D4', 'nearest() returns %s: a member of OFFICIAL_VERSIONS' % v, True,
                       '%s:%d' % (F, node.lineno))
            else:
                ctx.violation('C18.D4', '%s::Version.nearest' % F, norm(node),
                              "nearest('2.5') returns a value that is not an official version",
                              'return value %s is neither the scan variable, nor guarded by membership' % v,
                              file=F, line=node.lineno, engine='E6')
    # inequality branch directions: `candidate < ver` -> older returned; `candidate > ver` -> best
    for node in walk_no_nested(loop):
        if isinstance(node, ast.If) and node is not first:
            t = norm(node.test)
            body_t = [norm(x) for x in node.body if not isinstance(x, ast.Expr)]
            if 'return %s' % cand in body_t:
                okc = {'best is None and %s < %s' % (cand, ver), '%s < %s' % (cand, ver),
                       'best is None and %s > %s' % (ver, cand), '%s > %s' % (ver, cand)}
                okc |= {c.replace('best', b) for c in list(okc) for b in best_names}
                if t in okc:
                    ctx.ob('C18.D4', 'an older official version is returned only when candidate < ver', True,
                           '%s:%d' % (F, node.lineno))
                else:
                    ctx.violation('C18.D4', '%s::Version.nearest' % F, norm(node.test),
                                  "nearest('2.5') returns 3.0 although 2.0 is the nearest older version, or "
                                  "nearest('1.0') returns an older version that does not exist",
                                  'the "settle for an older version" branch is guarded by %r' % t, file=F,
                                  line=node.lineno, engine='E6')
            elif any(x.startswith(tuple('%s = ' % b for b in best_names)) for x in body_t):
                okc = {'%s > %s' % (cand, ver), '%s < %s' % (ver, cand)}
                if t in okc:
                    ctx.ob('C18.D4', 'a newer official version is remembered only when candidate > ver', True,
                           '%s:%d' % (F, node.lineno))
                else:
                    ctx.violation('C18.D4', '%s::Version.nearest' % F, norm(node.test),
                                  "nearest('1.0') does not return the closest newer version 2.0",
                                  'the "remember newer version" branch is guarded by %r' % t, file=F,
                                  line=node.lineno, engine='E6')
    ctx.floor('nearest() return statements', nret, 3)


_MUTATORS = ('append', 'extend', 'insert', 'pop', 'popitem', 'remove', 'clear', 'update', 'setdefault', 'add', 'discard',
             'sort', 'reverse', '__setitem__', '__delitem__')


def nearest_pure(ctx, rule):
    """Version.nearest is a function of its argument: the gates of Grid, both writers and both readers call it for
    every value, from any thread, for any mix of version spellings.  Decides: nearest() and the functions of
    version.py it calls (i) store nothing on the class, (ii) keep no module-level container, or -- when a memo is
    kept -- (iii) the memo is keyed by the version itself (Version is hashable consistently with ==, C18.D3), never
    by a coarser projection of it such as the numeric groups alone, and (iv) key and value are published by ONE
    store (a memo kept in two attributes is read half-written by a second thread)."""
    m = ctx.model
    try:
        methods = m.methods(MOD, 'Version', 'flat')
        mod = m.mod(MOD)
    except AnalysisError as e:
        ctx.error(rule, str(e))
        return
    fn = methods.get('nearest')
    if fn is None:
        ctx.error(rule, 'anchor vanished: Version.nearest')
        return
    top_funcs = {st.name: st for st in mod.tree.body if isinstance(st, ast.FunctionDef)}
    containers = {}
    for st in mod.tree.body:
        if isinstance(st, ast.Assign) and len(st.targets) == 1 and isinstance(st.targets[0], ast.Name):
            v = st.value
            if isinstance(v, (ast.Dict, ast.List, ast.Set, ast.DictComp, ast.ListComp, ast.SetComp)) or (
                    isinstance(v, ast.Call) and norm(v.func) in ('dict', 'list', 'set', 'OrderedDict', 'collections.OrderedDict',
                                                                 'defaultdict', 'collections.defaultdict',
                                                                 'weakref.WeakValueDictionary', 'WeakValueDictionary')):
                containers[st.targets[0].id] = st
    try:
        cls = m.cls(MOD, 'Version')
    except AnalysisError as e:
        ctx.error(rule, str(e))
        return
    class_attrs = {}
    for st in cls.body:
        if isinstance(st, ast.Assign) and len(st.targets) == 1 and isinstance(st.targets[0], ast.Name):
            class_attrs[st.targets[0].id] = st
    # functions reached from nearest()
    reach = []
    todo = [fn]
    while todo:
        f = todo.pop()
        if f in reach:
            continue
        reach.append(f)
        recv = f.args.args[0].arg if f.args.args else None
        for n in walk_no_nested(f):
            if isinstance(n, ast.Call):
                if isinstance(n.func, ast.Attribute) and isinstance(n.func.value, ast.Name) and n.func.value.id in (recv, 'Version') \
                        and n.func.attr in methods and n.func.attr not in ('__init__',):
                    todo.append(methods[n.func.attr])
                elif isinstance(n.func, ast.Name) and n.func.id in top_funcs:
                    todo.append(top_funcs[n.func.id])
    ctx.count('functions reached from Version.nearest', len(reach))
    for f in reach:
        for d in f.decorator_list:
            if 'cache' in norm(d):
                ctx.error(rule, '%s is memoised by the decorator `%s`: keying not decided' % (f.name, norm(d)[:60]))
                return
    attr_stores = []      # (fn, node, attr)
    cont_stores = []      # (fn, node, container, key expr or None)
    globals_written = []
    for f in reach:
        recv = f.args.args[0].arg if f.args.args else None
        is_method = f.name in methods and methods[f.name] is f
        gl = set()
        for n in walk_no_nested(f):
            if isinstance(n, ast.Global):
                gl |= set(n.names)
        for n in walk_no_nested(f):
            targets = []
            if isinstance(n, ast.Assign):
                targets = list(n.targets)
            elif isinstance(n, (ast.AugAssign, ast.AnnAssign)):
                targets = [n.target]
            flat = []
            for t in targets:
                flat.extend(t.elts if isinstance(t, (ast.Tuple, ast.List)) else [t])
            for t in flat:
                if isinstance(t, ast.Attribute) and isinstance(t.value, ast.Name) and (
                        (is_method and t.value.id == recv and f.name != '__init__') or t.value.id == 'Version'):
                    attr_stores.append((f, n, t.attr))
                elif isinstance(t, ast.Subscript):
                    base = t.value
                    bname = norm(base)
                    if isinstance(base, ast.Name) and base.id in containers:
                        cont_stores.append((f, n, base.id, t.slice))
                    elif isinstance(base, ast.Attribute) and isinstance(base.value, ast.Name) and base.value.id in (recv, 'Version') \
                            and base.attr in class_attrs:
                        cont_stores.append((f, n, bname, t.slice))
                elif isinstance(t, ast.Name) and t.id in gl:
                    globals_written.append((f, n, t.id))
            if isinstance(n, ast.Call) and isinstance(n.func, ast.Attribute) and n.func.attr in _MUTATORS:
                base = n.func.value
                if isinstance(base, ast.Name) and base.id in containers:
                    cont_stores.append((f, n, base.id, n.args[0] if n.args and n.func.attr in ('setdefault', '__setitem__') else None))
                elif isinstance(base, ast.Attribute) and isinstance(base.value, ast.Name) and base.value.id in (recv, 'Version') \
                        and base.attr in class_attrs and is_method:
                    cont_stores.append((f, n, norm(base), n.args[0] if n.args and n.func.attr in ('setdefault', '__setitem__') else None))
    where = '%s:%d' % (F, fn.lineno)
    if not attr_stores and not cont_stores and not globals_written:
        ctx.ob(rule, 'Version.nearest and the %d function(s) it calls store nothing on the class and keep no module-level '
                     'container: the answer depends on the argument alone' % (len(reach) - 1), True, where)
        return
    # (iv) a memo in two places
    names = sorted({a for _, _, a in attr_stores} | {g for _, _, g in globals_written})
    if len(names) >= 2:
        f, n, a = (attr_stores + globals_written)[0]
        ctx.violation(rule, '%s::Version.%s' % (F, f.name), norm(n),
                      'thread A dumps a 2.0 grid and is pre-empted in nearest() between storing `%s` and `%s`; thread B calls '
                      'nearest(3.0) and stores both; A resumes and stores its own result under B\'s key: from then on '
                      'nearest(3.0) answers 2.0, the 3.0 grid is refused by the writers ("does not support NA") and Remove '
                      'is spelled the 2.0 way' % (names[0], names[1]),
                      'nearest() keeps a memo in %d separately stored places (%s): key and value are not published by one '
                      'store, so concurrent callers can pair one version with another version\'s answer'
                      % (len(names), ', '.join(names)), file=F, line=n.lineno, engine='E7')
        return
    if len(names) == 1:
        f, n, a = (attr_stores + globals_written)[0]
        ctx.error(rule, 'nearest() stores `%s` (%s): single-slot memo, keying not decided' % (a, norm(n)[:60]))
        return
    # (iii) containers: what is the key?
    params = [x.arg for x in fn.args.args]
    ver = params[1] if len(params) > 1 else 'ver'
    for f, n, cname, key in cont_stores:
        if key is None:
            ctx.error(rule, 'nearest() path changes the container %s with `%s`: not decided' % (cname, norm(n)[:60]))
            continue
        kt = norm(key)
        fparams = [x.arg for x in f.args.args]
        fver = fparams[1] if len(fparams) > 1 and f.name in methods else (fparams[0] if fparams else ver)
        # resolve one level of single-assignment locals
        for st in walk_no_nested(f):
            if isinstance(st, ast.Assign) and len(st.targets) == 1 and isinstance(st.targets[0], ast.Name) and st.targets[0].id == kt \
                    and st.targets[0].id != fver:
                kt = norm(st.value)
        whole = {fver, 'str(%s)' % fver, 'repr(%s)' % fver, '(%s.version_nums, %s.version_extra)' % (fver, fver),
                 '%s.version_nums + (%s.version_extra,)' % (fver, fver)}
        if kt in whole:
            ctx.ob(rule, 'the memo %s is keyed by the version itself (`%s`)' % (cname, kt), True, '%s:%d' % (F, n.lineno))
        elif 'version_nums' in kt and 'version_extra' not in kt and fver not in [x.id for x in ast.walk(key) if isinstance(x, ast.Name)
                                                                                  and not isinstance(getattr(x, '_parent', None), ast.Attribute)]:
            ctx.violation(rule, '%s::Version.%s' % (F, f.name), norm(n),
                          "nearest('2.0a') (answer 3.0: 2.0a is newer than 2.0) followed by nearest('2.0') answers 3.0 although the "
                          "official version 2.0 is equal to the argument; in the other order nearest('2.0a') answers 2.0, so "
                          "Grid(version='2.0') accepts a list after one document with ver:\"2.0a\" was handled, and nearest() is "
                          "not monotone (2.0a <= 2.0b1 but 3.0 > 2.0 for a memo filled in that order)",
                          'the memo %s is keyed by `%s`: versions that differ only in their suffix (2.0 / 2.0a / 2.0.0-vendor) '
                          'share one entry, whichever is asked first decides for the others' % (cname, kt),
                          file=F, line=n.lineno, engine='E6')
        else:
            ctx.error(rule, 'nearest() memo %s keyed by `%s`: not decided' % (cname, kt[:60]))


_COARSE = (('int', "the suffixes 'rc1' and 'rc01' (or 'beta7' / 'beta07')"), ('float', "the suffixes 'rc1' and 'rc1.0'"),
           ('lower', "the suffixes 'RC1' and 'rc1'"), ('upper', "the suffixes 'RC1' and 'rc1'"), ('casefold', "the suffixes 'RC1' and 'rc1'"),
           ('strip', "the suffixes 'a' and 'a '"), ('lstrip', "the suffixes 'a' and ' a'"), ('rstrip', "the suffixes 'a' and 'a '"))


def _suffix_transform(ctx, m, methods):
    """(D3) == must not be coarser than hash: when _cmp compares the suffixes through a function (a helper that splits
    off embedded numbers, a case fold, a strip) and __hash__ hashes the raw suffix, two versions whose suffixes differ only
    in what the function forgets are equal with different hashes."""
    cmpf, hashf = methods.get('_cmp'), methods.get('__hash__')
    if cmpf is None or hashf is None:
        return
    s_ = cmpf.args.args[0].arg
    o_ = cmpf.args.args[1].arg if len(cmpf.args.args) > 1 else 'other'
    calls = {}
    for n in walk_no_nested(cmpf):
        if isinstance(n, ast.Call) and len(n.args) == 1 and not n.keywords and isinstance(n.func, ast.Name):
            a = norm(n.args[0])
            if a in ('%s.version_extra' % s_, '%s.version_extra' % o_):
                calls.setdefault(n.func.id, set()).add(a)
    # the same, after the helper was read at its call sites (normal form): locals derived from both suffixes through a
    # forgetting primitive and then compared
    assigns = {}
    for n in walk_no_nested(cmpf):
        if isinstance(n, ast.Assign) and len(n.targets) == 1 and isinstance(n.targets[0], ast.Name):
            assigns.setdefault(n.targets[0].id, []).append(n.value)

    def derive(name, seen):
        prims, roots = set(), set()
        if name in seen:
            return prims, roots
        seen.add(name)
        for v in assigns.get(name, []):
            for x in ast.walk(v):
                if isinstance(x, ast.Call):
                    prims.add(norm(x.func).split('.')[-1])
                elif isinstance(x, ast.Attribute) and norm(x) in ('%s.version_extra' % s_, '%s.version_extra' % o_):
                    roots.add(norm(x))
                elif isinstance(x, ast.Name) and x.id in assigns:
                    p2, r2 = derive(x.id, seen)
                    prims |= p2
                    roots |= r2
        return prims, roots
    hs0 = hashf.args.args[0].arg
    htext0 = ' '.join(norm(x) for x in body_wo_doc(hashf))
    for n in walk_no_nested(cmpf):
        if isinstance(n, ast.Compare) and len(n.ops) == 1 and isinstance(n.left, ast.Name) and isinstance(n.comparators[0], ast.Name) \
                and isinstance(n.ops[0], (ast.Eq, ast.NotEq, ast.Lt, ast.Gt, ast.LtE, ast.GtE)):
            pa, ra = derive(n.left.id, set())
            pb, rb = derive(n.comparators[0].id, set())
            if {'%s.version_extra' % s_, '%s.version_extra' % o_} <= (ra | rb) and ra and rb:
                hit = [(k, w) for k, w in _COARSE if k in pa and k in pb]
                if hit and ('%s(' % hit[0][0]) not in htext0 and ('.%s(' % hit[0][0]) not in htext0:
                    k, w = hit[0]
                    ctx.violation('C18.D3', '%s::Version._cmp / __hash__' % F, norm(n),
                                  "Version('3.0rc1') == Version('3.0rc01') is True (%s compare equal once %s() was applied to them) "
                                  "but their hashes differ: __hash__ hashes the raw suffix -- a dict keyed by versions misses, set() "
                                  "keeps both" % (w, k),
                                  '_cmp compares values derived from the suffixes through %s() (`%s`), __hash__ hashes the raw suffix: '
                                  'equal versions with different hashes' % (k, norm(n)), file=F, line=n.lineno, engine='E6')
                    return
    for fname, args in sorted(calls.items()):
        if len(args) != 2:
            continue
        hs = hashf.args.args[0].arg
        htext = ' '.join(norm(x) for x in body_wo_doc(hashf))
        if '%s(%s.version_extra)' % (fname, hs) in htext:
            ctx.ob('C18.D3', '_cmp compares the suffixes through %s(), and __hash__ hashes %s() of the suffix too' % (fname, fname),
                   True, '%s:%d' % (F, hashf.lineno))
            continue
        try:
            hf = m.func(MOD, fname)
        except AnalysisError:
            if fname in ('str', 'repr', 'tuple', 'list'):
                continue
            ctx.error('C18.D3', '_cmp compares %s(suffix) but __hash__ does not hash it; %s is not a function of version.py: not decided'
                      % (fname, fname))
            continue
        used = {norm(c.func).split('.')[-1] for c in ast.walk(hf) if isinstance(c, ast.Call)}
        hit = [(k, w) for k, w in _COARSE if k in used]
        if hit:
            k, w = hit[0]
            ctx.violation('C18.D3', '%s::Version._cmp / __hash__' % F, '%s(%s.version_extra) vs %s(%s.version_extra)' % (fname, s_, fname, o_),
                          "Version('3.0rc1') == Version('3.0rc01') is True (%s compare equal through %s(), which applies %s()) but "
                          "their hashes differ: __hash__ hashes the raw suffix -- a dict keyed by versions misses, set() keeps both"
                          % (w, fname, k),
                          '_cmp compares the suffixes through %s() (not injective: it applies %s()), __hash__ hashes the raw suffix: '
                          'equal versions with different hashes' % (fname, k), file=F, line=cmpf.lineno, engine='E6')
        else:
            ctx.error('C18.D3', '_cmp compares %s(suffix) but __hash__ hashes the raw suffix; whether %s() is injective is not decided'
                      % (fname, fname))


def version_immutable(ctx, rule):
    """Versions are values: version_nums is stored as a tuple, so `num1 = self.version_nums; num1 += pad` in _cmp builds a
    new tuple.  Stored as a list, the same statement extends the version's own list in place -- comparing 3 with 3.0.0
    (which every dump does through its version gates) pads the shared constant VER_3_0, and str(version), i.e. the
    `ver:` header of every later document, changes."""
    m = ctx.model
    try:
        init = m.func(MOD, 'Version.__init__')
        cls = m.cls(MOD, 'Version')
    except AnalysisError as e:
        ctx.error(rule, str(e))
        return
    stores = [n for n in ast.walk(init) if isinstance(n, ast.Assign) and norm(n.targets[0]).endswith('.version_nums')
              and not norm(n.value).endswith('.version_nums')]
    if not stores:
        ctx.error(rule, 'Version.__init__: assignment of version_nums not found')
        return
    st = stores[0]
    v = st.value
    is_tuple = (isinstance(v, ast.Call) and norm(v.func) == 'tuple') or isinstance(v, ast.Tuple)
    is_list = isinstance(v, (ast.List, ast.ListComp)) or (isinstance(v, ast.Call) and norm(v.func) == 'list')
    # in-place operations on an alias of version_nums anywhere in the class
    inplace = []
    for fn in [n for n in ast.walk(cls) if isinstance(n, ast.FunctionDef)]:
        aliases = {norm(a.targets[0]) for a in ast.walk(fn) if isinstance(a, ast.Assign) and len(a.targets) == 1
                   and isinstance(a.targets[0], ast.Name) and norm(a.value).endswith('.version_nums')}
        for n in ast.walk(fn):
            if isinstance(n, ast.AugAssign) and norm(n.target) in aliases:
                inplace.append((fn, n))
            if isinstance(n, ast.Call) and isinstance(n.func, ast.Attribute) and norm(n.func.value) in aliases \
                    and n.func.attr in ('append', 'extend', 'insert', 'pop', 'sort', 'reverse', 'remove'):
                inplace.append((fn, n))
    where = '%s:%d' % (F, st.lineno)
    if is_tuple:
        ctx.ob(rule, 'version_nums is a tuple: the padding `+=` in comparisons cannot change a Version (%d augmented '
                     'assignment(s) on aliases)' % len(inplace), True, where)
    elif is_list and inplace:
        fn, n = inplace[0]
        ctx.violation(rule, '%s::Version.%s' % (F, fn.name), norm(n),
                      "dump a grid parsed from ver:\"3\" twice (or dump any 3.0 grid after a ver:\"3.0.0\" document was handled): the "
                      "version gates compare the grid's version with VER_3_0, `%s` extends the list of the shorter operand in place, "
                      "and the header is written `ver:\"3.0\"` / `ver:\"3.0.0\"` the second time" % norm(n),
                      'version_nums is stored as a list (`%s`) and padded in place during comparisons: comparing two versions '
                      'changes them' % norm(st)[:80], file=F, line=n.lineno, engine='E7')
    elif is_list:
        ctx.ob(rule, 'version_nums is a list but no method changes it in place', True, where)
    else:
        ctx.error(rule, 'Version.__init__ stores version_nums as `%s`; mutability not decided' % norm(v)[:60])
