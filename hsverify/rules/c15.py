"""C15 -- lookup by id always reflects the rows currently in the grid."""
from . import _grid

META = {
    'level': 'other',
    'explanation': (
        'Static analysis of the id index of hszinc/grid.py::Grid as an inductive representation invariant '
        '(_index is None or equals {str(r["id"]): r for r in rows if "id" in r}).  Decides: (D1) every method that '
        'changes the row list (directly, through an alias such as result._row, or through the mixin extend) ends on '
        'every path with the index rebuilt (reindex()), invalidated (= None) or, for a pure addition of row v, '
        'updated by _index[str(v["id"])] = v under `"id" in v`; incremental removal by popping "the old row\'s id" is '
        'not accepted (reverse() is two __setitem__ calls with one row transiently present twice; slice indices '
        'make self._row[index] a list); reindex() has the canonical shape; (D2) every read/write/delete on the index '
        'uses the same str(.) key normaliser; (D3) no dereference of the index where it may be None; grid[key] and '
        'get() ensure the index and look up str(key); (D4) only Grid methods touch _row/_index.  Not decided: '
        'lock-step with a scan-based model as an execution; duplicate ids (unspecified).'),
    'rule_text': 'obligations = row-list writers x index-invariant, index key expressions, dereference sites, lookup '
                 'shapes, who-may-write sites',
    'trusted_base': ['collections.abc.MutableSequence mixins (append->insert, extend->append, reverse->__setitem__ '
                     'pairs, pop->__getitem__+__delitem__)'],
}


def run(ctx):
    meths = _grid.grid_methods(ctx)
    _grid.index_pairing(ctx, meths, 'C15.D1')
    # a refused store must not leave a row in the list that the index does not know (shared with C14.D2)
    _grid.refuse_before_write(ctx, meths, 'C15.D1')
    _grid.reindex_shape(ctx, meths, 'C15.D1')
    _grid.key_normaliser(ctx, meths, 'C15.D2')
    _grid.nullness(ctx, meths, 'C15.D3')
    _grid.lookups(ctx, meths, 'C15.D3')
    _grid.who_may_write(ctx, 'C15.D4')
