"""E8 -- exception-escape analysis with a frozen may-raise table (under-approximate by construction:
only tabled facts produce findings; unknown callees are counted, never reported)."""
from __future__ import annotations

import ast

from . import spec as S
from .model import norm


def table():
    return S.load('may_raise.json')


def is_subclass(exc, base):
    h = table()['hierarchy']
    seen = set()
    e = exc
    while e and e not in seen:
        if e == base:
            return True
        seen.add(e)
        e = h.get(e)
    return False


OVERLAY = {}


def call_raises(call):
    """exception names a call may raise per the table, or None if the callee is not tabled."""
    t = table()
    f = call.func
    name = norm(f)
    if isinstance(f, ast.Attribute) and f.attr in OVERLAY.get('methods', {}):
        return list(OVERLAY['methods'][f.attr])
    if name in t['calls']:
        return list(t['calls'][name])
    if isinstance(f, ast.Attribute):
        if call.args and f.attr in t.get('methods_with_args', {}):
            # <tzinfo>.utcoffset(naive) / .localize(naive): pytz interprets a wall-clock time
            return list(t['methods_with_args'][f.attr])
        if f.attr in t['methods']:
            return list(t['methods'][f.attr])
    if isinstance(f, ast.Name) and f.id in t['calls']:
        return list(t['calls'][f.id])
    return None


def protected(node, stop):
    """handler class names of the try blocks (inside `stop`) whose body contains node"""
    out = []
    p = getattr(node, '_parent', None)
    child = node
    while p is not None and p is not stop:
        if isinstance(p, ast.Try) and child in p.body:
            for h in p.handlers:
                if h.type is None:
                    out.append('BaseException')
                elif isinstance(h.type, ast.Tuple):
                    out.extend(norm(e) for e in h.type.elts)
                else:
                    out.append(norm(h.type))
        child = p
        p = getattr(p, '_parent', None)
    return out


def escaping(fn_node, allowed_base='ValueError'):
    """(call node, exception) pairs that may escape `fn_node` and are not subclasses of allowed_base;
    plus the list of untabled callees."""
    bad = []
    unknown = []
    n_calls = 0
    for n in ast.walk(fn_node):
        if isinstance(n, ast.Call):
            n_calls += 1
            r = call_raises(n)
            if r is None:
                unknown.append(norm(n.func))
                continue
            prot = protected(n, fn_node)
            for exc in r:
                if any(is_subclass(exc, h.replace('pp.', '')) or h in ('BaseException', 'Exception') for h in prot):
                    continue
                if not is_subclass(exc, allowed_base):
                    bad.append((n, exc))
        if isinstance(n, ast.Raise) and n.exc is not None:
            exc = n.exc
            ename = norm(exc.func) if isinstance(exc, ast.Call) else norm(exc)
            prot = protected(n, fn_node)
            if any(h in ('BaseException', 'Exception') for h in prot):
                continue
            if not is_subclass(ename, allowed_base) and ename in table()['hierarchy']:
                bad.append((n, ename))
    return bad, unknown, n_calls
