"""E9 -- normal forms of small (one-expression) methods and comparison with the form
the data model prescribes.  Normal forms are nested tuples:

  ('V',)                   self.value
  ('U', name)              unwrap(name):  name.value if isinstance(name, Qty) else name
  ('P', name)              a raw parameter
  ('bin', Op, l, r) ('un', Op, x) ('cmp', Op, l, r) ('call', fname, [args]) ('const', v)
  ('attr', base, name)
"""
from __future__ import annotations

import ast
import json
import operator
import os

from .lang import Unsupported
from .model import body_wo_doc, norm

SPEC = os.path.join(os.path.dirname(os.path.dirname(os.path.abspath(__file__))), 'spec')


def load_spec(name):
    with open(os.path.join(SPEC, name), encoding='utf-8') as f:
        return json.load(f)


class NF(object):
    """Evaluator of method bodies into normal forms."""

    def __init__(self, unwrap_classes, self_attrs=('value',)):
        self.unwrap_classes = set(unwrap_classes)
        self.self_attrs = self_attrs
        self.bad_unwrap = None     # (node, class text) if an unwrap tested another class
        self.inverted_unwrap = None   # the unwrap statement sits under `not isinstance(...)`

    def _is_unwrap_test(self, test, env):
        """isinstance(<param>, Qty) -> param name (or None)."""
        if isinstance(test, ast.Call) and norm(test.func) == 'isinstance' and len(test.args) == 2 \
                and isinstance(test.args[0], ast.Name):
            cls = norm(test.args[1])
            if cls not in self.unwrap_classes:
                self.bad_unwrap = (test, cls)
            return test.args[0].id
        return None

    def method(self, fn):
        args = [a.arg for a in fn.args.args]
        env = {}
        for a in args[1:]:
            env[a] = ('P', a)
        selfname = args[0] if args else 'self'
        body = body_wo_doc(fn)
        ret = None
        for i, st in enumerate(body):
            if isinstance(st, ast.If) and not st.orelse and len(st.body) == 1 \
                    and isinstance(st.body[0], ast.Assign):
                test_ = st.test
                if isinstance(test_, ast.UnaryOp) and isinstance(test_.op, ast.Not):
                    pi = self._is_unwrap_test(test_.operand, env)
                    asg_ = st.body[0]
                    if pi and len(asg_.targets) == 1 and norm(asg_.targets[0]) == pi and norm(asg_.value) == '%s.value' % pi:
                        self.inverted_unwrap = st
                        env[pi] = ('P', pi)
                        continue
                p = self._is_unwrap_test(st.test, env)
                asg = st.body[0]
                if p and len(asg.targets) == 1 and isinstance(asg.targets[0], ast.Name) \
                        and asg.targets[0].id == p and norm(asg.value) == '%s.value' % p \
                        and env.get(p) == ('P', p):
                    env[p] = ('U', p)
                    continue
                raise Unsupported('statement %r in %s' % (norm(st).split('\n')[0], fn.name))
            if isinstance(st, ast.Assign) and len(st.targets) == 1 and isinstance(st.targets[0], ast.Name):
                env[st.targets[0].id] = self.expr(st.value, env, selfname)
                continue
            if isinstance(st, ast.Return) and i == len(body) - 1:
                ret = self.expr(st.value, env, selfname) if st.value is not None else ('const', None)
                continue
            raise Unsupported('statement %r in %s' % (norm(st).split('\n')[0], fn.name))
        if ret is None:
            raise Unsupported('%s has no final return' % fn.name)
        return ret

    def expr(self, e, env, selfname):
        f = lambda x: self.expr(x, env, selfname)
        if isinstance(e, ast.Name):
            if e.id in env:
                return env[e.id]
            return ('name', e.id)
        if isinstance(e, ast.Constant):
            return ('const', e.value)
        if isinstance(e, ast.Attribute):
            if isinstance(e.value, ast.Name) and e.value.id == selfname:
                if e.attr == 'value':
                    return ('V',)
                return ('attr', ('self',), e.attr)
            return ('attr', f(e.value), e.attr)
        if isinstance(e, ast.BinOp):
            return ('bin', type(e.op).__name__, f(e.left), f(e.right))
        if isinstance(e, ast.UnaryOp):
            return ('un', type(e.op).__name__, f(e.operand))
        if isinstance(e, ast.Compare) and len(e.ops) == 1:
            return ('cmp', type(e.ops[0]).__name__, f(e.left), f(e.comparators[0]))
        if isinstance(e, ast.IfExp):
            # other.value if isinstance(other, Qty) else other
            p = self._is_unwrap_test(e.test, env)
            if p and norm(e.body) == '%s.value' % p and norm(e.orelse) == p and env.get(p) == ('P', p):
                return ('U', p)
            raise Unsupported('conditional expression %r' % norm(e))
        if isinstance(e, ast.Call):
            if e.keywords:
                raise Unsupported('keyword call %r' % norm(e))
            if isinstance(e.func, ast.Name):
                return ('call', e.func.id, [f(a) for a in e.args])
            if isinstance(e.func, ast.Attribute):
                return ('mcall', f(e.func.value), e.func.attr, [f(a) for a in e.args])
        if isinstance(e, ast.Lambda):
            largs = [a.arg for a in e.args.args]
            env2 = dict(env)
            for a in largs:
                env2[a] = ('L', largs.index(a))
            return ('lambda', len(largs), self.expr(e.body, env2, selfname))
        if isinstance(e, ast.Tuple):
            return ('tuple', [f(x) for x in e.elts])
        raise Unsupported('expression %r' % norm(e))


BINOPS = {
    'Add': operator.add, 'Sub': operator.sub, 'Mult': operator.mul, 'Div': operator.truediv,
    'FloorDiv': operator.floordiv, 'Mod': operator.mod, 'LShift': operator.lshift,
    'RShift': operator.rshift, 'BitAnd': operator.and_, 'BitXor': operator.xor, 'BitOr': operator.or_,
    'Pow': operator.pow,
}
UNOPS = {'USub': operator.neg, 'UAdd': operator.pos, 'Invert': operator.invert, 'Not': operator.not_}
CMPOPS = {'Lt': operator.lt, 'LtE': operator.le, 'Eq': operator.eq, 'NotEq': operator.ne,
          'GtE': operator.ge, 'Gt': operator.gt}
CALLS = {'divmod': divmod, 'pow': pow, 'abs': abs, 'int': int, 'float': float, 'complex': complex}


def nf_eval(nf, v, o, lam=None):
    """Evaluate a normal form on constants (witness derivation on the *model*)."""
    k = nf[0]
    if k == 'V':
        return v
    if k in ('U', 'P'):
        return o
    if k == 'L':
        return lam[nf[1]]
    if k == 'const':
        return nf[1]
    if k == 'bin':
        return BINOPS[nf[1]](nf_eval(nf[2], v, o, lam), nf_eval(nf[3], v, o, lam))
    if k == 'un':
        return UNOPS[nf[1]](nf_eval(nf[2], v, o, lam))
    if k == 'cmp':
        return CMPOPS[nf[1]](nf_eval(nf[2], v, o, lam), nf_eval(nf[3], v, o, lam))
    if k == 'call' and nf[1] in CALLS:
        args = [nf_eval(a, v, o, lam) for a in nf[2]]
        if nf[1] == 'pow' and len(args) == 3 and args[2] is None:
            args = args[:2]
        return CALLS[nf[1]](*args)
    raise Unsupported('cannot evaluate %r' % (nf,))


def differing_operands(got, want, pairs, unary=False):
    for v, o in pairs:
        try:
            a = nf_eval(got, v, o)
        except Unsupported:
            return None
        except Exception as e:
            a = type(e).__name__
        try:
            b = nf_eval(want, v, o)
        except Exception as e:
            b = type(e).__name__
        if a != b or type(a) is not type(b) or (isinstance(a, float) and isinstance(b, float) and repr(a) != repr(b)):
            if unary:
                return 'v=%r: method gives %r, the plain value gives %r' % (v, a, b)
            return 'v=%r, x=%r: method gives %r, the plain value gives %r' % (v, o, a, b)
    return None


def show(nf):
    k = nf[0]
    if k == 'V':
        return 'self.value'
    if k == 'U':
        return 'unwrap(%s)' % nf[1]
    if k == 'P':
        return nf[1]
    if k == 'L':
        return 'arg%d' % nf[1]
    if k == 'const':
        return repr(nf[1])
    if k == 'name':
        return nf[1]
    if k in ('bin', 'cmp'):
        return '(%s %s %s)' % (show(nf[2]), nf[1], show(nf[3]))
    if k == 'un':
        return '(%s %s)' % (nf[1], show(nf[2]))
    if k == 'call':
        return '%s(%s)' % (nf[1], ', '.join(show(a) for a in nf[2]))
    if k == 'mcall':
        return '%s.%s(%s)' % (show(nf[1]), nf[2], ', '.join(show(a) for a in nf[3]))
    if k == 'attr':
        return '%s.%s' % ('self' if nf[1] == ('self',) else show(nf[1]), nf[2])
    if k == 'lambda':
        return 'lambda/%d: %s' % (nf[1], show(nf[2]))
    if k == 'tuple':
        return '(%s)' % ', '.join(show(a) for a in nf[1])
    return repr(nf)
